#!/usr/bin/env python3
"""Regenerates MANIFEST.json from the table below (keeps it schema-valid)."""
import json, os
HERE = os.path.dirname(os.path.abspath(__file__))
props = {}
for l in open(os.path.join(HERE, "properties.jsonl")):
    p = json.loads(l); props[p["id"]] = p

CLAIMED = {
 "C19": dict(
   text="Bounded symbolic model checking of the real pareto.is_pareto_efficient, pymoo_addon.dominates and the three distance transformations: every feasible path of the real code over symbolic points/weights is explored (z3 decides branch feasibility) and the dominance / geometric-definition / invariance / finiteness assertions are discharged as unsat queries; counterexamples are replayed on real numpy before being reported.",
   note="Bounds: <=4 points (5 thorough) x <=3 objectives; reals instead of float64; sqrt by contract (y>=0, y*y=x); numpy-compat shim. Outside: larger fronts, NaN/inf coordinates, rounding.",
   technique="symbolic execution of the real numpy code on z3-term arrays (symnp) + z3 (QF_NRA) per-path obligations, replay on real numpy",
   design="2/C19"),
   "C17": dict(
   text="Bounded symbolic model checking of the real sampling utilities: stochastic_universal_sampling, tiled_choice, axis_shuffle, outcross_shuffle run on symbolic weights and a contract-stubbed generator (offset draw, permutations and choices are solver variables); per path the floor/ceil-count, zero-weight, balance, multiset, slice-locality and local-optimality assertions are discharged by z3; counterexamples replayed on real numpy with a scripted generator.",
   note="Bounds: <=3 options x <=3 draws (4x4 thorough), tables 2x2 (3x2 thorough); exact reals; generator by contract (uniform in [lo,hi), arbitrary permutations; outcross_shuffle explores the rotations of each exchange-order shuffle, justified in evidence.stubs).",
   technique="symbolic execution of the real numpy code on z3-term arrays (symnp) + z3 per-path obligations, symbolic random generator, replay on real numpy",
   design="2/C17"),
   "C09": dict(
   text="Two solver-decided layers over the real genotype-matrix classes. (1) exact-real symbolic execution of tacount/tafreq/acount/afreq/afixed/apoly/maf/meh/gtcount/gtfreq/mat_asformat of DenseGenotypeMatrix and DensePhasedGenotypeMatrix (incl. after in-place taxa edits and phased vs. unphased projection) on symbolic allele calls, each statistic proved equal to its textbook definition; (2) fp64 kernels: the arithmetic of afreq/afixed/apoly/maf is translated from the current source (AST) into IEEE-754 double terms and z3 decides, for every population size n<=64 (256 thorough) and every allele count, that p==0/p==1 exactly when the locus is fixed, 0<=p<=1, afixed<=>not apoly, maf in [0,0.5]. Counterexamples are replayed on the real classes.",
   note="Bounds: taxa<=3 (4), markers<=2, ploidy 2 in real mode; n<=64 (256) and ploidy 2 (1..4) in fp64 mode. Outside: output dtype conversions, larger populations.",
   technique="symbolic execution on z3-term arrays (symnp, QF_NIRA) + AST-to-z3-FloatingPoint translation of the frequency kernels (QF_FP/QF_BV), replay on real numpy",
   design="2/C09"),
   "C10": dict(
   text="One inductive closed-population step decided by z3 on the real usl/lsl/gebv code: from an arbitrary symbolic population P and an arbitrary derived population P' whose alleles are present in P (the closure C01 proves for mating), the limits of P bracket every gebv in P and P', usl(P')<=usl(P), lsl(P')>=lsl(P), all-fixed => lsl=usl=value, limits equal their independent definition, and phased/unphased/raw-array inputs agree. fp64 kernels (AST translation of the current source) decide that the p>0.0 / p>=1.0 comparators agree with the allele-count predicates for all n<=64 (256) and, separately, for every double p in [0,1].",
   note="Bounds: |P|,|P'|<=2 (3), markers<=2 (3), traits<=2; exact reals in the step; fp64: n<=64 (256), |u|<=1e150. The step covers histories of any length within the size bound; the closure assumption is C01's result.",
   technique="symbolic execution on z3-term arrays (inductive step, QF_NRA) + AST-to-z3-FloatingPoint translation of the frequency/comparator kernels, replay on real numpy",
   design="2/C10"),
   "C18": dict(
   text="Bounded symbolic model checking of the real haplotype-block code: nhaploblk_chrom, haplobin, haplobin_bounds, haplomat and the OHV problem's _calc_haplomat/_calc_xmap/_calc_ohvmat run on symbolic genetic positions (sorted within chromosome, ties and clusters reachable), symbolic genotypes and effects; z3 decides every comparison against the equal-width bounds, so each layout class is a path, and the partition, apportionment, conservation, every-cell-written (numpy.empty cells are marked) and OHV-definition assertions are discharged per path. The known defect (an empty equal-width bin gives fewer blocks than requested) is reported as KNOWN-FINDING from its witness and excluded by its exact class predicate only.",
   note="Bounds: chromosome layouts up to (3,2) quick / (5),(3,3),(2,2,2) thorough, every admissible block total, taxa<=2 (3), traits 1 (2); exact reals. Replays poison numpy.empty with NaN so unwritten cells are observable.",
   technique="symbolic execution on z3-term arrays (symnp) + z3 per-path obligations, replay on real numpy",
   design="2/C18"),
   "C20": dict(
   text="CrossHair (symbolic execution of Python with z3) on the real RecurrentSelectionBreedingProgram.evolve/advance/reset/initialize driven by recording subclasses of the real operator and logbook base classes: for every number of replicates and generations within the bound, loginit, pre-initialised or not, and every combination of operators mutating their inputs in place, the recorded trace (call order, time index, contents each operator/logbook receives, logbook replicate counter) equals the reference trace and the stored start state is unchanged; 'Confirmed over all paths' is required, a reachability twin (post: False) must be refuted, counterexamples are replayed concretely.",
   note="Bounds: nrep,ngen<=2, t_max=1 (quick); <=3 and t_max in 0..2 (thorough). In-place-mutation flags are enumerated over 16 harness instances, the rest is symbolic. Engine='symnp' runner only schedules the CrossHair processes.",
   technique="CrossHair symbolic execution (z3) of the real loop with PEP316 contracts; Confirmed-over-all-paths required; reachability twin; concrete replay",
   design="2/C20"),
   "C01": dict(
   text="Assume-guarantee decomposition, each half decided on the real code. Kernel: mat_meiosis/mat_dh/mat_mate and the duplicate dense_* functions run on symbolic alleles, crossover probabilities (exact 0 and 1 reachable) and uniform draws; on every feasible path each gamete cell is term-identical to a cell of the selected individual at that marker and z3 proves that the copy changes only where the path condition entails xoprob>0. Protocols: mate() of all seven protocols runs with the kernel replaced by its summary (provenance tokens), and the crossing structure of every progeny copy, the sharing of gametes, progeny count/order/names/family labels/counters, homozygosity of DH progeny and the untouched inputs/metadata are compared with the documented crossing diagrams for enumerated configurations (selfs, repeated parents, scalar and per-cross array counts, selfing depth). End-to-end runs with the real kernel tie the halves together. Counterexamples are replayed on real numpy with real generators.",
   note="Bounds: kernel <=3 markers (5 thorough), <=2 gametes; protocols <=2 crosses (3), nmating/nprogeny in {1,2}, nself<=1 (2), 2 markers; founders carry pairwise distinct codes. The kernel summary is justified by the kernel obligations of the same run.",
   technique="symbolic execution on z3-term arrays (symnp): term-identity provenance + z3 entailment of xoprob>0 per path; kernel summary (assume-guarantee) for the protocols; replay on real numpy",
   design="2/C01"),
   "C02": dict(
   text="Exact path-probability form instead of sampling: every feasible path of the real meiosis kernels (mat_meiosis/mat_dh/mat_mate, dense_*) is enumerated symbolically; z3 proves that each path condition is exactly the conjunction of literals u_ij<x_j / not(u_ij<x_j) over pairwise distinct uniform draws (one per gamete and marker), that paths are in bijection with crossover-indicator patterns and that the transmitted copy is the running parity; the path probabilities are therefore products of x_j/(1-x_j), and z3 discharges the polynomial identities: P(copy changes at j)=xoprob[j], P(a,b recombine)=(1-prod(1-2x))/2, independence of intervals and of gametes, one half at chromosome starts => every locus transmits either copy with probability one half and chromosomes assort independently. The Haldane composition law is proved from the source of mapfn (exp axiomatised). Counterexamples are replayed on the real kernel with scripted draws against a reference meiosis.",
   note="Bounds: <=3 markers x <=2 gametes (quick), <=5 markers (thorough). The step from the proved per-gamete law to convergence of empirical proportions is the law of large numbers (mathematical, not solver-checked); uniformity/independence of the real generator is the stub contract.",
   technique="symbolic path enumeration of the real kernel (symnp) + z3: path-condition equivalence, bijection, polynomial identities (QF_NRA); exp as uninterpreted function with axioms; replay with scripted draws",
   design="2/C02"),
   "C11": dict(
   text="Bounded symbolic model checking of the real Haldane/Kosambi map functions, StandardGeneticMap and ExtendedGeneticMap (constructor sort/group, build_spline, interp_genpos, interp_gmap, gdist1g/2g/1p/2p) and DenseGeneticMappableMatrix.interp_xoprob on symbolic genetic/physical positions and query positions, for every enumerated row order: z3 proves range/zero/monotonicity/inverse laws of the map functions from their source (exp/log/tanh/arctanh axiomatised), that the constructed map is the sorted permutation of its rows with a correct chromosome partition, the metric laws of the distance functions, interpolation at own markers, linearity and order preservation between flanking markers, NaN on absent chromosomes, independence of the supplied row order (also for auto_group=False maps) and xoprob = mapfn(consecutive interpolated distance) with one half at chromosome starts even when stale positions are present.",
   note="Bounds: <=2 chromosomes x <=3 markers (thorough: up to (3,2),(4)), positions symbolic; interp1d is a piecewise-linear model validated against scipy on path models; transcendental functions by axioms; exact reals.",
   technique="symbolic execution on z3-term arrays (symnp) + z3 (QF_NRA + uninterpreted functions with instantiated axioms); contract model of scipy interp1d; replay on real numpy/scipy",
   design="2/C11"),
   "C15": dict(
   text="Bounded symbolic model checking of the real DenseBreedingValueMatrix (and EBV/GEBV subclasses) and DenseScaledMatrix: from_numpy/unscale/t* summaries and every taxa-axis operation run on symbolic raw values (constant columns reached by forking on scale==0, missing values at enumerated cells); z3 proves unscale()==raw cell-wise, every unscale=True summary equal to the summary of the raw column, retained taxa keep raw values and labels under select/delete/insert/adjoin, NaN cells stay NaN and nothing else becomes NaN, transform/untransform/in-place unscale round-trip. The inherited concat/append/incorp/remove methods ignore location/scale: reported as KNOWN-FINDING from its witness and excluded by call site only.",
   note="Bounds: taxa<=3 (4), traits<=2, one structural operation; exact reals (float cancellation for large offsets is outside); sqrt by contract; extrema claimed for NaN-free columns.",
   technique="symbolic execution on z3-term arrays (symnp) + z3 (QF_NRA) per-path obligations, replay on real numpy",
   design="2/C15"),
   "C13": dict(
   text="Bounded symbolic model checking of the real Molecular/VanRaden/Yang/GeneralizedWeighted coancestry classes (from_gmat, the two factories) and DenseCoancestryMatrix summaries: genotype calls symbolic (molecular) or enumerated by forking (estimators with real parameters), reference frequencies, marker weights and a test vector symbolic; z3 proves cell-wise equality with the independently written published formulas (molecular = twice the mean identity-by-state probability), symmetry, a sum-of-squares certificate for v'Gv (positive semidefiniteness), kinship = half coancestry, label/group metadata of the source, equivariance under permutation and sub-selection of taxa for fixed-reference estimators, max/min/mean/max_inbreeding, and inverse/min_inbreeding against the linear-algebra contract G.B=I.",
   note="Bounds: taxa<=2 (3), markers<=2 (3), ploidy 1 and 2; Yang only with one marker and two taxa (the square-root scaling times out beyond that); inverse for n<=2 on an arbitrary positive definite matrix (Sylvester assumed); exact reals; LAPACK eigenvalue routines outside.",
   technique="symbolic execution on z3-term arrays (symnp) + z3 (QF_NIRA/QF_NRA) identities and SOS certificates; contract stub for numpy.linalg.inv; replay on real numpy",
   design="2/C13"),
   "C12": dict(
   text="Bounded symbolic model checking of the real progeny-variance code (from_algmod/from_gmod of the two-, three-, four-way and dihybrid DH genetic variance, genic variance and progeny covariance classes, vmat/util closed forms, srange chunking): marker effects, allele codes (generalised to reals, 0/1 for the genic classes) and the recombination fraction of every distinct marker distance are symbolic; the reference is an exhaustive two-locus gamete enumeration of each crossing scheme with polynomial weights in r (built independently in the harness, selfing generations included) assembled over marker pairs, and z3 proves equality for every parent index tuple (repeated parents included), independence of the memory-chunk parameter, and the Haldane-based run on symbolic positions. Counterexamples are replayed on real numpy.",
   note="Bounds: <=3 markers on <=2 chromosomes, 2-3 taxa (all index tuples), traits<=2, nself in {0,1,2} (3 thorough) plus the closed-form inf branch against 2r/(1+2r); pairwise-in-r identities (multi-locus consistency of the Haldane map is C02's composition law); exact reals.",
   technique="symbolic execution on z3-term arrays (symnp) + z3 (QF_NRA, denominators cleared) against an exact polynomial gamete-enumeration oracle; replay on real numpy",
   design="2/C12"),
   "C04": dict(
   text="Bounded symbolic model checking of the real DenseAdditiveLinearGenomicModel / DenseAdditiveDominanceLinearGenomicModel (gebv, gegv, predict, gebv_numpy, var_G/var_A/var_a, bulmer, score_numpy, facount...dapoly) and rrBLUPModel0 (fit_numpy assembly, gauss_seidel): effects, intercepts, covariates and phenotypes symbolic, GenotypeMatrix calls enumerated by forking, raw dosage arrays symbolic reals; z3 proves values = intercept + dosage.effects (+ heterozygosity.dominance), predict = X.beta + Z.u, label preservation, invariance under taxon order / phased vs unphased vs raw input / marker partition, every statistic equal to its definition; for rrBLUP with stubbed optimiser: intercept = training mean, monomorphic markers excluded and given zero effect, the solved system is (Z'Z + (varE/varU) I, Z'(y-mean)) for arbitrary positive variance components, each Gauss-Seidel sweep does not increase the penalised criterion (never worse than all-zero) and a converged iterate satisfies the normal equations up to the residual identity.",
   note="Bounds: taxa<=2-3, markers<=2 (3), traits<=2, ploidy 2; exact reals (quantities built from concrete float frequencies compared with 1e-9 relative tolerance); ML optimum, eigendecomposition and Gauss-Seidel convergence within maxiter are outside.",
   technique="symbolic execution on z3-term arrays (symnp) + z3 (QF_NRA); optimiser/eigh stubbed by contract; replay on real numpy",
   design="2/C04"),
   "C03": dict(
   text="Bounded symbolic model checking of the real labelled-matrix classes (13 classes: taxa/variant/trait, phased, square-taxa, genotype, breeding-value, coancestry, square-taxa-square-trait) and the three genotyping protocols: every label and data cell is a distinct solver constant, the structural operations (select/delete/insert/adjoin/concat/append/remove/incorp/reorder/sort/group/ungroup, axis-specific and axis-generic) run on them from a fresh state and from the state produced by the real group_<axis>() (sorting/grouping fork on z3-decided comparisons of symbolic labels), and a row-tuple reference model decides by term identity that every resulting row/column carries the labels and data slice of the entity the reference puts there, that labels of the other axes are kept, operands of non-mutating operations are unchanged, mutating = non-mutating result, generic = specific form, and z3 proves that whenever a matrix reports itself grouped its names/start/stop/length are a contiguous partition with labels constant within and distinct across groups. Counterexamples are replayed on real numpy with distinct concrete codes. Two inheritance defects are reported as KNOWN-FINDING by call site.",
   note="Bounds: axis length <=3, one operation (two in thorough) per history, index arguments enumerated (ints, duplicate lists, slices), optional label arrays absent in thorough; strings represented by integer constants; cross-source blocks of square matrices not exercised.",
   technique="symbolic execution on z3-term arrays (symnp): term-identity attachment against a row-tuple reference model + z3 for ordering/grouping clauses; replay on real numpy",
   design="2/C03"),
   "C05": dict(
   text="Bounded symbolic model checking of the real selection-problem classes: for 13 criterion families (EBV, GEBV, weighted and generalised-weighted GEBV, EMBV, random, optimal haploid value, usefulness criterion, family EBV, optimal contribution, mean genomic relationship, mean expected heterozygosity, L2-norm) x the Subset/Integer/Binary/Real encodings the latent vector computed by latentfn on symbolic data and symbolic decision vectors is proved equal to the criterion's independently written definition (norm-valued criteria through their squares), the four encodings of the same contributions give identical vectors, the value is invariant under the order of the subset listing and positive rescaling, it follows a reassignment of the problem's data, evalfn/_evaluate equal the declared weights times the declared transformations (with distinct kwargs per transformation), and factory-built problems hold the population's values in taxon order (kinship factor: C'C = kinship by the Cholesky contract).",
   note="Bounds: candidates<=3 (4), subset<=2 (3), traits<=2; contribution sum >= 1e-3; sqrt/cholesky/eigvals by contract; L1-norm, allele-frequency-distance/unavailability, multi-objective-genomic, OPV and genotype-builder latent functions are not encoded; EMBV/UC/OHV tables are given data here.",
   technique="symbolic execution on z3-term arrays (symnp) + z3 (QF_NRA) identities; contract stubs for sqrt/cholesky/eigvals; replay on real numpy",
   design="2/C05"),
   "C07": dict(
   text="Bounded symbolic model checking of the real selection-configuration classes (Subset/Integer/Binary/Real/SubsetMate SelectionConfiguration.sample_xconfig with tiled_choice, stochastic_universal_sampling, outcross_shuffle, axis_shuffle, xmapix) and of EstimatedBreedingValueSubsetSelection.select: the generator is a contract stub whose permutations/choices/offsets are solver variables (rotation classes of the shuffles plus enumerated start arrangements), breeding values and contribution vectors are symbolic reals, chosen decision vectors are enumerated; on every feasible path z3 / term evaluation decides: table shape = (ncross, nparent), entries only from the chosen solution (or its candidate crosses via the mate map), multiplicities even (subset/integer/binary/mate) or strictly within one of the proportional share (real, stochastic universal sampling), no single exchange of two entries lowers the number of self-pairings (independent recount), decision vector unchanged; with the library's exact sorting optimiser the chosen k-subset dominates every rejected candidate by breeding value and permuting the candidates permutes the choice (up to ties proved equal); with a stub multi-objective optimiser returning an arbitrary symbolic front the configuration is built from the front member maximising ndset_wt * ndset_trans.",
   note="Bounds: ncross<=2 (3), nparent<=3 (one 1x5 case), candidates<=4, traits<=2; shuffles explored up to rotation classes plus 1 (30 thorough) enumerated start arrangements of a 2x3 table; pymoo NSGA-II itself, the OCS/UC/OHV/Random protocols' problem construction (their criteria are C05/C12/C18) and pandas-phenotype paths are outside.",
   technique="symbolic execution on z3-term arrays (symnp) with a symbolic generator stub + z3 per-path obligations; replay on real numpy",
   design="2/C07"),
   "C06": dict(
   text="Bounded symbolic model checking of the real exact optimisers and variation operators: SortingSubsetOptimizationAlgorithm, SteepestDescentSubsetHillClimber and SortingSteepestDescentSubsetHillClimber run on a real EBV subset problem with symbolic member scores (optionally a symbolic or scenario-fixed weight-cap constraint, or a non-separable family-penalty objective) and a contract-stubbed generator; every feasible path (sort orders incl. arbitrary tie-breaking of numpy's unstable sort, accepted exchanges) ends in z3-discharged assertions: requested size, distinct members from the candidate set, reported objective/violation = fresh evaluation, problem arrays untouched, brute-force optimum for the separable case, and no single exchange improving (violation, score) at termination. SubsetRandomSampling, ReducedExchangeCrossover, ReducedExchangeMutation and tiled_choice keep subsets feasible and leave the problem's candidate array untouched for arbitrary draws.",
   note="Bounds: candidates<=4 (5), subset<=2 (3), one objective. NOT decided: trajectories, feasibility, truthfulness and non-dominance of the pymoo GA/NSGA-II/NSGA-III runs (pymoo.optimize.minimize is concrete library code) and the integer SBX/PM wrappers; those clauses of C06 are outside this check.",
   technique="symbolic execution on z3-term arrays (symnp) with forking sort/comparison handlers + z3 per-path obligations; symbolic generator; replay on real numpy",
   design="2/C06"),
}
NA = {}
for pid in props:
    if pid not in CLAIMED:
        NA[pid] = "check not built yet in this commit (work in progress; see DESIGN.md section 2 for the plan)"

checks = []
for pid, c in sorted(CLAIMED.items()):
    checks.append(dict(
        property_id=pid,
        quick_cmd="./check %s --tier quick" % pid,
        thorough_cmd="./check %s --tier thorough" % pid,
        evidence_file="/verif/evidence/%s.json" % pid,
        replay_cmd_template="./check %s --replay {path}" % pid,
        engine="crosshair" if pid == "C20" else "symnp",
        level_claimed=dict(category="model_checking", text=c["text"], design_ref=c["design"]),
        level_note=c["note"],
        technique=c["technique"]))
man = dict(
    version=1,
    setup_cmd="./setup.sh",
    hooks=dict(guard="PYBROPS_VERIF", enable="no source hooks: the engine rebinds the module-global name numpy of the loaded pybrops modules at run time", 
               baseline_off_cmd="cd /repo && /venv/bin/python -m pytest -ra -q -p no:cacheprovider --timeout=900 --continue-on-collection-errors",
               source_commits=[], add_only=True),
    engines=[dict(name="symnp", path="/verif/vf", serves_properties=sorted(CLAIMED),
                  kind_free_text="bounded symbolic shadow execution of the real pybrops source: ndarray subclass with z3-term cells, DFS path exploration, z3 discharges per-path obligations; counterexamples replayed on real numpy"),
             dict(name="crosshair", path="/verif/vf/ch", serves_properties=["C20"], kind_free_text="crosshair-tool 0.0.110 on harness modules that drive the real classes")],
    checks=checks,
    notes="Solver-based checking of the real code (see DESIGN.md). Exit codes: 0 held, 1 replayed violation, 2 harness error/inconclusive.",
    not_applicable=[dict(property_id=k, reason=v) for k, v in sorted(NA.items())])
json.dump(man, open(os.path.join(HERE, "MANIFEST.json"), "w"), indent=1)
print("MANIFEST.json written: %d checks, %d not_applicable" % (len(checks), len(NA)))
