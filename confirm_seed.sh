#!/bin/bash
# usage: confirm_seed.sh <ID> <mk>  : confirm an agent-produced seeded change in its scratch worktree, then keep it under /verif/seeded/
ID="$1"; MK="$2"; WT=/tmp/wt/$ID; SRC=/tmp/wtout/$ID/$MK; DST=/verif/seeded/${ID}_$MK
[ -d "$WT" ] || git -C /repo worktree add -q --detach "$WT" HEAD
git -C "$WT" checkout -q -- . ; git -C "$WT" checkout -q --detach "$(git -C /repo rev-parse HEAD)" 2>/dev/null
/venv/bin/python "$SRC/demo.py" "$WT" >/tmp/wtout/$ID/$MK.clean.log 2>&1; c=$?
git -C "$WT" apply "$SRC/patch.diff" || { echo "$ID $MK: patch does not apply on current HEAD"; exit 1; }
/venv/bin/python "$SRC/demo.py" "$WT" >/tmp/wtout/$ID/$MK.patched.log 2>&1; p=$?
t=$(cd "$WT" && /venv/bin/python -m pytest -q -p no:cacheprovider --timeout=900 --continue-on-collection-errors 2>&1 | tail -1)
git -C "$WT" checkout -q -- .
echo "$ID $MK: demo clean rc=$c patched rc=$p tests: $t"
if [ "$c" = 0 ] && [ "$p" = 1 ] && echo "$t" | grep -q "92 passed"; then
  mkdir -p "$DST"; cp "$SRC/patch.diff" "$SRC/demo.py" "$DST/"
  python3 - "$SRC/meta.json" "$DST/meta.json" "$t" <<'PY'
import json,sys
m=json.load(open(sys.argv[1]))
m["confirmed"]={"demo_on_clean_tree":"exit 0","demo_with_patch":"exit 1","baseline_suite_with_patch":sys.argv[3].strip(),
  "how":"confirm_seed.sh: scratch git worktree of /repo HEAD under /tmp/wt, demo run before/after `git apply`, pinned pytest command, worktree reverted"}
json.dump(m,open(sys.argv[2],"w"),indent=1)
PY
  echo "kept -> $DST"
else echo "NOT kept"; fi
