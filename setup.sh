#!/bin/sh
# Build the overlay venv used by every check (offline; idempotent).
# /verif/.venv = venv of /venv/bin/python + .pth to /venv's site-packages + z3-solver, crosshair-tool, cvc5
set -e
HERE="$(cd "$(dirname "$0")" && pwd)"
V="$HERE/.venv"
if [ -x "$V/bin/python" ] && "$V/bin/python" -c "import z3, crosshair, numpy" >/dev/null 2>&1; then
    exit 0
fi
rm -rf "$V"
/venv/bin/python -m venv "$V"
SP="$V/lib/python3.12/site-packages"
echo "import site; site.addsitedir('/venv/lib/python3.12/site-packages')" > "$SP/base.pth"
PIP_NO_INDEX=1 "$V/bin/pip" install -q --no-index --find-links /opt/veriftools/wheels z3-solver crosshair-tool cvc5 >/dev/null 2>&1 || \
PIP_NO_INDEX=1 "$V/bin/pip" install -q --no-index --find-links /opt/veriftools/wheels z3-solver crosshair-tool
"$V/bin/python" -c "import z3, crosshair, numpy; print('venv ok', z3.get_version_string(), numpy.__version__)"
