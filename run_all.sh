#!/bin/bash
# development helper: run every registered check at the given tier, one after the other; prints one line per check
TIER="${1:-quick}"
cd /verif
for id in $(python3 -c "import json;print(' '.join(c['property_id'] for c in json.load(open('MANIFEST.json'))['checks']))"); do
  s=$(date +%s)
  out=$(./check $id --tier $TIER 2>&1); rc=$?
  e=$(date +%s)
  echo "$id rc=$rc $((e-s))s $(echo "$out" | grep -c '^VIOLATION') viol | $(echo "$out" | tail -1 | cut -c1-160)"
done
