import z3, itertools, time, sys
def build(m, mode):
    u = [z3.Real('u%d'%i) for i in range(m)]
    if mode=="real":
        gf = [z3.Real('gf%d'%i) for i in range(m)]; gm = [z3.Real('gm%d'%i) for i in range(m)]
        R = lambda x: x
    else:
        gf = [z3.Int('gf%d'%i) for i in range(m)]; gm = [z3.Int('gm%d'%i) for i in range(m)]
        R = z3.ToReal
    e = [z3.Real('e%d'%i) for i in range(m-1)]
    cons=[]
    if mode!="real":
        for x in gf+gm: cons += [x>=0, x<=1]
    for x in e: cons += [x>0, x<=1]
    def E(i,j):
        i,j=min(i,j),max(i,j)
        t = z3.RealVal(1)
        for k in range(i,j): t = t*e[k]
        return t
    r = lambda i,j: (1-E(i,j))/2
    d = [R(gf[i])-R(gm[i]) for i in range(m)]
    code = sum(d[i]*u[i]*(1-2*r(i,j))*d[j]*u[j] for i in range(m) for j in range(m))
    vals=[]; probs=[]
    for src in itertools.product([0,1], repeat=m):
        p = z3.RealVal(1)/2
        for k in range(1,m):
            rk = r(k-1,k)
            p = p * (rk if src[k]!=src[k-1] else 1-rk)
        v = sum(2*u[i]*R(gf[i] if src[i]==0 else gm[i]) for i in range(m))
        vals.append(v); probs.append(p)
    mean = sum(p*v for p,v in zip(probs,vals))
    var = sum(p*(v-mean)*(v-mean) for p,v in zip(probs,vals))
    return cons, code, var
for m in (2,3,4):
    cons, code, var = build(m, "real")
    S = z3.Solver(); S.add(*cons); S.add(code != var)
    t=time.time(); r=S.check(); print("real m=%d"%m, r, "%.2fs"%(time.time()-t)); sys.stdout.flush()
    # mutant: 1-4r instead of 1-2r
    t=time.time(); x=z3.simplify(code-var, som=True); print("  som simplify ->", str(x)[:60], "%.2fs"%(time.time()-t))
print("--- mutants")
for m in (2,3):
    cons, code, var = build(m, "real")
    S = z3.Solver(); S.add(*cons); S.add(code*1.0001 != var)
    t=time.time(); r=S.check(); print("mut scale m=%d"%m, r, "%.2fs"%(time.time()-t))
    u0=z3.Real('u0')
    S = z3.Solver(); S.add(*cons); S.add(code + u0*z3.Real('e0')*z3.Real('gf0') != var)
    t=time.time(); r=S.check(); print("mut add m=%d"%m, r, "%.2fs"%(time.time()-t), S.model() if r==z3.sat else "")
