import numpy, sys, warnings
numpy.float_ = numpy.float64
numpy.in1d = lambda a, b, **k: numpy.isin(a, b, **k).ravel()
sys.path.insert(0, "/repo"); warnings.simplefilter("ignore")
import pybrops, inspect
from pybrops.popgen.gmap.StandardGeneticMap import StandardGeneticMap
from pybrops.popgen.gmap.ExtendedGeneticMap import ExtendedGeneticMap
from pybrops.popgen.gmap.HaldaneMapFunction import HaldaneMapFunction
from pybrops.popgen.gmap.KosambiMapFunction import KosambiMapFunction
print(inspect.signature(StandardGeneticMap.__init__)); print(inspect.signature(ExtendedGeneticMap.__init__))
chr_ = numpy.array([2,1,1,2,1,2]); phy = numpy.array([30,10,50,10,30,70]); gen = numpy.array([0.3,0.0,0.9,0.05,0.4,1.1])
for cls in (StandardGeneticMap, ExtendedGeneticMap):
    try:
        if cls is StandardGeneticMap:
            g = cls(vrnt_chrgrp=chr_, vrnt_phypos=phy, vrnt_genpos=gen)
        else:
            g = cls(vrnt_chrgrp=chr_, vrnt_phypos=phy, vrnt_stop=phy, vrnt_genpos=gen)
            g.group(); g.build_spline()
        print(cls.__name__, "sorted:", g.vrnt_chrgrp, g.vrnt_phypos, g.vrnt_genpos, "grouped", g.is_grouped())
        q_chr = numpy.array([1,1,1,2,2,3]); q_phy = numpy.array([10,20,50,10,50,5])
        ip = g.interp_genpos(q_chr, q_phy); print(" interp", ip)
        d1 = g.gdist1g(numpy.array([1,1,1,2,2]), numpy.array([0.,.2,.9,.05,.3])); print(" gdist1g", d1)
        d2 = g.gdist2g(numpy.array([1,1,1,2,2]), numpy.array([0.,.2,.9,.05,.3])); print(" gdist2g sym", numpy.array_equal(d2,d2.T), d2[0])
    except Exception as e:
        import traceback; traceback.print_exc()
H=HaldaneMapFunction(); K=KosambiMapFunction()
d=numpy.array([0.,0.1,1.0,numpy.inf])
print("H", H.mapfn(d), H.invmapfn(H.mapfn(d)), "K", K.mapfn(d), K.invmapfn(K.mapfn(d)))
