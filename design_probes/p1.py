import numpy, z3, time, sys
numpy.float_ = numpy.float64

# ---------------- engine -----------------
class PathDone(BaseException): pass
class Ctx:
    def __init__(self):
        self.solver = z3.Solver()
        self.trace = []      # decisions prefix to replay
        self.pos = 0
        self.pc = []
        self.queries = 0
    def branch(self, e):
        e = z3.simplify(e)
        if z3.is_true(e): return True
        if z3.is_false(e): return False
        if self.pos < len(self.trace):
            d = self.trace[self.pos][0]
        else:
            # decide feasibility
            self.queries += 2
            t = self.solver.check(*self.pc, e) == z3.sat
            f = self.solver.check(*self.pc, z3.Not(e)) == z3.sat
            if t and f:
                self.trace.append([True, True])   # [decision, has_alt]
            elif t:
                self.trace.append([True, False])
            elif f:
                self.trace.append([False, False])
            else:
                raise PathDone()
            d = self.trace[self.pos][0]
        self.pos += 1
        self.pc.append(e if d else z3.Not(e))
        return d
    def next_path(self):
        while self.trace and not self.trace[-1][1]:
            self.trace.pop()
        if not self.trace: return False
        self.trace[-1] = [not self.trace[-1][0], False]
        self.pos = 0; self.pc = []
        return True
CTX = None

def lift(x):
    if isinstance(x, SV): return x.e
    if isinstance(x, (bool, numpy.bool_)): return z3.BoolVal(bool(x))
    if isinstance(x, (int, numpy.integer)): return z3.IntVal(int(x))
    if isinstance(x, (float, numpy.floating)):
        return z3.RealVal(repr(float(x)))
    raise TypeError(type(x))

class SV:
    __slots__ = ("e",)
    __array_priority__ = 1000
    def __init__(self, e): self.e = e
    def _bin(self, o, f):
        a, b = self.e, lift(o)
        if a.sort() != b.sort():
            if z3.is_int(a) and z3.is_real(b): a = z3.ToReal(a)
            elif z3.is_real(a) and z3.is_int(b): b = z3.ToReal(b)
        return SV(f(a, b))
    def __add__(s, o): return s._bin(o, lambda a,b: a+b)
    def __radd__(s, o): return s._bin(o, lambda a,b: b+a)
    def __sub__(s, o): return s._bin(o, lambda a,b: a-b)
    def __rsub__(s, o): return s._bin(o, lambda a,b: b-a)
    def __mul__(s, o): return s._bin(o, lambda a,b: a*b)
    def __rmul__(s, o): return s._bin(o, lambda a,b: b*a)
    def __lt__(s, o): return s._bin(o, lambda a,b: a<b)
    def __le__(s, o): return s._bin(o, lambda a,b: a<=b)
    def __gt__(s, o): return s._bin(o, lambda a,b: a>b)
    def __ge__(s, o): return s._bin(o, lambda a,b: a>=b)
    def __eq__(s, o): return s._bin(o, lambda a,b: a==b)
    def __ne__(s, o): return s._bin(o, lambda a,b: a!=b)
    __hash__ = None
    def __bool__(s):
        assert z3.is_bool(s.e)
        return CTX.branch(s.e)
    def __repr__(s): return "SV(%s)" % s.e

class SymArray(numpy.ndarray):
    def __new__(cls, data, vdtype):
        obj = numpy.asarray(data, dtype=object).view(cls)
        obj._vd = numpy.dtype(vdtype)
        return obj
    def __array_finalize__(self, obj):
        self._vd = getattr(obj, "_vd", numpy.dtype(object))
    @property
    def dtype(self): return self._vd
    def __array_ufunc__(self, ufunc, method, *inputs, out=None, **kw):
        raw = [numpy.asarray(x).view(numpy.ndarray) if isinstance(x, SymArray) else x for x in inputs]
        raw = [numpy.ndarray.view(x, numpy.ndarray) if isinstance(x, numpy.ndarray) else x for x in raw]
        kw = dict(kw)
        if method == "__call__":
            kw.setdefault("dtype", object)
        r = getattr(ufunc, method)(*raw, **kw)
        cmp = ufunc in (numpy.less, numpy.greater, numpy.less_equal, numpy.greater_equal, numpy.equal, numpy.not_equal)
        vd = numpy.dtype(bool) if cmp else numpy.result_type(*[x.dtype if isinstance(x,(SymArray,numpy.ndarray)) else type(x) for x in inputs])
        if isinstance(r, numpy.ndarray):
            return SymArray(r, vd)
        return r
    def __array_function__(self, func, types, args, kwargs):
        if func is numpy.flatnonzero:
            a = args[0]
            return numpy.array([i for i, v in enumerate(a.view(numpy.ndarray).ravel()) if bool(v)], dtype=int)
        if func is numpy.stack:
            raw = [x.view(numpy.ndarray) for x in args[0]]
            return SymArray(numpy.stack(raw, **kwargs), args[0][0].dtype)
        raise NotImplementedError(func)

class ProxyNP:
    def __getattr__(self, n): return getattr(numpy, n)
    def empty(self, shape, dtype=float):
        a = numpy.empty(shape, dtype=object); a.fill(0)
        return SymArray(a, dtype)

class SymRNG(numpy.random.RandomState):
    def __init__(self): self.n = 0; self.draws = []
    def uniform(self, lo, hi, shape):
        a = numpy.empty(shape, dtype=object)
        for ix in numpy.ndindex(*shape):
            v = z3.Real("u%d_%s" % (self.n, "_".join(map(str, ix))))
            self.draws.append(v)
            a[ix] = SV(v)
        self.n += 1
        return SymArray(a, float)

sys.path.insert(0, "/repo")
import pybrops.breed.prot.mate.util as U
U.numpy = ProxyNP()

def run(ntaxa, m, nsel):
    global CTX
    CTX = Ctx()
    A = numpy.empty((2, ntaxa, m), dtype=object)
    for ix in numpy.ndindex(*A.shape):
        A[ix] = SV(z3.Int("a_%d_%d_%d" % ix))
    geno = SymArray(A, "int8")
    xo = [z3.Real("x%d" % j) for j in range(m)]
    xoprob = SymArray([SV(x) for x in xo], float)
    sel = numpy.arange(nsel) % ntaxa
    npaths = 0; t0 = time.time()
    while True:
        rng = SymRNG()
        base = []
        try:
            CTX.pc = [z3.And(x >= 0, x <= 0.5) for x in xo]
            # assumptions for rng are added lazily below
            out = None
            # pre-create draws constraints: add after call since names are deterministic
            CTX.pc += [z3.And(z3.Real("u0_%d_%d" % (i, j)) >= 0, z3.Real("u0_%d_%d" % (i, j)) < 1) for i in range(nsel) for j in range(m)]
            out = U.mat_meiosis(geno, sel, xoprob, rng)
            npaths += 1
            # property: each gamete cell is term-identical to geno[c, s, j] and switches only where xoprob>0
            raw = out.view(numpy.ndarray)
            for i in range(nsel):
                prev = None
                for j in range(m):
                    t = raw[i, j].e
                    c = [k for k in (0, 1) if t.eq(A[k, sel[i], j].e)]
                    assert len(c) == 1, (t, i, j)
                    c = c[0]
                    if j == 0:
                        start_c = c
                    if prev is not None and c != prev or (j == 0 and c != 0):
                        # must have xoprob[j] > 0 entailed
                        CTX.queries += 1
                        assert CTX.solver.check(*CTX.pc, xo[j] <= 0) == z3.unsat
                    prev = c
        except PathDone:
            pass
        if not CTX.next_path(): break
    print("ntaxa", ntaxa, "m", m, "nsel", nsel, "paths", npaths, "queries", CTX.queries, "t=%.2f" % (time.time() - t0))

pass
pass
pass
