import numpy, sys, warnings
numpy.float_ = numpy.float64
numpy.in1d = lambda a, b, **k: numpy.isin(a, b, **k).ravel()
sys.path.insert(0, "/repo"); warnings.simplefilter("ignore")
import pybrops, pandas
from pybrops.popgen.gmat.DensePhasedGenotypeMatrix import DensePhasedGenotypeMatrix
from pybrops.model.gmod.DenseAdditiveLinearGenomicModel import DenseAdditiveLinearGenomicModel
from pybrops.breed.prot.pt.G_E_Phenotyping import G_E_Phenotyping
from pybrops.breed.prot.bv.MeanPhenotypicBreedingValue import MeanPhenotypicBreedingValue
rs=numpy.random.RandomState(2); n,m,t=4,5,2
mat = rs.randint(0,2,(2,n,m)).astype('int8')
pg = DensePhasedGenotypeMatrix(mat, taxa=numpy.array(["d","b","a","c"],dtype=object), taxa_grp=numpy.array([2,1,2,1]))
u=rs.normal(size=(m,t)); beta=rs.normal(size=(1,t))
gm = DenseAdditiveLinearGenomicModel(beta=beta, u_misc=None, u_a=u, trait=numpy.array(["y1","y2"],dtype=object))
try:
    pt = G_E_Phenotyping(gpmod=gm, nenv=2, nrep=numpy.array([1,2]), var_env=0.0, var_rep=0.0, var_err=0.0, rng=numpy.random.default_rng(1))
    df = pt.phenotype(pg)
    print(df)
    true = mat.sum(0) @ u + beta
    print("zero-noise equals truth:", numpy.allclose(df[["y1","y2"]].to_numpy().astype(float), numpy.tile(true,(3,1))))
    pt.set_h2(0.4, pg); print("var_err", pt.var_err, "var_A", gm.var_A(pg), "h2 check", gm.var_A(pg)/(gm.var_A(pg)+pt.var_err))
    est = MeanPhenotypicBreedingValue("taxa","taxa_grp",["y1","y2"])
    perm = rs.permutation(len(df))
    b1 = est.estimate(df, pg); b2 = est.estimate(df.iloc[perm].reset_index(drop=True), pg)
    print("estimate aligned:", b1.taxa, numpy.allclose(b1.unscale(), true), "perm-invariant:", numpy.allclose(b1.unscale(), b2.unscale()))
    b3 = est.estimate(df[df.taxa!="a"], pg); print("missing taxon ->", b3.unscale()[:, 0])
except Exception as e:
    import traceback; traceback.print_exc()
