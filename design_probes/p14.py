import numpy, sys, warnings
numpy.float_ = numpy.float64
numpy.in1d = lambda a, b, **k: numpy.isin(a, b, **k).ravel()
sys.path.insert(0, "/repo"); warnings.simplefilter("ignore")
import pybrops
from pybrops.popgen.gmat.DensePhasedGenotypeMatrix import DensePhasedGenotypeMatrix
from pybrops.popgen.bvmat.DenseBreedingValueMatrix import DenseBreedingValueMatrix
from pybrops.breed.prot.sel.EstimatedBreedingValueSelection import EstimatedBreedingValueSubsetSelection
from pybrops.opt.algo.SortingSubsetOptimizationAlgorithm import SortingSubsetOptimizationAlgorithm
from pybrops.opt.soln.SubsetSolution import SubsetSolution
rs=numpy.random.RandomState(1)
n=6
mat = rs.randint(0,2,(2,n,5)).astype('int8')
pg = DensePhasedGenotypeMatrix(mat, taxa=numpy.array(["t%d"%i for i in range(n)],dtype=object), taxa_grp=numpy.arange(n))
raw = rs.normal(size=(n,1))
bv = DenseBreedingValueMatrix.from_numpy(raw, taxa=pg.taxa, taxa_grp=pg.taxa_grp, trait=numpy.array(["y"],dtype=object))
try:
    sel = EstimatedBreedingValueSubsetSelection(ntrait=1, unscale=True, ncross=2, nparent=2, nmating=1, nprogeny=3, nobj=1, soalgo=SortingSubsetOptimizationAlgorithm(), rng=numpy.random.default_rng(1))
    misc={}
    cfg = sel.select(pg, pg, None, bv, None, 0, 10, miscout=misc)
    print("decn", cfg.xconfig_decn, "best true", numpy.argsort(-raw[:,0])[:4], "xconfig", cfg.xconfig.tolist() if cfg.xconfig is not None else None)
    print("nmating", cfg.nmating, "rng is global:", cfg.rng is pybrops.core.random.prng.global_prng)
    # multi-objective with stub moalgo
    from pybrops.opt.algo.SubsetOptimizationAlgorithm import SubsetOptimizationAlgorithm
    class StubMO(SubsetOptimizationAlgorithm):
        def minimize(self, prob, miscout=None, **kw):
            X = numpy.array([[0,1,2,3],[2,3,4,5],[1,2,3,4]])
            F = numpy.array([[1.0,2.0],[1.0,3.0],[1.0,0.5]])
            return SubsetSolution(ndecn=prob.ndecn, decn_space=prob.decn_space, decn_space_lower=prob.decn_space_lower, decn_space_upper=prob.decn_space_upper,
                 nobj=prob.nobj, obj_wt=prob.obj_wt, nineqcv=prob.nineqcv, ineqcv_wt=prob.ineqcv_wt, neqcv=prob.neqcv, eqcv_wt=prob.eqcv_wt, nsoln=3,
                 soln_decn=X, soln_obj=F, soln_ineqcv=numpy.zeros((3,0)), soln_eqcv=numpy.zeros((3,0)))
    bv2 = DenseBreedingValueMatrix.from_numpy(rs.normal(size=(n,2)), taxa=pg.taxa, taxa_grp=pg.taxa_grp, trait=numpy.array(["y","z"],dtype=object))
    sel2 = EstimatedBreedingValueSubsetSelection(ntrait=2, unscale=True, ncross=2, nparent=2, nmating=1, nprogeny=3, nobj=2, moalgo=StubMO())
    cfg2 = sel2.select(pg, pg, None, bv2, None, 0, 10)
    print("MO decn", cfg2.xconfig_decn, "(front has constant first objective -> default ndset_trans NaN?)")
except Exception as e:
    import traceback; traceback.print_exc()
outs=[]
for gseed in (1,2,3):
    numpy.random.seed(gseed)
    sel = EstimatedBreedingValueSubsetSelection(ntrait=1, unscale=True, ncross=2, nparent=2, nmating=1, nprogeny=3, nobj=1, soalgo=SortingSubsetOptimizationAlgorithm(), rng=numpy.random.default_rng(7))
    s0 = numpy.random.get_state()[1][:3].tolist()
    cfg = sel.select(pg, pg, None, bv, None, 0, 10)
    outs.append((cfg.xconfig.tolist(), s0 != numpy.random.get_state()[1][:3].tolist() or numpy.random.get_state()[2]))
print("D12 same explicit rng, different global seeds ->", outs)
