import numpy
numpy.float_ = numpy.float64
import sys
sys.path.insert(0, "/repo")
import copy
from typing import List
from pybrops.breed.arch.RecurrentSelectionBreedingProgram import RecurrentSelectionBreedingProgram as RSBP

class Box:
    def __init__(self, v): self.v = list(v)
    def __deepcopy__(self, memo): return Box(self.v)

def run(nrep: int, ngen: int, mutate: bool) -> List[str]:
    trace = []
    class Op:
        def initialize(self, **kw): trace.append("init"); return tuple({"v":[i]} for i in range(5))
        def _step(self, name, kw):
            trace.append("%s@%d" % (name, kw["t_cur"]))
            st = [kw[k] for k in ("genome","geno","pheno","bval","gmod")]
            if mutate:
                for s in st: s["v"].append(name)
            return st
        def pselect(self, **kw): return ("cfg", *self._step("psel", kw))
        def mate(self, **kw): return tuple(self._step("mate", kw))
        def evaluate(self, **kw): return tuple(self._step("eval", kw))
        def sselect(self, **kw): return tuple(self._step("ssel", kw))
    class LB:
        rep = 0
        def log_initialize(self, **kw): trace.append("Linit@%d" % kw["t_cur"])
        def log_pselect(self, **kw): trace.append("Lpsel")
        def log_mate(self, **kw): trace.append("Lmate")
        def log_evaluate(self, **kw): trace.append("Leval")
        def log_sselect(self, **kw): trace.append("Lssel")
    bp = RSBP.__new__(RSBP)
    op = Op()
    bp._initop = op; bp._pselop = op; bp._mateop = op; bp._evalop = op; bp._sselop = op
    bp._t_max = 10; bp._t_cur = 0
    for k in ("genome","geno","pheno","bval","gmod"):
        setattr(bp, "_start_"+k, None); setattr(bp, "_"+k, None)
    # bypass typed setters
    bp.evolve(nrep, ngen, LB())
    starts = [getattr(bp, "_start_"+k)["v"] for k in ("genome","geno","pheno","bval","gmod")]
    return trace + ["S%s" % len(s) for s in starts]

def expected(nrep, ngen):
    out = ["init"] if True else []
    for r in range(nrep):
        out += ["eval@0", "Linit@0"]
        for g in range(ngen):
            t = g + 1
            out += ["psel@%d" % t, "Lpsel", "mate@%d" % t, "Lmate", "eval@%d" % t, "Leval", "ssel@%d" % t, "Lssel"]
    return out + ["S1"] * 5

def check(nrep: int, ngen: int, mutate: bool) -> bool:
    """
    pre: 0 <= nrep <= 3
    pre: 0 <= ngen <= 3
    post: _ == True
    """
    return run(nrep, ngen, mutate) == expected(nrep, ngen)
