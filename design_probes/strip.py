#!/usr/bin/env python3
"""usage: strip.py file [name ...] : print source of defs without docstrings (ast.unparse)"""
import ast, sys
src = open(sys.argv[1]).read()
tree = ast.parse(src)
names = set(sys.argv[2:])
def strip(node):
    for n in ast.walk(node):
        if isinstance(n, (ast.FunctionDef, ast.ClassDef, ast.AsyncFunctionDef, ast.Module)):
            if n.body and isinstance(n.body[0], ast.Expr) and isinstance(getattr(n.body[0], 'value', None), ast.Constant) and isinstance(n.body[0].value.value, str):
                n.body = n.body[1:] or [ast.Pass()]
strip(tree)
def emit(node, prefix=""):
    for n in node.body:
        if isinstance(n, ast.ClassDef):
            if not names: print(f"class {n.name}:  # line {n.lineno}")
            emit(n, prefix + n.name + ".")
        elif isinstance(n, (ast.FunctionDef,)):
            if names and n.name not in names: continue
            print(f"# ---- {prefix}{n.name} line {n.lineno}")
            print(ast.unparse(n))
emit(tree)
