import numpy, sys, warnings, os, tempfile, copy
numpy.float_ = numpy.float64
numpy.in1d = lambda a, b, **k: numpy.isin(a, b, **k).ravel()
sys.path.insert(0, "/repo"); warnings.simplefilter("ignore")
import pybrops
from pybrops.popgen.gmat.DensePhasedGenotypeMatrix import DensePhasedGenotypeMatrix
from pybrops.popgen.bvmat.DenseBreedingValueMatrix import DenseBreedingValueMatrix
from pybrops.popgen.cmat.DenseMolecularCoancestryMatrix import DenseMolecularCoancestryMatrix
from pybrops.model.gmod.DenseAdditiveLinearGenomicModel import DenseAdditiveLinearGenomicModel
from pybrops.model.vmat.DenseTwoWayDHAdditiveGeneticVarianceMatrix import DenseTwoWayDHAdditiveGeneticVarianceMatrix as V2
from pybrops.popgen.gmap.HaldaneMapFunction import HaldaneMapFunction
def attrs(o):
    out={}
    for k in dir(o):
        if k.startswith("_") and not k.startswith("__"):
            v=getattr(o,k)
            if isinstance(v,(numpy.ndarray,int,float,str,type(None))): out[k]=v
    return out
def same(a,b):
    A,B=attrs(a),attrs(b); bad=[]
    for k in sorted(set(A)|set(B)):
        x,y=A.get(k,"<missing>"),B.get(k,"<missing>")
        try:
            if isinstance(x,numpy.ndarray) or isinstance(y,numpy.ndarray):
                ok = isinstance(x,numpy.ndarray) and isinstance(y,numpy.ndarray) and x.shape==y.shape and x.dtype==y.dtype and ((x==y)|((x!=x)&(y!=y))).all()
            else: ok = (x==y) and type(x)==type(y)
        except Exception as e: ok=False
        if not ok: bad.append((k, getattr(x,'dtype',type(x)), getattr(y,'dtype',type(y))))
    return bad
rs=numpy.random.RandomState(1)
mat = rs.randint(0,2,(2,4,5)).astype('int8')
pg = DensePhasedGenotypeMatrix(mat, taxa=numpy.array(["tä%d"%i for i in range(4)],dtype=object), taxa_grp=numpy.array([2,1,2,1]),
   vrnt_chrgrp=numpy.array([1,1,2,2,2]), vrnt_phypos=numpy.arange(5)+10, vrnt_name=numpy.array(["m%d"%i for i in range(5)],dtype=object),
   vrnt_genpos=numpy.linspace(0,1,5), vrnt_xoprob=numpy.array([.5,.1,.5,.2,.3]), vrnt_mask=numpy.array([True,False,True,True,False]))
pg.group_taxa(); pg.group_vrnt()
bv = DenseBreedingValueMatrix.from_numpy(rs.normal(size=(4,2)), taxa=pg.taxa, taxa_grp=pg.taxa_grp, trait=numpy.array(["y1","y2"],dtype=object)); bv.group_taxa()
cm = DenseMolecularCoancestryMatrix.from_gmat(pg)
gm = DenseAdditiveLinearGenomicModel(beta=rs.normal(size=(1,2)), u_misc=None, u_a=rs.normal(size=(5,2)), trait=numpy.array(["y1","y2"],dtype=object), model_name="m", hyperparams={"a":1.0})
vm = V2.from_algmod(gm, pg, 1, 1, 0, HaldaneMapFunction())
for name,obj in [("pgmat",pg),("bvmat",bv),("cmat",cm),("gmod",gm),("vmat",vm)]:
    fn=tempfile.mktemp(suffix=".h5")
    try:
        obj.to_hdf5(fn, "grp/sub")
        r = type(obj).from_hdf5(fn, "grp/sub")
        print(name, "roundtrip diffs:", same(obj,r))
    except Exception as e:
        print(name, "ERROR", type(e).__name__, str(e)[:150])
    finally:
        if os.path.exists(fn): os.remove(fn)
    try:
        c=copy.deepcopy(obj); print(name,"deepcopy diffs:", same(obj,c), "shares:", [k for k,v in attrs(obj).items() if isinstance(v,numpy.ndarray) and numpy.shares_memory(v, attrs(c).get(k, numpy.zeros(1)))])
        c2=copy.copy(obj); print(name,"copy diffs:", same(obj,c2))
    except Exception as e:
        print(name, "COPY ERROR", type(e).__name__, str(e)[:150])
