import numpy, sys, warnings, random
numpy.float_ = numpy.float64
numpy.in1d = lambda a, b, **k: numpy.isin(a, b, **k).ravel()
sys.path.insert(0, "/repo")
warnings.simplefilter("ignore")
import pybrops
from pybrops.opt.algo.SubsetGeneticAlgorithm import SubsetGeneticAlgorithm
from pybrops.opt.prob.SubsetProblem import SubsetProblem
class P(SubsetProblem):
    score = numpy.array([5., 1., 4., 3., 2., 7.])
    def evalfn(self, x, *a, **k):
        return (numpy.array([self.score[x].sum()]), numpy.zeros(0), numpy.zeros(0))
    def _evaluate(self, x, out, *a, **k):
        if x.ndim == 1: out["F"] = numpy.array([self.score[x].sum()])
        else: out["F"] = numpy.array([[self.score[v].sum()] for v in x])
p = P(ndecn=2, decn_space=numpy.arange(6), decn_space_lower=numpy.repeat(0,2), decn_space_upper=numpy.repeat(5,2), nobj=1)
import hashlib
def st(): return hashlib.md5(repr(numpy.random.get_state()).encode()).hexdigest()[:8], hashlib.md5(repr(random.getstate()).encode()).hexdigest()[:8]
try:
    g = numpy.random.default_rng(5)
    gs0 = repr(g.bit_generator.state)
    a = SubsetGeneticAlgorithm(ngen=3, pop_size=6, rng=g)
    s0 = st(); sol = a.minimize(p); s1 = st()
    print("global state before/after:", s0, s1, "explicit rng untouched:", gs0 == repr(g.bit_generator.state))
    print("solution", sol.soln_decn, sol.soln_obj)
    sols = []
    for rep in range(2):
        pybrops.core.random.prng.seed(123)
        sols.append(SubsetGeneticAlgorithm(ngen=3, pop_size=6).minimize(p).soln_decn.tolist())
    print("seeded reproducible:", sols)
except Exception as e:
    import traceback; traceback.print_exc()
