import numpy, sys
numpy.float_ = numpy.float64
# (a) unary ufunc on object arrays calls element methods
class E:
    def __init__(s,v): s.v=v
    def exp(s): return E(("exp",s.v))
    def sqrt(s): return E(("sqrt",s.v))
    def tanh(s): return E(("tanh",s.v))
    def arctanh(s): return E(("arctanh",s.v))
    def log(s): return E(("log",s.v))
    def __abs__(s): return E(("abs",s.v))
    def __neg__(s): return E(("neg",s.v))
    def __mul__(s,o): return E(("mul",s.v,o))
    __rmul__=__mul__
    def __repr__(s): return "E%r"%(s.v,)
a = numpy.array([E(1),E(2)],dtype=object)
print(numpy.exp(-2.0*a), numpy.sqrt(a), numpy.tanh(a), numpy.arctanh(a), numpy.log(a), numpy.abs(a))
# (d) pandas with object cells
import pandas
df = pandas.DataFrame(data=numpy.array([[E(1),E(2)],[E(3),E(4)]],dtype=object), columns=["T1","T2"])
lab = pandas.DataFrame({"taxa": numpy.array(["a","b"],dtype=object), "taxa_grp": None, "env": [1,1]})
out = pandas.concat([lab, df], axis=1); print(out); print(out["T1"].to_numpy())
# (e) h5py.File subclass without a file
import h5py
class Fake(h5py.File):
    def __init__(self): self.d = {}
    def __contains__(self, k): return k in self.d
    def __getitem__(self, k): return self.d[k]
    def __delitem__(self, k): del self.d[k]
    def create_dataset(self, name, data=None, **kw): self.d[name] = data
    @property
    def file(self): return self
    @property
    def mode(self): return "r+"
f = Fake(); print(isinstance(f, h5py.File), "x" in f); f.create_dataset("x", data=3); print(f["x"])
sys.path.insert(0,"/repo")
import pybrops
from pybrops.core.util.h5py import h5py_File_write_dict
h5py_File_write_dict(f, "g/", {"a": numpy.arange(3), "b": None}); print(f.d)
