import z3, time
F = z3.Float64(); RNE = z3.RNE()
def q(maxn, solver="z3"):
    n = z3.BitVec('n', 16); s = z3.BitVec('s', 16)
    d = 2*n
    fd = z3.fpSignedToFP(RNE, z3.SignExt(16, d), F)
    fs = z3.fpSignedToFP(RNE, z3.SignExt(16, s), F)
    r = z3.fpDiv(RNE, z3.FPVal(1.0, F), fd)
    p = z3.fpMul(RNE, r, fs)
    S = z3.Solver()
    S.add(z3.UGE(n, 1), z3.ULE(n, maxn), z3.ULE(s, d))
    # property: p == 1.0 <=> s == d ; p == 0 <=> s == 0
    S.add(z3.Or(z3.fpEQ(p, z3.FPVal(1.0, F)) != (s == d), z3.fpEQ(p, z3.FPVal(0.0, F)) != (s == 0), z3.fpGT(p, z3.FPVal(1.0,F))))
    t = time.time(); r_ = S.check(); 
    print(maxn, r_, "%.1fs" % (time.time()-t), S.model() if r_ == z3.sat else "")
q(48); q(64)
# fixed version: s / d
def q2(maxn):
    n = z3.BitVec('n', 16); s = z3.BitVec('s', 16)
    d = 2*n
    fd = z3.fpSignedToFP(RNE, z3.SignExt(16, d), F)
    fs = z3.fpSignedToFP(RNE, z3.SignExt(16, s), F)
    p = z3.fpDiv(RNE, fs, fd)
    S = z3.Solver()
    S.add(z3.UGE(n, 1), z3.ULE(n, maxn), z3.ULE(s, d))
    S.add(z3.Or(z3.fpEQ(p, z3.FPVal(1.0, F)) != (s == d), z3.fpEQ(p, z3.FPVal(0.0, F)) != (s == 0), z3.fpGT(p, z3.FPVal(1.0,F))))
    t = time.time(); r_ = S.check(); 
    print("fixed", maxn, r_, "%.1fs" % (time.time()-t), S.model() if r_ == z3.sat else "")
q2(64); q2(1000)
