import numpy, z3, time, sys, itertools
numpy.float_ = numpy.float64
sys.path.insert(0, "/repo")
import p1
from p1 import SV, SymArray, ProxyNP, Ctx, PathDone
import p8
from p8 import raw

def conc_mask(mask):
    """fork on every symbolic cell of a boolean mask -> concrete numpy bool array"""
    m = raw(mask)
    out = numpy.empty(m.shape, dtype=bool)
    for ix in numpy.ndindex(*m.shape):
        out[ix] = bool(m[ix])
    return out
_get = numpy.ndarray.__getitem__
def fixkey(key):
    if isinstance(key, SymArray):
        if key.dtype == numpy.dtype(bool): return conc_mask(key)
        return numpy.array([int(c) for c in raw(key).ravel()], dtype=int).reshape(key.shape)
    return key
def getitem(self, key):
    key = fixkey(key)
    r = _get(self.view(numpy.ndarray), key)
    return SymArray(r, self.dtype) if isinstance(r, numpy.ndarray) else r
SymArray.__getitem__ = getitem
_set = numpy.ndarray.__setitem__
def setitem(self, key, val):
    key = fixkey(key)
    _set(self.view(numpy.ndarray), key, raw(val) if isinstance(val, SymArray) else val)
SymArray.__setitem__ = setitem
old_af = SymArray.__array_function__
def Or(cells):
    es = [c.e if isinstance(c, SV) else z3.BoolVal(bool(c)) for c in cells]
    return SV(z3.Or(*es))
def af(self, func, types, args, kwargs):
    if func is numpy.any:
        a = raw(args[0]); axis = kwargs.get("axis", args[1] if len(args) > 1 else None)
        if axis is None: return Or(list(a.ravel()))
        a = numpy.moveaxis(a, axis, -1)
        out = numpy.empty(a.shape[:-1], dtype=object)
        for ix in numpy.ndindex(*out.shape): out[ix] = Or(list(a[ix]))
        return SymArray(out, bool)
    if func is numpy.sum:
        a = raw(args[0])
        tot = 0
        for c in a.ravel():
            tot = tot + (SV(z3.If(c.e, 1, 0)) if isinstance(c, SV) and z3.is_bool(c.e) else (int(c) if isinstance(c, (bool, numpy.bool_)) else c))
        return tot
    return old_af(self, func, types, args, kwargs)
SymArray.__array_function__ = af
SV.__index__ = lambda s: p1.CTX_concretize(s)
def concretize(s):
    # fork on value: try model values
    ctx = p1.CTX
    v = 0
    while True:
        if bool(SV(s.e == v)): return v
        v += 1
        if v > 10: raise PathDone()
p1.CTX_concretize = concretize
SV.__int__ = SV.__index__
def sv_add(s, o):
    if isinstance(o, int) and z3.is_int(s.e): return SV(s.e + o)
    return s._bin(o, lambda a, b: a + b)
class Proxy2(ProxyNP):
    def arange(self, *a, **k):
        return SymArray(numpy.arange(*a, **k).astype(object), "int64")
    def zeros(self, shape, dtype=float):
        a = numpy.empty(shape, dtype=object); a.fill(False if numpy.dtype(dtype) == bool else 0)
        return SymArray(a, dtype)
import pybrops.core.util.pareto as P
P.numpy = Proxy2()

def run(npt, nobj):
    p1.CTX = ctx = Ctx()
    F = [[z3.Real("f%d_%d" % (i, j)) for j in range(nobj)] for i in range(npt)]
    W = [z3.Real("w%d" % j) for j in range(nobj)]
    npaths = 0; t0 = time.time(); nq = 0
    while True:
        try:
            ctx.pc = [w != 0 for w in W]
            fmat = SymArray([[SV(x) for x in r] for r in F], float)
            wt = SymArray([SV(w) for w in W], float)
            mask = P.is_pareto_efficient(fmat, wt, return_mask=True)
            npaths += 1
            m = [bool(x) for x in raw(mask)]
            G = [[F[i][j] * W[j] for j in range(nobj)] for i in range(npt)]
            def dom(a, b):  # a dominates b
                return z3.And(*[G[a][j] >= G[b][j] for j in range(nobj)], z3.Or(*[G[a][j] > G[b][j] for j in range(nobj)]))
            def geq(a, b): return z3.And(*[G[a][j] >= G[b][j] for j in range(nobj)])
            props = []
            for i in range(npt):
                if m[i]: props.append(z3.Not(z3.Or(*[dom(k, i) for k in range(npt) if k != i])))
                else: props.append(z3.Or(*[geq(k, i) for k in range(npt) if m[k]]))
            nq += 1
            r = ctx.solver.check(*ctx.pc, z3.Not(z3.And(*props)))
            assert r == z3.unsat, (r, m, ctx.solver.model() if r == z3.sat else None)
        except PathDone:
            pass
        if not ctx.next_path(): break
    print("npt", npt, "nobj", nobj, "paths", npaths, "branch queries", ctx.queries, "t=%.2f" % (time.time() - t0))
run(2, 2); run(3, 2); run(4, 2); run(3, 3)
