import numpy, z3, time, sys
numpy.float_ = numpy.float64
sys.path.insert(0, "/repo")
from p1 import SV, SymArray, ProxyNP, SymRNG, Ctx, PathDone, lift
import p1

# extend SymArray.__array_function__ with structural default
STRUCT = {numpy.repeat, numpy.stack, numpy.concatenate, numpy.take, numpy.delete, numpy.insert, numpy.append,
          numpy.copy, numpy.reshape, numpy.transpose, numpy.ravel, numpy.tile, numpy.squeeze, numpy.expand_dims}
def raw(x):
    if isinstance(x, SymArray): return x.view(numpy.ndarray)
    if isinstance(x, (list, tuple)): return type(x)(raw(e) for e in x)
    return x
def af(self, func, types, args, kwargs):
    if func is numpy.flatnonzero:
        a = args[0]
        return numpy.array([i for i, v in enumerate(raw(a).ravel()) if bool(v)], dtype=int)
    if func in STRUCT:
        vd = None
        def find(x):
            nonlocal vd
            if isinstance(x, SymArray) and vd is None: vd = x.dtype
            elif isinstance(x, (list, tuple)):
                for e in x: find(e)
        for a in args: find(a)
        r = func(*raw(args), **{k: raw(v) for k, v in kwargs.items()})
        return SymArray(r, vd)
    if func is numpy.sum:
        r = numpy.sum(*raw(args), **kwargs)
        return SymArray(r, "int64") if isinstance(r, numpy.ndarray) else r
    raise NotImplementedError(func)
SymArray.__array_function__ = af
def _sum(self, axis=None, dtype=None, **kw):
    r = numpy.ndarray.sum(self.view(numpy.ndarray), axis=axis, **kw)
    return SymArray(r, dtype or "int64") if isinstance(r, numpy.ndarray) else r
SymArray.sum = _sum
def _copy(self, *a, **k):
    return SymArray(self.view(numpy.ndarray).copy(), self.dtype)
SymArray.copy = _copy

import pybrops
from pybrops.breed.prot.mate.TwoWayCross import TwoWayCross
from pybrops.popgen.gmat.DensePhasedGenotypeMatrix import DensePhasedGenotypeMatrix
proxy = ProxyNP()
for name, mod in list(sys.modules.items()):
    if name.startswith("pybrops.breed.prot.mate") and getattr(mod, "numpy", None) is numpy:
        mod.numpy = proxy

def run(ntaxa, m, nself):
    p1.CTX = ctx = Ctx()
    A = numpy.empty((2, ntaxa, m), dtype=object)
    for ix in numpy.ndindex(*A.shape): A[ix] = SV(z3.Int("a_%d_%d_%d" % ix))
    xo = [z3.Real("x%d" % j) for j in range(m)]
    npaths = 0; t0 = time.time()
    while True:
        try:
            ctx.pc = [z3.And(x >= 0, x <= 0.5) for x in xo]
            geno = SymArray(A.copy(), "int8")
            pg = DensePhasedGenotypeMatrix(mat=geno, taxa=numpy.array(["t%d" % i for i in range(ntaxa)], dtype=object),
                    taxa_grp=numpy.arange(ntaxa), vrnt_chrgrp=numpy.ones(m, dtype=int), vrnt_phypos=numpy.arange(m)+1,
                    vrnt_xoprob=SymArray([SV(x) for x in xo], float))
            pg.group_vrnt()
            rng = SymRNG()
            prot = TwoWayCross(rng=rng)
            xc = numpy.array([[0, 1]])
            out = prot.mate(pg, xc, 1, 1, nself=nself)
            for d in rng.draws: pass
            npaths += 1
            raw_ = out.mat.view(numpy.ndarray)
            assert out.mat.shape == (2, 1, m), out.mat.shape
            for h, par in ((0, 0), (1, 1)):
                for j in range(m):
                    t = raw_[h, 0, j].e
                    if nself == 0:
                        assert any(t.eq(A[k, par, j].e) for k in (0, 1)), t
        except PathDone:
            pass
        if not ctx.next_path(): break
    print("ntaxa", ntaxa, "m", m, "nself", nself, "paths", npaths, "queries", ctx.queries, "t=%.2f" % (time.time() - t0), out.taxa, out.taxa_grp)

pass
pass
pass
