import numpy, sys, warnings
numpy.float_ = numpy.float64
numpy.in1d = lambda a, b, **k: numpy.isin(a, b, **k).ravel()
sys.path.insert(0, "/repo"); warnings.simplefilter("ignore")
import pybrops
from pybrops.popgen.gmat.DensePhasedGenotypeMatrix import DensePhasedGenotypeMatrix
from pybrops.popgen.gmat.DenseGenotypeMatrix import DenseGenotypeMatrix
from pybrops.model.gmod.DenseAdditiveLinearGenomicModel import DenseAdditiveLinearGenomicModel
from pybrops.model.gmod.DenseAdditiveDominanceLinearGenomicModel import DenseAdditiveDominanceLinearGenomicModel
from pybrops.popgen.cmat.DenseMolecularCoancestryMatrix import DenseMolecularCoancestryMatrix
from pybrops.popgen.cmat.DenseVanRadenCoancestryMatrix import DenseVanRadenCoancestryMatrix
from pybrops.popgen.cmat.DenseYangCoancestryMatrix import DenseYangCoancestryMatrix
from pybrops.popgen.cmat.DenseGeneralizedWeightedCoancestryMatrix import DenseGeneralizedWeightedCoancestryMatrix
rs=numpy.random.RandomState(5); n,m,t=5,6,2
mat = rs.randint(0,2,(2,n,m)).astype('int8'); mat[:,:,0]=1; mat[:,:,1]=0
taxa=numpy.array(["t%d"%i for i in range(n)],dtype=object)
pg = DensePhasedGenotypeMatrix(mat, taxa=taxa, taxa_grp=numpy.arange(n))
ug = DenseGenotypeMatrix(mat.sum(0).astype('int8'), taxa=taxa, taxa_grp=numpy.arange(n), ploidy=2)
u=rs.normal(size=(m,t)); u[2,0]=0.0; beta=rs.normal(size=(1,t)); ud=rs.normal(size=(m,t))
A = mat.sum(0).astype(float)
def rep(name, a, b):
    a=numpy.asarray(a,dtype=float); b=numpy.asarray(b,dtype=float)
    ok = a.shape==b.shape and numpy.allclose(a,b,equal_nan=True)
    print(("ok   " if ok else "DIFF ")+name, "" if ok else (a, b))
gm = DenseAdditiveLinearGenomicModel(beta=beta, u_misc=None, u_a=u, trait=numpy.array(["y1","y2"],dtype=object))
for lab,g in (("phased",pg),("unphased",ug)):
    try:
        rep(lab+" gebv", gm.gebv(g).unscale(), A@u+beta)
        rep(lab+" gegv", gm.gegv(g).unscale(), A@u+beta)
        rep(lab+" var_A", gm.var_A(g), (A@u).var(0))
        p=A.sum(0)/(2*n)
        rep(lab+" var_a", gm.var_a(g), 4*((u**2)*(p*(1-p))[:,None]).sum(0))
        rep(lab+" bulmer", gm.bulmer(g), (A@u).var(0)/(4*((u**2)*(p*(1-p))[:,None]).sum(0)))
        cnt=A.sum(0)[:,None]; fav=numpy.where(u>0,cnt,2*n-cnt); fav=numpy.where(u==0,0,fav)
        rep(lab+" facount", gm.facount(g), fav)
        rep(lab+" fafreq", gm.fafreq(g), fav/(2*n))
        rep(lab+" fafixed", gm.fafixed(g), fav==2*n)
        rep(lab+" fapoly", gm.fapoly(g), (fav>0)&(fav<2*n))
        dac=numpy.where(u<0,cnt,2*n-cnt); dac=numpy.where(u==0,0,dac)
        rep(lab+" dacount", gm.dacount(g), dac)
        rep(lab+" usl", gm.usl(g), (2*u*numpy.where(u>0, p[:,None]>0, p[:,None]>=1)).sum(0))
        rep(lab+" lsl", gm.lsl(g), (2*u*numpy.where(u>0, p[:,None]>=1, p[:,None]>0)).sum(0))
        gb = gm.gebv(g).unscale() - beta
        print("   bracket:", bool((gm.lsl(g) <= gb.min(0)+1e-12).all() and (gb.max(0) <= gm.usl(g)+1e-12).all()))
    except Exception as e:
        print(lab, "ERROR", type(e).__name__, str(e)[:200])
try:
    gd = DenseAdditiveDominanceLinearGenomicModel(beta=beta, u_misc=None, u_a=u, u_d=ud, trait=numpy.array(["y1","y2"],dtype=object))
    D=(A==1).astype(float)
    for lab,g in (("phased",pg),("unphased",ug)):
        rep(lab+" AD gegv", gd.gegv(g).unscale(), A@u+D@ud+beta)
        rep(lab+" AD gebv", gd.gebv(g).unscale(), A@u+beta)
        rep(lab+" AD var_G", gd.var_G(g), (A@u+D@ud).var(0))
except Exception as e:
    import traceback; traceback.print_exc()
# coancestry
X=A; 
for lab,g in (("phased",pg),("unphased",ug)):
    try:
        M = DenseMolecularCoancestryMatrix.from_gmat(g).mat
        rep(lab+" molecular", M, 1+((X-1)@(X-1).T)/m)
        p=X.sum(0)/(2*n); Z=X-2*p
        rep(lab+" vanraden", DenseVanRadenCoancestryMatrix.from_gmat(g).mat, Z@Z.T/(2*(p*(1-p)).sum()))
        pa=numpy.full(m,0.3); Z=X-2*pa
        rep(lab+" vanraden p_anc", DenseVanRadenCoancestryMatrix.from_gmat(g,p_anc=pa).mat, Z@Z.T/(2*(pa*(1-pa)).sum()))
        Zy=(X-2*pa)/numpy.sqrt(2*pa*(1-pa)); rep(lab+" yang p_anc", DenseYangCoancestryMatrix.from_gmat(g,p_anc=pa).mat, Zy@Zy.T/m)
        w=rs.uniform(size=m); rep(lab+" gw", DenseGeneralizedWeightedCoancestryMatrix.from_gmat(g,mkrwt=w,afreq=pa).mat, ((X-2*pa)*w)@(X-2*pa).T)
        C=DenseMolecularCoancestryMatrix.from_gmat(g)
        rep(lab+" kinship", C.mat_asformat("kinship"), 0.5*C.mat); 
    except Exception as e:
        print(lab, "cmat ERROR", type(e).__name__, str(e)[:200])
