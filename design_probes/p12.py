import numpy, sys, warnings, itertools
numpy.float_ = numpy.float64
numpy.in1d = lambda a, b, **k: numpy.isin(a, b, **k).ravel()
sys.path.insert(0, "/repo"); warnings.simplefilter("ignore")
import pybrops
from pybrops.popgen.gmat.DensePhasedGenotypeMatrix import DensePhasedGenotypeMatrix
from pybrops.model.gmod.DenseAdditiveLinearGenomicModel import DenseAdditiveLinearGenomicModel
from pybrops.popgen.gmap.HaldaneMapFunction import HaldaneMapFunction
from pybrops.model.vmat.DenseTwoWayDHAdditiveGeneticVarianceMatrix import DenseTwoWayDHAdditiveGeneticVarianceMatrix as V2
from pybrops.model.vmat.DenseThreeWayDHAdditiveGeneticVarianceMatrix import DenseThreeWayDHAdditiveGeneticVarianceMatrix as V3
from pybrops.model.vmat.DenseFourWayDHAdditiveGeneticVarianceMatrix import DenseFourWayDHAdditiveGeneticVarianceMatrix as V4
rs = numpy.random.RandomState(3)
ntaxa, m = 4, 3
hap = rs.randint(0, 2, (ntaxa, m)).astype('int8')
mat = numpy.stack([hap, hap])   # inbred
genpos = numpy.array([0.0, 0.15, 0.55])
chr_ = numpy.array([1, 1, 1])
pg = DensePhasedGenotypeMatrix(mat, taxa=numpy.array(["t%d"%i for i in range(ntaxa)],dtype=object), taxa_grp=numpy.arange(ntaxa),
      vrnt_chrgrp=chr_, vrnt_phypos=numpy.arange(m)+1, vrnt_genpos=genpos)
pg.group_vrnt()
u = rs.normal(size=(m, 2))
gm = DenseAdditiveLinearGenomicModel(beta=numpy.zeros((1,2)), u_misc=None, u_a=u, trait=numpy.array(["a","b"],dtype=object))
H = HaldaneMapFunction()
radj = H.mapfn(numpy.diff(genpos))
def gametes(h0, h1):
    """yield (prob, haplotype) for all crossover patterns of diploid (h0,h1)"""
    for src in itertools.product([0,1], repeat=m):
        p = 0.5
        for k in range(1, m):
            p *= radj[k-1] if src[k] != src[k-1] else 1 - radj[k-1]
        yield p, numpy.array([h0[j] if src[j]==0 else h1[j] for j in range(m)])
def var_of(dist):
    P = numpy.array([p for p,_ in dist]); X = numpy.array([2*h @ u for _,h in dist])
    mu = (P[:,None]*X).sum(0); return (P[:,None]*(X-mu)**2).sum(0)
def selfdown(indivs, nself):
    # indivs: list of (prob, h0, h1)
    for _ in range(nself):
        new = []
        for p,h0,h1 in indivs:
            G = list(gametes(h0,h1))
            for pa,ga in G:
                for pb,gb in G: new.append((p*pa*pb, ga, gb))
        indivs = new
    return indivs
def dh(indivs):
    out=[]
    for p,h0,h1 in indivs:
        for pg_,g in gametes(h0,h1): out.append((p*pg_, g))
    return out
for nself in (0,1):
    v2 = V2.from_algmod(gm, pg, 1, 1, nself, H, mem=2).mat
    worst=0
    for f in range(ntaxa):
        for ml in range(ntaxa):
            ex = var_of(dh(selfdown([(1.0, hap[f], hap[ml])], nself)))
            worst=max(worst, abs(ex - v2[f,ml]).max())
    print("2way nself",nself,"max abs diff", worst)
    v3 = V3.from_algmod(gm, pg, 1, 1, nself, H, mem=2).mat
    worst=0; w=None
    for r_ in range(ntaxa):
        for f in range(ntaxa):
            for ml in range(ntaxa):
                f1 = [(pa, hap[r_], ga) for pa,ga in gametes(hap[f], hap[ml])]
                ex = var_of(dh(selfdown(f1, nself)))
                d = abs(ex - v3[r_,f,ml]).max()
                if d>worst: worst=d; w=(r_,f,ml,ex,v3[r_,f,ml])
    print("3way nself",nself,"max abs diff", worst, w)
nself=0
v4 = V4.from_algmod(gm, pg, 1, 1, nself, H, mem=2).mat
print("v4 shape", v4.shape)
worst=0; w=None
for a,b,c,d_ in itertools.product(range(ntaxa), repeat=4):
    # try (a x b) x (c x d)
    ab = list(gametes(hap[a],hap[b])); cd = list(gametes(hap[c],hap[d_]))
    dih = [(pa*pc, ga, gc) for pa,ga in ab for pc,gc in cd]
    ex = var_of(dh(dih))
    dd = abs(ex - v4[a,b,c,d_]).max()
    if dd>worst: worst=dd; w=(a,b,c,d_,ex,v4[a,b,c,d_])
print("4way nself 0 max abs diff", worst, w)
print("---- restricted")
for nself in (0,1,2):
    v3 = V3.from_algmod(gm, pg, 1, 1, nself, H, mem=None).mat
    worst={"fm_distinct":0,"all_distinct":0,"f==m":0}
    for r_ in range(ntaxa):
        for f in range(ntaxa):
            for ml in range(ntaxa):
                f1 = [(pa, hap[r_], ga) for pa,ga in gametes(hap[f], hap[ml])]
                ex = var_of(dh(selfdown(f1, nself)))
                d = abs(ex - v3[r_,f,ml]).max()
                k = "f==m" if f==ml else ("all_distinct" if len({r_,f,ml})==3 else "fm_distinct")
                worst[k]=max(worst[k],d)
    print("3way nself",nself,worst)
for nself in (0,1):
    v4 = V4.from_algmod(gm, pg, 1, 1, nself, H, mem=None).mat
    worst={}
    for a,b,c,d_ in itertools.product(range(ntaxa), repeat=4):
        ab = list(gametes(hap[a],hap[b])); cd = list(gametes(hap[c],hap[d_]))
        dih = [(pa*pc, ga, gc) for pa,ga in ab for pc,gc in cd]
        ex = var_of(dh(selfdown(dih, nself))) if nself==0 else None
        if ex is None: continue
        dd = abs(ex - v4[a,b,c,d_]).max()
        k = "distinct" if len({a,b,c,d_})==4 else ("a==b or c==d" if (a==b or c==d_) else "other_repeat")
        worst[k]=max(worst.get(k,0),dd)
    print("4way nself",nself,worst)
