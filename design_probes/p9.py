import numpy, sys, warnings, os, tempfile
numpy.float_ = numpy.float64
numpy.in1d = lambda a, b, **k: numpy.isin(a, b, **k).ravel()
sys.path.insert(0, "/repo")
warnings.simplefilter("ignore")
import pybrops
from pybrops.core.mat.DenseTaxaMatrix import DenseTaxaMatrix
# 1. reorder stale metadata
m = DenseTaxaMatrix(numpy.arange(8.).reshape(4,2), taxa=numpy.array(list("abcd"),dtype=object), taxa_grp=numpy.array([1,1,2,2]))
m.group_taxa(); m.reorder_taxa(numpy.array([0,2,1,3]))
print("1 reorder: grouped?", m.is_grouped_taxa(), "grp", m.taxa_grp, "stix", m.taxa_grp_stix, "spix", m.taxa_grp_spix)
# 2. tstd constant
from pybrops.popgen.bvmat.DenseBreedingValueMatrix import DenseBreedingValueMatrix
b = DenseBreedingValueMatrix.from_numpy(numpy.array([[1.,5.],[2.,5.],[3.,5.]]))
print("2 tstd", b.tstd(True), "tvar", b.tvar(True), "raw std", numpy.array([[1.,5.],[2.,5.],[3.,5.]]).std(0))
# 3. stale HDF5
from pybrops.popgen.gmat.DenseGenotypeMatrix import DenseGenotypeMatrix
fn = tempfile.mktemp(suffix=".h5")
g1 = DenseGenotypeMatrix(numpy.ones((2,3),dtype='int8'), taxa=numpy.array(["x","y"],dtype=object))
g2 = DenseGenotypeMatrix(numpy.zeros((2,3),dtype='int8'))
try:
    g1.to_hdf5(fn); g2.to_hdf5(fn); r = DenseGenotypeMatrix.from_hdf5(fn)
    print("3 hdf5 read back taxa:", r.taxa, " (written None)")
except Exception as e: print("3 hdf5 error", type(e).__name__, e)
finally:
    if os.path.exists(fn): os.remove(fn)
# 5. empty bin
from pybrops.core.util.haplo import nhaploblk_chrom, haplobin, haplobin_bounds
gp = numpy.array([0.,0.9,1.0]); st=numpy.array([0]); sp=numpy.array([3])
nb = nhaploblk_chrom(3, gp, st, sp); hb = haplobin(nb, gp, st, sp); print("5 haplobin", nb, hb, haplobin_bounds(hb))
# 6. NaN trans
from pybrops.breed.prot.sel.prob.trans import trans_ndpt_to_vec_dist as t1
from pybrops.breed.prot.sel.transfn import trans_ndpt_to_vec_dist as t2
from pybrops.core.util.trans import trans_ndpt_pseudo_dist as t3
F = numpy.array([[1.,2.],[1.,3.]]); w=numpy.array([1.,1.])
print("6 trans", t1(F,w,w), t2(F,w,w), t3(F,w,w))
# 4. hill climber duplicates
from pybrops.opt.algo.SteepestDescentSubsetHillClimber import SteepestDescentSubsetHillClimber
from pybrops.opt.prob.SubsetProblem import SubsetProblem
class P(SubsetProblem):
    score = numpy.array([5., 1., 4., 3.])
    def evalfn(self, x, *a, **k):
        return (numpy.array([self.score[x].sum()]), numpy.zeros(0), numpy.zeros(0))
    def _evaluate(self, x, out, *a, **k): pass
try:
    p = P(ndecn=2, decn_space=numpy.arange(4), decn_space_lower=numpy.repeat(0,2), decn_space_upper=numpy.repeat(3,2), nobj=1)
    bad = 0
    for s in range(200):
        hc = SteepestDescentSubsetHillClimber(rng=numpy.random.default_rng(s))
        sol = hc.minimize(p)
        if len(set(sol.soln_decn[0])) < 2: bad += 1; ex = sol.soln_decn[0]
    print("4 hillclimber duplicate solutions in 200 seeds:", bad, ex if bad else "")
except Exception as e:
    import traceback; traceback.print_exc()
