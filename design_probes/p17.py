import numpy, z3, time, sys, functools
numpy.float_ = numpy.float64
sys.path.insert(0, "/repo")
import p1
from p1 import SV, SymArray, ProxyNP, Ctx, PathDone, lift
import p8  # installs structural __array_function__
from p8 import raw

old_af = SymArray.__array_function__
def cells(a): return list(raw(a).ravel())
def lt(a, b):  # a < b on cells (SV or python)
    r = a < b
    return bool(r)
def eq(a, b):
    r = a == b
    return bool(r)
def af(self, func, types, args, kwargs):
    if func is numpy.lexsort:
        keys = [cells(k) for k in args[0]]          # last key is primary
        n = len(keys[0])
        def cmp(i, j):
            for k in reversed(keys):
                if lt(k[i], k[j]): return -1
                if lt(k[j], k[i]): return 1
            return -1 if i < j else (1 if i > j else 0)   # stable
        return numpy.array(sorted(range(n), key=functools.cmp_to_key(cmp)), dtype=int)
    if func is numpy.unique:
        a = cells(args[0])
        # sort first (fork), then run-length
        order = sorted(range(len(a)), key=functools.cmp_to_key(lambda i, j: -1 if lt(a[i], a[j]) else (1 if lt(a[j], a[i]) else (i > j) - (i < j))))
        vals, idx, cnt = [], [], []
        for i in order:
            if vals and eq(vals[-1], a[i]): cnt[-1] += 1
            else: vals.append(a[i]); idx.append(i); cnt.append(1)
        out = [SymArray(numpy.array(vals, dtype=object), args[0].dtype)]
        if kwargs.get("return_index"): out.append(numpy.array(idx, dtype=int))
        if kwargs.get("return_counts"): out.append(numpy.array(cnt, dtype=int))
        return tuple(out) if len(out) > 1 else out[0]
    return old_af(self, func, types, args, kwargs)
SymArray.__array_function__ = af

import pybrops
from pybrops.core.mat.DenseTaxaMatrix import DenseTaxaMatrix

def run(n):
    p1.CTX = ctx = Ctx()
    g = [z3.Int("g%d" % i) for i in range(n)]
    t = [z3.Int("t%d" % i) for i in range(n)]
    d = [[z3.Real("d%d_%d" % (i, j)) for j in range(2)] for i in range(n)]
    npaths = 0; t0 = time.time(); nq = 0
    while True:
        try:
            ctx.pc = []
            m = DenseTaxaMatrix(SymArray([[SV(x) for x in r] for r in d], float),
                                taxa=SymArray([SV(x) for x in t], object),
                                taxa_grp=SymArray([SV(x) for x in g], "int64"))
            m.group_taxa()
            npaths += 1
            assert m.is_grouped_taxa()
            stix, spix, ln = m.taxa_grp_stix, m.taxa_grp_spix, m.taxa_grp_len
            grp = cells(m.taxa_grp); names = cells(m.taxa_grp_name); tx = cells(m.taxa); mat = raw(m.mat)
            # partition
            assert list(stix) == [0] + list(spix[:-1]) and spix[-1] == n and list(ln) == [b - a for a, b in zip(stix, spix)]
            # rows stay attached: row r is original row i for which taxa term identical
            for r in range(n):
                i = [k for k in range(n) if tx[r].e.eq(t[k])][0]
                assert grp[r].e.eq(g[i]) and all(mat[r, j].e.eq(d[i][j]) for j in range(2))
            # group constant within and names strictly increasing: solver
            props = []
            for gi, (a, b) in enumerate(zip(stix, spix)):
                for r in range(a, b): props.append(grp[r].e == names[gi].e)
            for gi in range(len(names) - 1): props.append(names[gi].e < names[gi + 1].e)
            nq += 1
            assert ctx.solver.check(*ctx.pc, z3.Not(z3.And(*props))) == z3.unsat
        except PathDone:
            pass
        if not ctx.next_path(): break
    print("n", n, "paths", npaths, "branch queries", ctx.queries, "prop queries", nq, "t=%.2f" % (time.time() - t0))
run(2); run(3); run(4)
