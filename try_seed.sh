#!/bin/bash
# usage: try_seed.sh <patch.diff> <ID> [tier] [extra check args]  -- applies patch to /repo, runs check, reverts
P="$1"; ID="$2"; TIER="${3:-quick}"
shift; shift; [ $# -gt 0 ] && shift
if git -C /repo status --porcelain | grep -q .; then echo "repo dirty"; exit 9; fi
git -C /repo apply "$P" || { echo "patch does not apply"; exit 9; }
cd /verif && ./check "$ID" --tier "$TIER" --no-evidence "$@" 2>&1 | grep -v "^WARNING conda" | cut -c1-400 | tail -12
git -C /repo checkout -- .
echo "== done $P"
