#!/bin/bash
# usage: seed_matrix.sh [tier] [glob]   e.g. seed_matrix.sh quick 'C*_m3'
# applies every kept seeded change (matching the glob) to a scratch worktree of /repo HEAD, runs the check of its property
# against that tree (VERIF_REPO), reverts; prints one line per seed. /repo itself is not touched.
cd /verif
TIER="${1:-quick}"; GLOB="${2:-*}"
WT=$(mktemp -d /tmp/seedmx.XXXXXX); rmdir "$WT"
git -C /repo worktree add -q --detach "$WT" HEAD || exit 9
trap 'git -C /repo worktree remove --force "$WT" 2>/dev/null' EXIT
for d in seeded/$GLOB/; do
  s=$(basename $d); id=${s%%_*}
  if ! git -C "$WT" apply --check /verif/$d/patch.diff 2>/dev/null; then echo "$s does-not-apply"; continue; fi
  git -C "$WT" apply /verif/$d/patch.diff 2>/dev/null
  out=$(VERIF_REPO="$WT" ./check $id --tier $TIER --no-evidence 2>&1); rc=$?
  git -C "$WT" checkout -q -- .
  nv=$(echo "$out" | grep -c '^VIOLATION')
  lab=$(echo "$out" | grep '^\[C[0-9]*\].*: violation' | sed 's/.*: violation //' | sort | uniq -c | sort -rn | head -2 | tr '\n' ';' | cut -c1-200)
  echo "$s rc=$rc violations=$nv | $lab"
done
