"""
Denominator clearing for non-linear real goals.

z3 handles x/y with symbolic y by purification (k*y = x), which makes rational-function
identities very slow.  Every division executed by the code under analysis has been
forked on ``denominator == 0`` (so the path condition contains ``den != 0``) and divisions
written in oracles are guarded by an ite; under those side conditions
    a/b op c/d   <=>   (a*d - c*b) * (b*d)  op  0          (op in <, <=, >, >=)
    a/b == c/d   <=>   a*d - c*b == 0
which is pure polynomial arithmetic.  ``clear(f)`` rewrites a formula that way.
"""
import z3

_ARITH_CMP = {z3.Z3_OP_LE: "<=", z3.Z3_OP_GE: ">=", z3.Z3_OP_LT: "<", z3.Z3_OP_GT: ">"}


class Clearer:
    def __init__(self):
        self.fcache = {}     # id -> (keepalive, num, den or None)
        self.bcache = {}
        self.sqrt_map = {}   # id of a sqrt-contract variable y -> (y, radicand e) with the assumption y*y == e

    def _sq(self, a, b):
        """a*b, using y*y = radicand for sqrt-contract variables (keeps sqrt out of products of scaled terms)"""
        if a.get_id() == b.get_id():
            hit = self.sqrt_map.get(a.get_id())
            if hit is not None:
                n, d = self.frac(hit[1])
                if d is None:
                    return n
        return a * b

    # ---- arithmetic terms -> (num, den|None)
    def frac(self, e):
        k = e.get_id()
        hit = self.fcache.get(k)
        if hit is not None:
            return hit[1], hit[2]
        n, d = self._frac(e)
        self.fcache[k] = (e, n, d)
        return n, d

    def _frac(self, e):
        if not z3.is_app(e) or z3.is_int(e):
            return e, None
        kind = e.decl().kind()
        ch = e.children()
        if kind == z3.Z3_OP_ADD or kind == z3.Z3_OP_SUB:
            fr = [self.frac(c) for c in ch]
            if all(d is None for _, d in fr):
                if all(n.get_id() == c.get_id() for (n, _), c in zip(fr, ch)):
                    return e, None
                num = fr[0][0]
                for (n2, _) in fr[1:]:
                    num = num + n2 if kind == z3.Z3_OP_ADD else num - n2
                return num, None
            num, den = fr[0]
            for (n2, d2) in fr[1:]:
                sgn = 1 if kind == z3.Z3_OP_ADD else -1
                if d2 is None and den is None:
                    num = num + n2 if sgn > 0 else num - n2
                elif d2 is None:
                    num = num + n2 * den if sgn > 0 else num - n2 * den
                elif den is None:
                    num = num * d2 + n2 if sgn > 0 else num * d2 - n2
                    den = d2
                elif d2.get_id() == den.get_id():
                    num = num + n2 if sgn > 0 else num - n2
                else:
                    num = num * d2 + n2 * den if sgn > 0 else num * d2 - n2 * den
                    den = den * d2
            return num, den
        if kind == z3.Z3_OP_UMINUS:
            n, d = self.frac(ch[0])
            if d is None and n.get_id() == ch[0].get_id():
                return e, None
            return -n, d
        if kind == z3.Z3_OP_MUL:
            fr = [self.frac(c) for c in ch]
            if all(d is None for _, d in fr) and all(n.get_id() == c.get_id() for (n, _), c in zip(fr, ch)):
                return e, None
            num, den = fr[0]
            for (n2, d2) in fr[1:]:
                num = self._sq(num, n2)
                if d2 is not None:
                    den = d2 if den is None else self._sq(den, d2)
            return num, den
        if kind == z3.Z3_OP_DIV:
            n1, d1 = self.frac(ch[0])
            n2, d2 = self.frac(ch[1])
            if z3.is_rational_value(n2) and d2 is None:
                if d1 is None and n1.get_id() == ch[0].get_id():
                    return e, None
                return n1 / n2, d1
            # (n1/d1) / (n2/d2) = n1*d2 / (d1*n2)
            num = n1 if d2 is None else n1 * d2
            den = n2 if d1 is None else d1 * n2
            return num, den
        if kind == z3.Z3_OP_ITE:
            c = self.clear(ch[0])
            n1, d1 = self.frac(ch[1])
            n2, d2 = self.frac(ch[2])
            if d1 is None and d2 is None:
                if c.get_id() == ch[0].get_id() and n1.get_id() == ch[1].get_id() and n2.get_id() == ch[2].get_id():
                    return e, None
                return z3.If(c, n1, n2), None
            one = z3.RealVal(1)
            return z3.If(c, n1, n2), z3.If(c, d1 if d1 is not None else one, d2 if d2 is not None else one)
        if kind == z3.Z3_OP_POWER:
            if z3.is_rational_value(ch[1]) and ch[1].denominator_as_long() == 1:
                p = ch[1].numerator_as_long()
                if 0 <= p <= 8:
                    n, d = self.frac(ch[0])
                    if d is None and n.get_id() == ch[0].get_id():
                        return e, None
                    num, den = z3.RealVal(1), (z3.RealVal(1) if d is not None else None)
                    for _ in range(p):
                        num = num * n
                        if d is not None:
                            den = den * d
                    return num, den
            return e, None
        # uninterpreted function application, to_real, constants ...: opaque
        return e, None

    # ---- formulas
    def clear(self, f):
        k = f.get_id()
        hit = self.bcache.get(k)
        if hit is not None:
            return hit[1]
        r = self._clear(f)
        self.bcache[k] = (f, r)
        return r

    def _clear(self, f):
        if not z3.is_app(f):
            return f
        kind = f.decl().kind()
        ch = f.children()
        if kind in (z3.Z3_OP_AND, z3.Z3_OP_OR, z3.Z3_OP_NOT, z3.Z3_OP_IMPLIES, z3.Z3_OP_XOR):
            cs = [self.clear(c) for c in ch]
            if all(a.get_id() == b.get_id() for a, b in zip(cs, ch)):
                return f
            if kind == z3.Z3_OP_AND:
                return z3.And(*cs)
            if kind == z3.Z3_OP_OR:
                return z3.Or(*cs)
            if kind == z3.Z3_OP_NOT:
                return z3.Not(cs[0])
            if kind == z3.Z3_OP_IMPLIES:
                return z3.Implies(cs[0], cs[1])
            return z3.Xor(cs[0], cs[1])
        if kind == z3.Z3_OP_ITE and z3.is_bool(f):
            cs = [self.clear(c) for c in ch]
            return z3.If(cs[0], cs[1], cs[2])
        if kind in (z3.Z3_OP_EQ, z3.Z3_OP_DISTINCT):
            if z3.is_bool(ch[0]):
                cs = [self.clear(c) for c in ch]
                return (cs[0] == cs[1]) if kind == z3.Z3_OP_EQ else z3.Distinct(*cs)
            if not z3.is_real(ch[0]) or len(ch) != 2:
                return f
            n1, d1 = self.frac(ch[0])
            n2, d2 = self.frac(ch[1])
            if d1 is None and d2 is None:
                if n1.get_id() == ch[0].get_id() and n2.get_id() == ch[1].get_id():
                    return f
                lhs, rhs = n1, n2
            else:
                lhs = n1 if d2 is None else n1 * d2
                rhs = n2 if d1 is None else n2 * d1
            return (lhs == rhs) if kind == z3.Z3_OP_EQ else (lhs != rhs)
        if kind in _ARITH_CMP:
            if not z3.is_real(ch[0]):
                return f
            n1, d1 = self.frac(ch[0])
            n2, d2 = self.frac(ch[1])
            if d1 is None and d2 is None:
                if n1.get_id() == ch[0].get_id() and n2.get_id() == ch[1].get_id():
                    return f
                a, b = n1, n2
            else:
                lhs = n1 if d2 is None else n1 * d2
                rhs = n2 if d1 is None else n2 * d1
                dd = d1 if d2 is None else (d2 if d1 is None else d1 * d2)
                a, b = (lhs - rhs) * dd, z3.RealVal(0)
            op = _ARITH_CMP[kind]
            if op == "<=":
                return a <= b
            if op == ">=":
                return a >= b
            if op == "<":
                return a < b
            return a > b
        return f
