"""numpy-compat shim + loading of the real pybrops modules from /repo"""
import importlib
import os
import sys
import warnings

import numpy

REPO = os.environ.get("VERIF_REPO", "/repo")


def shim():
    # names the pinned source uses and numpy 2.x removed (see DESIGN 1.1)
    if not hasattr(numpy, "float_"):
        numpy.float_ = numpy.float64
    if not hasattr(numpy, "in1d"):
        numpy.in1d = lambda a, b, **k: numpy.isin(a, b, **k).ravel()
    warnings.filterwarnings("ignore")


def load(*modnames):
    """import the named pybrops modules from the current working tree of /repo"""
    shim()
    if REPO not in sys.path:
        sys.path.insert(0, REPO)
    mods = [importlib.import_module(m) for m in modnames]
    for m in mods:
        f = getattr(m, "__file__", "") or ""
        if not os.path.abspath(f).startswith(os.path.abspath(REPO) + os.sep):
            raise RuntimeError("module %s was not loaded from %s but from %s" % (m.__name__, REPO, f))
    return mods if len(mods) != 1 else mods[0]


# modules whose module-global name `pandas` is bound to the contract model vf.pdstub while running symbolically
PANDAS_STUBBED = ["pybrops.breed.prot.pt.G_E_Phenotyping", "pybrops.breed.prot.pt.TruePhenotyping", "pybrops.breed.prot.bv.MeanPhenotypicBreedingValue",
                  "pybrops.breed.prot.bv.TrueBreedingValue", "pybrops.core.error.error_type_pandas", "pybrops.core.error.error_value_pandas",
                  "pybrops.popgen.bvmat.DenseBreedingValueMatrix", "pybrops.core.mat.DenseSquareTaxaTraitMatrix", "pybrops.popgen.gmap.StandardGeneticMap",
                  "pybrops.popgen.gmap.ExtendedGeneticMap", "pybrops.model.vmat.DenseTwoWayDHAdditiveGeneticVarianceMatrix",
                  "pybrops.model.vmat.DenseTwoWayDHAdditiveGenicVarianceMatrix", "pybrops.model.vmat.DenseThreeWayDHAdditiveGeneticVarianceMatrix"]


def symbolic_mode(on=True):
    """(re)install the numpy proxy in every loaded pybrops module and switch it on/off"""
    from . import symnp, stubs
    symnp.install_proxy("pybrops")
    symnp.PROXY.enabled = on
    # library functions replaced by contract models while running symbolically
    import scipy.interpolate
    from . import pdstub
    pdstub.install(on, *PANDAS_STUBBED)
    from . import h5stub
    h5stub.install(on)
    for name in ("pybrops.popgen.gmap.StandardGeneticMap", "pybrops.popgen.gmap.ExtendedGeneticMap"):
        mod = sys.modules.get(name)
        if mod is not None and hasattr(mod, "interp1d"):
            mod.interp1d = stubs.SymInterp1d if on else scipy.interpolate.interp1d
