"""
SymArray: ndarray subclass with object storage and a virtual dtype, so that the
unmodified pybrops code runs on cells that are python scalars or SVs.
"""
import functools
import math
import operator

import numpy
import z3

from . import sym
from .sym import SV, EngineUnsupported, is_sym

_nd = numpy.ndarray
_BOOL = numpy.dtype(bool)
_F64 = numpy.dtype("float64")
_I64 = numpy.dtype("int64")
_OBJ = numpy.dtype(object)


def raw(x):
    """plain object-ndarray view of a SymArray (recursively through lists/tuples)"""
    if isinstance(x, SymArray):
        return _nd.view(x, _nd)
    if isinstance(x, (list, tuple)):
        return type(x)(raw(e) for e in x)
    return x


def vdtype(x):
    if isinstance(x, SymArray):
        return x._vd
    if isinstance(x, _nd):
        return x.dtype
    return None


def cells_symbolic(a):
    """True if any cell of the object array is an SV"""
    for c in a.flat:
        if isinstance(c, SV):
            return True
    return False


def has_sym(x):
    if isinstance(x, SymArray):
        return cells_symbolic(raw(x))
    if isinstance(x, SV):
        return True
    if isinstance(x, (list, tuple)):
        return any(has_sym(e) for e in x)
    if isinstance(x, _nd) and x.dtype == object:
        return cells_symbolic(x)
    return False


def box(a, vd=None):
    """real ndarray / scalar -> SymArray with python cells"""
    a = numpy.asarray(a)
    if vd is None:
        vd = a.dtype
    if a.dtype != object:
        a = a.astype(object)
    return SymArray(a, vd)


def unbox(x):
    """fully concrete SymArray -> real ndarray of its virtual dtype"""
    if isinstance(x, SymArray):
        r = raw(x)
        vd = x._vd
        if vd == _OBJ:
            return numpy.array(r, dtype=object, copy=True)
        if vd.kind in "US":
            return r.astype(str) if vd.kind == "U" else r.astype(vd)
        try:
            return r.astype(vd)
        except (TypeError, ValueError) as ex:
            raise EngineUnsupported("unbox to %s failed: %s" % (vd, ex))
    if isinstance(x, (list, tuple)):
        return type(x)(unbox(e) for e in x)
    return x


def any_symarray(x):
    if isinstance(x, SymArray):
        return True
    if isinstance(x, (list, tuple)):
        return any(any_symarray(e) for e in x)
    if isinstance(x, dict):
        return any(any_symarray(e) for e in x.values())
    return False


def _first_vd(args):
    for a in args:
        if isinstance(a, SymArray):
            return a._vd
        if isinstance(a, (list, tuple)):
            v = _first_vd(a)
            if v is not None:
                return v
    return None


def _result_vd(args):
    """numpy.result_type over virtual dtypes of array args in (possibly nested) args"""
    dts = []

    def rec(a):
        if isinstance(a, SymArray):
            dts.append(a._vd)
        elif isinstance(a, _nd):
            dts.append(a.dtype)
        elif isinstance(a, (list, tuple)):
            for e in a:
                rec(e)
    rec(args)
    if not dts:
        return _OBJ
    if any(d == _OBJ for d in dts):
        return _OBJ
    try:
        return numpy.result_type(*dts)
    except TypeError:
        return _OBJ


def mkobj(cells, shape=None):
    """list of cells -> 1-d object ndarray (never lets numpy inspect cells)"""
    cells = list(cells)
    a = numpy.empty(len(cells), dtype=object)
    for i, c in enumerate(cells):
        a[i] = c
    if shape is not None:
        a = a.reshape(shape)
    return a


def _pyify(c):
    """numpy scalar -> python scalar"""
    if isinstance(c, numpy.generic):
        return c.item()
    return c


# --------------------------------------------------------------------------
# ufunc tables
# --------------------------------------------------------------------------
def _div(a, b):
    return sym.sv_div(a, b)


def _py_or_sv(f):
    return f


_BIN = {
    numpy.add: operator.add,
    numpy.subtract: operator.sub,
    numpy.multiply: operator.mul,
    numpy.true_divide: sym.sv_div,
    numpy.floor_divide: sym.sv_floordiv,
    numpy.remainder: sym.sv_mod,
    numpy.power: sym.sv_pow,
    numpy.maximum: sym.sv_max,
    numpy.minimum: sym.sv_min,
    numpy.fmax: sym.sv_max,
    numpy.fmin: sym.sv_min,
    numpy.less: operator.lt,
    numpy.less_equal: operator.le,
    numpy.greater: operator.gt,
    numpy.greater_equal: operator.ge,
    numpy.equal: operator.eq,
    numpy.not_equal: operator.ne,
    numpy.logical_and: sym.sv_land,
    numpy.logical_or: sym.sv_lor,
    numpy.logical_xor: lambda a, b: sym.sv_xor(sym.sv_truth(a), sym.sv_truth(b)),
    numpy.bitwise_and: sym.sv_and,
    numpy.bitwise_or: sym.sv_or,
    numpy.bitwise_xor: sym.sv_xor,
}
_CMP = {numpy.less, numpy.less_equal, numpy.greater, numpy.greater_equal, numpy.equal,
        numpy.not_equal, numpy.logical_and, numpy.logical_or, numpy.logical_xor,
        numpy.logical_not, numpy.isnan, numpy.isinf, numpy.isfinite}


def _c_isnan(x):
    return isinstance(x, float) and math.isnan(x)


def _c_isinf(x):
    return isinstance(x, float) and math.isinf(x)


def _c_isfinite(x):
    return not (isinstance(x, float) and not math.isfinite(x))


def _c_square(x):
    return x * x


def _c_invert(x):
    if isinstance(x, SV):
        return ~x
    if isinstance(x, bool):
        return not x
    return ~x


def _c_reciprocal(x):
    return sym.sv_div(1.0, x)


def _c_rint(x):
    if isinstance(x, SV):
        if x.is_int:
            return x
        raise EngineUnsupported("rint on symbolic real")
    return float(round(x))


_UN = {
    numpy.negative: operator.neg,
    numpy.positive: operator.pos,
    numpy.absolute: abs,
    numpy.fabs: abs,
    numpy.sqrt: sym.sv_sqrt,
    numpy.exp: sym.sv_exp,
    numpy.log: sym.sv_log,
    numpy.tanh: sym.sv_tanh,
    numpy.arctanh: sym.sv_arctanh,
    numpy.expm1: lambda x: sym.sv_exp(x) - 1,          # exact over the reals (the float-accuracy reason for expm1 is outside every claim)
    numpy.log1p: lambda x: sym.sv_log(x + 1),
    numpy.square: _c_square,
    numpy.logical_not: sym.sv_lnot,
    numpy.invert: _c_invert,
    numpy.isnan: _c_isnan,
    numpy.isinf: _c_isinf,
    numpy.isfinite: _c_isfinite,
    numpy.floor: sym.sv_floor,
    numpy.ceil: sym.sv_ceil,
    numpy.sign: sym.sv_sign,
    numpy.reciprocal: _c_reciprocal,
    numpy.rint: _c_rint,
    numpy.conjugate: lambda x: x,
}
_FLOAT_RESULT = {numpy.true_divide, numpy.sqrt, numpy.exp, numpy.log, numpy.tanh, numpy.arctanh,
                 numpy.reciprocal, numpy.expm1, numpy.log1p}

_FP = {}


def _fp(f, nin):
    k = (f, nin)
    u = _FP.get(k)
    if u is None:
        u = numpy.frompyfunc(f, nin, 1)
        _FP[k] = u
    return u


def _ufunc_vd(ufunc, inputs):
    """virtual dtype of ufunc(*inputs) using numpy's own promotion on empty arrays"""
    if ufunc in _CMP:
        return _BOOL
    probe = []
    for x in inputs:
        if isinstance(x, SymArray):
            if x._vd == _OBJ:
                return _OBJ
            probe.append(numpy.empty(0, dtype=x._vd))
        elif isinstance(x, _nd):
            if x.dtype == object:
                return _OBJ
            probe.append(numpy.empty(0, dtype=x.dtype))
        elif isinstance(x, SV):
            probe.append(True if x.is_bool else (0 if x.is_int else 0.0))
        elif isinstance(x, numpy.generic):
            probe.append(numpy.empty(0, dtype=x.dtype))
        else:
            probe.append(x)
    try:
        with numpy.errstate(all="ignore"):
            return ufunc(*probe).dtype
    except Exception:
        return _F64 if ufunc in _FLOAT_RESULT else _result_vd(inputs)


def _cast_cells(a, vd):
    """after an op, make cell sorts agree with the virtual dtype (int -> real)"""
    if vd.kind == "f":
        for ix in numpy.ndindex(*a.shape):
            c = a[ix]
            if isinstance(c, SV):
                if not c.is_real:
                    a[ix] = sym.to_real(c)
            elif isinstance(c, (bool, int)):
                a[ix] = float(c)
    elif vd.kind in "iu":
        for ix in numpy.ndindex(*a.shape):
            c = a[ix]
            if isinstance(c, SV) and c.is_bool:
                a[ix] = sym.to_int_cell(c)
            elif isinstance(c, bool):
                a[ix] = int(c)
    return a


def _trunc_to_int(c):
    """C-style float -> integer conversion (truncation towards zero) of one cell"""
    if isinstance(c, float):
        return int(c)
    neg = c < 0
    return sym.sv_ceil(c) if bool(neg) else sym.sv_floor(c)


class SymArray(numpy.ndarray):
    __array_priority__ = 1000.0

    def __new__(cls, data, vd=None):
        if isinstance(data, SymArray):
            if vd is None:
                vd = data._vd
            data = raw(data)
        if isinstance(data, _nd):
            if data.dtype != object:
                if vd is None:
                    vd = data.dtype
                data = data.astype(object)
        else:
            data = _from_nested(data)
        obj = _nd.view(data, cls)
        obj._vd = numpy.dtype(vd if vd is not None else object)
        return obj

    def __array_finalize__(self, obj):
        self._vd = getattr(obj, "_vd", _OBJ)

    @property
    def dtype(self):
        return self._vd

    @property
    def itemsize(self):
        return self._vd.itemsize

    @property
    def nbytes(self):
        return self._vd.itemsize * self.size

    # ---- concreteness
    def is_concrete(self):
        return not cells_symbolic(raw(self))

    def concrete(self):
        return unbox(self)

    # ---- indexing
    def _fixkey(self, key):
        if isinstance(key, tuple):
            return tuple(self._fix1(k) for k in key)
        return self._fix1(key)

    @staticmethod
    def _fix1(k):
        if isinstance(k, SymArray):
            r = raw(k)
            if k._vd == _BOOL:
                out = numpy.empty(r.shape, dtype=bool)
                for ix in numpy.ndindex(*r.shape):
                    out[ix] = bool(r[ix])          # forks on symbolic cells
                return out
            out = numpy.empty(r.shape, dtype=numpy.intp)
            for ix in numpy.ndindex(*r.shape):
                out[ix] = operator.index(r[ix])    # forks on symbolic cells
            return out
        if isinstance(k, SV):
            if k.is_bool:
                return bool(k)
            return operator.index(k)
        if isinstance(k, list) and any(isinstance(e, (SV, SymArray)) for e in k):
            return [SymArray._fix1(e) for e in k]
        if isinstance(k, slice):
            if any(isinstance(e, SV) for e in (k.start, k.stop, k.step)):
                return slice(*[operator.index(e) if isinstance(e, SV) else e for e in (k.start, k.stop, k.step)])
        return k

    def __getitem__(self, key):
        key = self._fixkey(key)
        r = _nd.__getitem__(raw(self), key)
        if isinstance(r, _nd):
            return SymArray(r, self._vd) if r.dtype == object else r
        return _scalar_out(r, self._vd)

    def __setitem__(self, key, val):
        key = self._fixkey(key)
        if isinstance(val, SymArray):
            val = raw(val)
        elif isinstance(val, _nd):
            if val.dtype != object:
                val = val.astype(object)
        elif isinstance(val, numpy.generic):
            val = val.item()
        elif isinstance(val, (list, tuple)):
            val = _from_nested(val)
        _nd.__setitem__(raw(self), key, val)
        # keep sorts consistent with virtual dtype
        if self._vd.kind in "iu":
            sub = _nd.__getitem__(raw(self), key)
            if isinstance(sub, _nd):
                for ix in numpy.ndindex(*sub.shape):
                    c = sub[ix]
                    if (isinstance(c, SV) and not c.is_int and not c.is_bool) or isinstance(c, float):
                        sub[ix] = _trunc_to_int(c)
            elif (isinstance(sub, SV) and not sub.is_int and not sub.is_bool) or isinstance(sub, float):
                _nd.__setitem__(raw(self), key, _trunc_to_int(sub))
        if self._vd.kind == "f":
            sub = _nd.__getitem__(raw(self), key)
            if isinstance(sub, _nd):
                _cast_cells(sub, self._vd)
            elif isinstance(sub, (SV, int, bool)):
                _nd.__setitem__(raw(self), key, sym.to_real(sub))

    def __iter__(self):
        if self.ndim == 0:
            raise TypeError("iteration over a 0-d array")
        for i in range(self.shape[0]):
            yield self[i]

    def item(self, *a):
        r = _nd.item(raw(self), *a)
        return r

    def tolist(self):
        return _nd.tolist(raw(self))

    def __bool__(self):
        if self.size != 1:
            raise ValueError("The truth value of an array with more than one element is ambiguous. Use a.any() or a.all()")
        return bool(raw(self).ravel()[0])

    def __index__(self):
        if self.size != 1:
            raise TypeError("only integer scalar arrays can be converted to a scalar index")
        return operator.index(raw(self).ravel()[0])

    def __int__(self):
        return int(raw(self).ravel()[0])

    def __float__(self):
        c = raw(self).ravel()[0]
        return float(c)

    def __repr__(self):
        return "SymArray(%r, vd=%s)" % (raw(self).tolist(), self._vd)

    __str__ = __repr__

    def __reduce__(self):
        raise EngineUnsupported("pickling a SymArray")

    def __deepcopy__(self, memo):
        return SymArray(raw(self).copy(), self._vd)

    def __copy__(self):
        return SymArray(raw(self).copy(), self._vd)

    # ---- ufuncs
    def __array_ufunc__(self, ufunc, method, *inputs, out=None, **kw):
        return _do_ufunc(ufunc, method, inputs, out, kw)

    def __array_function__(self, func, types, args, kwargs):
        return _do_function(func, args, kwargs)

    # ---- methods that numpy implements in C on the base class
    def astype(self, dtype, order="K", casting="unsafe", subok=True, copy=True):
        return _astype(self, numpy.dtype(dtype))

    def copy(self, order="C"):
        return SymArray(raw(self).copy(), self._vd)

    def view(self, *a, **k):
        if not a and not k:
            return SymArray(raw(self), self._vd)
        if a and a[0] is _nd:
            return _nd.view(self, _nd)
        if a and isinstance(a[0], type) and issubclass(a[0], _nd):
            return _nd.view(self, a[0])
        raise EngineUnsupported("view with dtype on SymArray")

    def fill(self, v):
        r = raw(self)
        v = _pyify(v)
        for ix in numpy.ndindex(*r.shape):
            r[ix] = v
        _cast_cells(r, self._vd)

    def sum(self, axis=None, dtype=None, out=None, keepdims=False, **kw):
        return f_sum(self, axis=axis, dtype=dtype, keepdims=keepdims, **kw)

    def prod(self, axis=None, dtype=None, out=None, keepdims=False, **kw):
        _no_out(out)
        return f_prod(self, axis=axis, keepdims=keepdims, **kw)

    def mean(self, axis=None, dtype=None, out=None, keepdims=False, **kw):
        _no_out(out)
        return f_mean(self, axis=axis, keepdims=keepdims, **kw)

    def var(self, axis=None, dtype=None, out=None, ddof=0, keepdims=False, **kw):
        _no_out(out)
        return f_var(self, axis=axis, ddof=ddof, keepdims=keepdims, **kw)

    def std(self, axis=None, dtype=None, out=None, ddof=0, keepdims=False, **kw):
        _no_out(out)
        return f_std(self, axis=axis, ddof=ddof, keepdims=keepdims, **kw)

    def max(self, axis=None, out=None, keepdims=False, **kw):
        _no_out(out)
        return f_max(self, axis=axis, keepdims=keepdims, **kw)

    def min(self, axis=None, out=None, keepdims=False, **kw):
        _no_out(out)
        return f_min(self, axis=axis, keepdims=keepdims, **kw)

    def ptp(self, axis=None, out=None, keepdims=False):
        return f_max(self, axis=axis, keepdims=keepdims) - f_min(self, axis=axis, keepdims=keepdims)

    def argmax(self, axis=None, out=None, **kw):
        _no_out(out)
        return f_argmax(self, axis=axis, **kw)

    def argmin(self, axis=None, out=None, **kw):
        return f_argmin(self, axis=axis)

    def all(self, axis=None, out=None, keepdims=False, **kw):
        _no_out(out)
        return f_all(self, axis=axis, keepdims=keepdims, **kw)

    def any(self, axis=None, out=None, keepdims=False, **kw):
        _no_out(out)
        return f_any(self, axis=axis, keepdims=keepdims, **kw)

    def cumsum(self, axis=None, dtype=None, out=None):
        return f_cumsum(self, axis=axis)

    def dot(self, b, out=None):
        _no_out(out)
        return f_dot(self, b)

    def argsort(self, axis=-1, kind=None, order=None, **kw):
        return f_argsort(self, axis=axis, kind=kind)

    def sort(self, axis=-1, kind=None, order=None, **kw):
        ix = f_argsort(self, axis=axis)
        r = raw(self)
        r[...] = numpy.take_along_axis(r, ix, axis=axis)

    def nonzero(self):
        return f_nonzero(self)

    def round(self, decimals=0, out=None):
        if self.is_concrete():
            return box(unbox(self).round(decimals))
        raise EngineUnsupported("round on symbolic array")

    def clip(self, min=None, max=None, out=None, **kw):
        r = self
        if min is not None:
            r = numpy.maximum(r, min)
        if max is not None:
            r = numpy.minimum(r, max)
        return r

    def trace(self, offset=0, axis1=0, axis2=1, dtype=None, out=None):
        r = raw(self)
        if r.ndim != 2:
            raise EngineUnsupported("trace ndim != 2")
        tot = 0
        for i in range(min(r.shape)):
            tot = tot + r[i, i]
        return _scalar_out(tot, self._vd)

    def take(self, indices, axis=None, out=None, mode="raise"):
        return f_take(self, indices, axis=axis, out=out, mode=mode)

    def repeat(self, repeats, axis=None):
        return SymArray(_nd.repeat(raw(self), _concrete_ints(repeats), axis=axis), self._vd)

    def tobytes(self, *a, **k):
        raise EngineUnsupported("tobytes on SymArray")

    def __contains__(self, v):
        for c in raw(self).flat:
            if bool(c == v):
                return True
        return False


def _scalar_out(c, vd):
    """a single cell leaving an array"""
    if isinstance(c, SV):
        return c
    if isinstance(c, (bool, int, float, str, bytes)) or c is None:
        # give back a numpy scalar of the virtual dtype for concrete cells so that
        # downstream numpy semantics (e.g. int8 arithmetic, .dtype) are preserved
        if vd.kind in "biuf":
            try:
                return vd.type(c)
            except (ValueError, OverflowError, TypeError):
                return c
        if vd.kind == "U":
            return numpy.str_(c)
        return c
    return c


def _from_nested(data):
    """nested lists / scalars with SV cells -> object ndarray"""
    if isinstance(data, SV) or not isinstance(data, (list, tuple)):
        a = numpy.empty((), dtype=object)
        a[()] = _pyify(data)
        return a

    def shape_of(d):
        if isinstance(d, SymArray):
            return d.shape
        if isinstance(d, _nd):
            return d.shape
        if isinstance(d, (list, tuple)):
            if len(d) == 0:
                return (0,)
            return (len(d),) + shape_of(d[0])
        return ()
    shp = shape_of(data)
    a = numpy.empty(shp, dtype=object)

    def fillrec(d, ix):
        if isinstance(d, SymArray):
            a[ix] = raw(d)
        elif isinstance(d, _nd):
            a[ix] = d.astype(object)
        elif isinstance(d, (list, tuple)):
            for i, e in enumerate(d):
                fillrec(e, ix + (i,))
        else:
            a[ix] = _pyify(d)
    if len(shp) == 0:
        a[()] = data
    else:
        fillrec(data, ())
    return a


def _concrete_ints(x):
    """index-like argument -> concrete ints (forks on symbolic cells)"""
    if isinstance(x, SymArray):
        return SymArray._fix1(x)
    if isinstance(x, SV):
        return operator.index(x)
    if isinstance(x, (list, tuple)) and any(isinstance(e, (SV, SymArray)) for e in x):
        return [_concrete_ints(e) for e in x]
    return x


def _astype(a, dt):
    r = raw(a)
    if not cells_symbolic(r):
        if a._vd == _OBJ and dt == _OBJ:
            return SymArray(r.copy(), dt)
        return box(unbox(a).astype(dt), dt)
    out = r.copy()
    src = a._vd
    for ix in numpy.ndindex(*out.shape):
        c = out[ix]
        if isinstance(c, SV):
            if dt.kind == "f":
                out[ix] = sym.to_real(c)
            elif dt.kind in "iu":
                if c.is_real:
                    # C truncation toward zero: fork on the sign, then floor / -floor(-x)
                    if bool(c >= 0):
                        out[ix] = sym.norm(z3.ToInt(c.e))
                    else:
                        out[ix] = sym.norm(-z3.ToInt(-c.e))
                else:
                    out[ix] = sym.to_int_cell(c)
            elif dt.kind == "b":
                out[ix] = sym.sv_truth(c)
            elif dt == _OBJ:
                pass
            else:
                raise EngineUnsupported("astype(%s) on symbolic cell" % dt)
        else:
            if dt.kind in "biuf":
                out[ix] = dt.type(c).item()
    return SymArray(out, dt)


# --------------------------------------------------------------------------
# ufunc dispatch
# --------------------------------------------------------------------------
def _as_obj(x):
    if isinstance(x, SymArray):
        return raw(x)
    if isinstance(x, _nd):
        return x.astype(object) if x.dtype != object else x
    if isinstance(x, numpy.generic):
        return x.item()
    return x


def _all_concrete(inputs):
    for x in inputs:
        if isinstance(x, SV):
            return False
        if isinstance(x, SymArray) and cells_symbolic(raw(x)):
            return False
        if isinstance(x, _nd) and not isinstance(x, SymArray) and x.dtype == object and cells_symbolic(x):
            return False
    return True


def _do_ufunc(ufunc, method, inputs, out, kw):
    kw = {k: v for k, v in kw.items() if k not in ("casting", "order", "subok", "signature")}
    where = kw.pop("where", True)
    if where is not True:
        # numpy semantics: cells where the mask is false keep what `out` held before; the mask itself must be concrete
        if method != "__call__" or not out or out[0] is None:
            raise EngineUnsupported("ufunc where= without out=")
        m = _sa(where)
        if not m.is_concrete():
            raise EngineUnsupported("ufunc where= with a symbolic mask")
        full = _do_ufunc(ufunc, method, inputs, None, kw)
        tgt = out[0]
        mask = numpy.broadcast_to(unbox(m).astype(bool), tgt.shape)
        fullb = numpy.broadcast_to(raw(full) if isinstance(full, SymArray) else numpy.asarray(full, dtype=object), tgt.shape)
        for ix in numpy.ndindex(*tgt.shape):
            if mask[ix]:
                tgt[ix] = fullb[ix]
        return tgt
    if method == "__call__":
        if ufunc is numpy.matmul:
            r = f_matmul(inputs[0], inputs[1])
            return _write_out(r, out)
        nin = ufunc.nin
        if _all_concrete(inputs) and not any(isinstance(x, SymArray) and x._vd == _OBJ for x in inputs):
            # real numpy on real dtypes
            real = [unbox(x) if isinstance(x, SymArray) else x for x in inputs]
            kw2 = dict(kw)
            kw2.pop("dtype", None) if kw.get("dtype", None) is None else None
            with numpy.errstate(all="ignore"):
                r = ufunc(*real, **kw2)
            if isinstance(r, tuple):
                raise EngineUnsupported("multi-output ufunc")
            res = box(r) if isinstance(r, _nd) and r.ndim > 0 else box(numpy.asarray(r))
            return _write_out(res, out, scalar_ok=True)
        f = _BIN.get(ufunc) if nin == 2 else _UN.get(ufunc)
        if f is None:
            raise EngineUnsupported("ufunc %s" % ufunc.__name__)
        vd = kw.get("dtype") and numpy.dtype(kw["dtype"]) or _ufunc_vd(ufunc, inputs)
        objs = [_as_obj(x) for x in inputs]
        r = _fp(f, nin)(*objs)
        if not isinstance(r, _nd):
            a = numpy.empty((), dtype=object)
            a[()] = r
            r = a
        r = _cast_cells(r, vd)
        return _write_out(SymArray(r, vd), out, scalar_ok=True)
    if method == "reduce":
        a = inputs[0]
        axis = kw.get("axis", 0)
        keep = kw.get("keepdims", False)
        if ufunc is numpy.add:
            return f_sum(a, axis=axis, keepdims=keep)
        if ufunc is numpy.multiply:
            return f_prod(a, axis=axis, keepdims=keep)
        if ufunc is numpy.maximum:
            return f_max(a, axis=axis, keepdims=keep)
        if ufunc is numpy.minimum:
            return f_min(a, axis=axis, keepdims=keep)
        if ufunc is numpy.logical_and:
            return f_all(a, axis=axis, keepdims=keep)
        if ufunc is numpy.logical_or:
            return f_any(a, axis=axis, keepdims=keep)
        raise EngineUnsupported("reduce of %s" % ufunc.__name__)
    if method == "accumulate":
        if ufunc is numpy.add:
            return f_cumsum(inputs[0], axis=kw.get("axis", 0))
        raise EngineUnsupported("accumulate of %s" % ufunc.__name__)
    if method == "outer":
        a, b = inputs
        a = SymArray(_as_obj(numpy.asarray(a) if not isinstance(a, _nd) else a)) if not isinstance(a, SymArray) else a
        b = SymArray(_as_obj(numpy.asarray(b) if not isinstance(b, _nd) else b)) if not isinstance(b, SymArray) else b
        aa = a.reshape(a.shape + (1,) * b.ndim)
        return ufunc(aa, b)
    raise EngineUnsupported("ufunc method %s" % method)


def _write_out(res, out, scalar_ok=False):
    if out is not None:
        o = out[0] if isinstance(out, tuple) else out
        if isinstance(o, SymArray):
            ro = raw(o)
            ro[...] = raw(res) if isinstance(res, SymArray) else res
            _cast_cells(ro, o._vd)
            return o
        # plain ndarray out: only possible for concrete results
        if isinstance(res, SymArray):
            if not res.is_concrete():
                raise EngineUnsupported("symbolic result written into a plain ndarray (out=)")
            o[...] = unbox(res)
        else:
            o[...] = res
        return o
    if isinstance(res, SymArray) and res.ndim == 0:
        return _scalar_out(raw(res)[()], res._vd)
    return res


# --------------------------------------------------------------------------
# reductions and value-dependent functions
# --------------------------------------------------------------------------
def _sa(x):
    """anything array-like -> SymArray"""
    if isinstance(x, SymArray):
        return x
    if isinstance(x, _nd):
        return box(x)
    if isinstance(x, SV):
        return SymArray(_from_nested(x), _BOOL if x.is_bool else (_I64 if x.is_int else _F64))
    if isinstance(x, (list, tuple)):
        if any_symarray(x) or has_sym(x):
            vd = _result_vd(x)
            if vd == _OBJ:
                flat = []

                def rec(e):
                    if isinstance(e, (list, tuple)):
                        for q in e:
                            rec(q)
                    else:
                        flat.append(e)
                rec(x)
                kinds = set()
                for c in flat:
                    if isinstance(c, SV):
                        kinds.add("b" if c.is_bool else ("i" if c.is_int else "f"))
                    elif isinstance(c, bool):
                        kinds.add("b")
                    elif isinstance(c, int):
                        kinds.add("i")
                    elif isinstance(c, float):
                        kinds.add("f")
                    else:
                        kinds.add("O")
                vd = _OBJ if "O" in kinds else (_F64 if "f" in kinds else (_I64 if "i" in kinds else _BOOL))
            r = _from_nested(x)
            return SymArray(_cast_cells(r, vd), vd)
        return box(numpy.asarray(x))
    return box(numpy.asarray(x))


def _reduce(a, axis, keepdims, fn, vd, empty=None):
    """generic reduction: fn(list_of_cells) -> cell"""
    a = _sa(a)
    r = raw(a)
    if isinstance(axis, tuple):
        if len(axis) == 0:
            return a
        # reduce several axes: move them last and flatten
        ax = sorted(x % r.ndim for x in axis)
        rest = [i for i in range(r.ndim) if i not in ax]
        moved = r.transpose(rest + ax)
        moved = moved.reshape(tuple(r.shape[i] for i in rest) + (-1,))
        out = numpy.empty(moved.shape[:-1], dtype=object)
        for ix in numpy.ndindex(*out.shape):
            out[ix] = fn(list(moved[ix]))
        if keepdims:
            shp = [1 if i in ax else r.shape[i] for i in range(r.ndim)]
            out = out.reshape(shp)
        if out.ndim == 0:
            return _scalar_out(out[()], vd)
        return SymArray(out, vd)
    if axis is None:
        res = fn(list(r.ravel()))
        if keepdims:
            o = numpy.empty((1,) * r.ndim, dtype=object)
            o[(0,) * r.ndim] = res
            return SymArray(o, vd)
        return _scalar_out(res, vd)
    axis = operator.index(axis) % r.ndim
    moved = numpy.moveaxis(r, axis, -1)
    out = numpy.empty(moved.shape[:-1], dtype=object)
    for ix in numpy.ndindex(*out.shape):
        out[ix] = fn(list(moved[ix]))
    if keepdims:
        out = numpy.expand_dims(out, axis)
    if out.ndim == 0:
        return _scalar_out(out[()], vd)
    return SymArray(out, vd)


def _concrete_shortcut(name, a, **kw):
    """if a is fully concrete use real numpy"""
    a = _sa(a)
    if a._vd != _OBJ and a.is_concrete():
        with numpy.errstate(all="ignore"):
            r = getattr(numpy, name)(unbox(a), **kw)
        if isinstance(r, _nd) and r.ndim > 0:
            return True, box(r)
        return True, r
    return False, None


def _sum_cells(cs):
    tot = 0
    first = True
    for c in cs:
        c = sym.to_int_cell(c)
        tot = c if first else tot + c
        first = False
    return tot


def _sum_vd(vd):
    if vd.kind == "b":
        return _I64
    if vd.kind in "iu":
        return numpy.dtype("int64") if vd.kind == "i" else numpy.dtype("uint64")
    return vd


def _no_out(out):
    if out is not None:
        raise EngineUnsupported("out= argument of an array method is not modelled")


def _nokw(fname, kw, allowed=()):
    """keyword arguments a handler does not model must not be dropped silently (a changed call such as max(initial=0) would be invisible)"""
    for k, v in kw.items():
        if k in allowed or v is None or (k == "where" and v is True) or (k == "initial" and v is numpy._NoValue) or v is numpy._NoValue:
            continue
        raise EngineUnsupported("%s(%s=%r) is not modelled" % (fname, k, v))


def _with_initial(fn, initial):
    if initial is None or initial is numpy._NoValue:
        return fn
    return lambda cs: fn(list(cs) + [initial])


def f_sum(a, axis=None, dtype=None, keepdims=False, **kw):
    _nokw("sum", kw, ())
    a = _sa(a)
    kws = dict(axis=axis, keepdims=keepdims)
    if dtype is not None:
        kws["dtype"] = dtype
    ok, r = _concrete_shortcut("sum", a, **kws)
    if ok:
        return r
    vd = numpy.dtype(dtype) if dtype is not None else _sum_vd(a._vd)
    res = _reduce(a, axis, keepdims, _sum_cells, vd)
    if isinstance(res, SymArray):
        _cast_cells(raw(res), vd)
    elif vd.kind == "f":
        res = sym.to_real(res)
    return res


def _prod_cells(cs):
    tot = 1
    for c in cs:
        tot = tot * sym.to_int_cell(c)
    return tot


def f_prod(a, axis=None, keepdims=False, **kw):
    _nokw("prod", kw, ())
    a = _sa(a)
    ok, r = _concrete_shortcut("prod", a, axis=axis, keepdims=keepdims)
    if ok:
        return r
    return _reduce(a, axis, keepdims, _prod_cells, _sum_vd(a._vd))


def f_mean(a, axis=None, keepdims=False, **kw):
    _nokw("mean", kw, ('dtype',))
    a = _sa(a)
    ok, r = _concrete_shortcut("mean", a, axis=axis, keepdims=keepdims)
    if ok:
        return r

    def fn(cs):
        return sym.sv_div(sym.to_real(_sum_cells(cs)), float(len(cs))) if cs else float("nan")
    return _reduce(a, axis, keepdims, fn, _F64)


def f_var(a, axis=None, ddof=0, keepdims=False, **kw):
    _nokw("var", kw, ('dtype',))
    a = _sa(a)
    ok, r = _concrete_shortcut("var", a, axis=axis, ddof=ddof, keepdims=keepdims)
    if ok:
        return r

    def fn(cs):
        n = len(cs)
        m = sym.sv_div(sym.to_real(_sum_cells(cs)), float(n))
        tot = 0.0
        for c in cs:
            d = sym.to_real(c) - m
            tot = tot + d * d
        return sym.sv_div(tot, float(n - ddof))
    return _reduce(a, axis, keepdims, fn, _F64)


def f_std(a, axis=None, ddof=0, keepdims=False, **kw):
    _nokw("std", kw, ('dtype',))
    a = _sa(a)
    ok, r = _concrete_shortcut("std", a, axis=axis, ddof=ddof, keepdims=keepdims)
    if ok:
        return r
    v = f_var(a, axis=axis, ddof=ddof, keepdims=keepdims)
    return numpy.sqrt(v) if isinstance(v, SymArray) else sym.sv_sqrt(v)


def _nan_filter(cs):
    return [c for c in cs if not (isinstance(c, float) and math.isnan(c))]


def f_nanmean(a, axis=None, keepdims=False, **kw):
    _nokw("nanmean", kw, ('dtype',))
    a = _sa(a)
    ok, r = _concrete_shortcut("nanmean", a, axis=axis, keepdims=keepdims)
    if ok:
        return r

    def fn(cs):
        cs = _nan_filter(cs)
        return sym.sv_div(sym.to_real(_sum_cells(cs)), float(len(cs))) if cs else float("nan")
    return _reduce(a, axis, keepdims, fn, _F64)


def f_nanvar(a, axis=None, ddof=0, keepdims=False, **kw):
    _nokw("nanvar", kw, ('dtype',))
    a = _sa(a)
    ok, r = _concrete_shortcut("nanvar", a, axis=axis, ddof=ddof, keepdims=keepdims)
    if ok:
        return r

    def fn(cs):
        cs = _nan_filter(cs)
        n = len(cs)
        if n - ddof <= 0:
            return float("nan")
        m = sym.sv_div(sym.to_real(_sum_cells(cs)), float(n))
        tot = 0.0
        for c in cs:
            d = sym.to_real(c) - m
            tot = tot + d * d
        return sym.sv_div(tot, float(n - ddof))
    return _reduce(a, axis, keepdims, fn, _F64)


def f_nanstd(a, axis=None, ddof=0, keepdims=False, **kw):
    _nokw("nanstd", kw, ('dtype',))
    a = _sa(a)
    ok, r = _concrete_shortcut("nanstd", a, axis=axis, ddof=ddof, keepdims=keepdims)
    if ok:
        return r
    v = f_nanvar(a, axis=axis, ddof=ddof, keepdims=keepdims)
    return numpy.sqrt(v) if isinstance(v, SymArray) else sym.sv_sqrt(v)


def _max_cells(cs):
    if not cs:
        raise ValueError("zero-size array to reduction operation maximum which has no identity")
    m = cs[0]
    for c in cs[1:]:
        m = sym.sv_max(m, c)
    return m


def _min_cells(cs):
    if not cs:
        raise ValueError("zero-size array to reduction operation minimum which has no identity")
    m = cs[0]
    for c in cs[1:]:
        m = sym.sv_min(m, c)
    return m


def f_max(a, axis=None, keepdims=False, initial=None, **kw):
    _nokw("max", kw)
    a = _sa(a)
    extra = {} if initial is None or initial is numpy._NoValue else dict(initial=initial)
    ok, r = _concrete_shortcut("max", a, axis=axis, keepdims=keepdims, **extra)
    if ok:
        return r
    return _reduce(a, axis, keepdims, _with_initial(_max_cells, initial), a._vd)


def f_min(a, axis=None, keepdims=False, initial=None, **kw):
    _nokw("min", kw)
    a = _sa(a)
    extra = {} if initial is None or initial is numpy._NoValue else dict(initial=initial)
    ok, r = _concrete_shortcut("min", a, axis=axis, keepdims=keepdims, **extra)
    if ok:
        return r
    return _reduce(a, axis, keepdims, _with_initial(_min_cells, initial), a._vd)


def _nanmax_cells(cs):
    cs = _nan_filter(cs)
    return _max_cells(cs) if cs else float("nan")


def _nanmin_cells(cs):
    cs = _nan_filter(cs)
    return _min_cells(cs) if cs else float("nan")


def f_nanmax(a, axis=None, keepdims=False, **kw):
    _nokw("nanmax", kw, ())
    a = _sa(a)
    return _reduce(a, axis, keepdims, _nanmax_cells, a._vd)


def f_nanmin(a, axis=None, keepdims=False, **kw):
    _nokw("nanmin", kw, ())
    a = _sa(a)
    return _reduce(a, axis, keepdims, _nanmin_cells, a._vd)


def _argmax_cells(cs):
    """first index of the maximum: forks (returns a concrete python int); numpy: first NaN wins"""
    for i, c in enumerate(cs):
        if isinstance(c, float) and math.isnan(c):
            return i
    best = 0
    for i in range(1, len(cs)):
        if bool(cs[i] > cs[best]):
            best = i
    return best


def _argmin_cells(cs):
    for i, c in enumerate(cs):
        if isinstance(c, float) and math.isnan(c):
            return i
    best = 0
    for i in range(1, len(cs)):
        if bool(cs[i] < cs[best]):
            best = i
    return best


def f_argmax(a, axis=None, **kw):
    _nokw("argmax", kw, ('keepdims',))
    a = _sa(a)
    ok, r = _concrete_shortcut("argmax", a, axis=axis)
    if ok:
        return unbox(r) if isinstance(r, SymArray) else r
    r = _reduce(a, axis, False, _argmax_cells, _I64)
    return unbox(r) if isinstance(r, SymArray) else int(r)


def f_argmin(a, axis=None, **kw):
    _nokw("argmin", kw, ('keepdims',))
    a = _sa(a)
    ok, r = _concrete_shortcut("argmin", a, axis=axis)
    if ok:
        return unbox(r) if isinstance(r, SymArray) else r
    r = _reduce(a, axis, False, _argmin_cells, _I64)
    return unbox(r) if isinstance(r, SymArray) else int(r)


def _all_cells(cs):
    r = True
    for c in cs:
        r = sym.sv_land(r, c)
        if r is False:
            return False
    return r


def _any_cells(cs):
    r = False
    for c in cs:
        r = sym.sv_lor(r, c)
        if r is True:
            return True
    return r


def f_all(a, axis=None, keepdims=False, **kw):
    _nokw("all", kw, ())
    a = _sa(a)
    return _reduce(a, axis, keepdims, _all_cells, _BOOL)


def f_any(a, axis=None, keepdims=False, **kw):
    _nokw("any", kw, ())
    a = _sa(a)
    return _reduce(a, axis, keepdims, _any_cells, _BOOL)


def f_cumsum(a, axis=None, **kw):
    _nokw("cumsum", kw, ('dtype',))
    a = _sa(a)
    r = raw(a)
    if axis is None:
        r = r.ravel()
        axis = 0
    dt = kw.get("dtype")
    vd = numpy.dtype(dt) if dt is not None else _sum_vd(a._vd)
    moved = numpy.moveaxis(r, axis, -1)
    out = numpy.empty(moved.shape, dtype=object)
    for ix in numpy.ndindex(*moved.shape[:-1]):
        tot = None
        for k in range(moved.shape[-1]):
            c = moved[ix + (k,)]
            if vd.kind == "b":
                # the accumulator has the requested type: with dtype=bool the running sum is a running OR
                b = c if (isinstance(c, SV) and c.is_bool) or isinstance(c, (bool, numpy.bool_)) else (c != 0)
                tot = b if tot is None else sym.sv_or(tot, b)
            else:
                c = sym.to_int_cell(c) if vd.kind in "iu" else c
                tot = c if tot is None else tot + c
            out[ix + (k,)] = tot
    out = numpy.moveaxis(out, -1, axis)
    return SymArray(_cast_cells(out, vd) if vd.kind != "b" else out, vd)


def _dotvec(u, v):
    tot = None
    for x, y in zip(u, v):
        p = sym.to_int_cell(x) * sym.to_int_cell(y)
        tot = p if tot is None else tot + p
    return 0 if tot is None else tot


NARROW_ACCUM = []      # (function, result dtype, reduction length): products accumulated in an integer type narrower than 32 bit


def f_matmul(a, b):
    a = _sa(a)
    b = _sa(b)
    vd = _ufunc_vd(numpy.multiply, (a, b))
    if vd != _OBJ and vd.kind in "iu" and vd.itemsize < 4 and a.ndim >= 1 and a.shape[-1] >= 1:
        # numpy accumulates matmul/dot of int8/int16 operands in that same type: wraps for long reductions (harnesses may assert on this log)
        NARROW_ACCUM.append(("matmul", str(vd), int(a.shape[-1])))
    if a.is_concrete() and b.is_concrete() and vd != _OBJ:
        with numpy.errstate(all="ignore"):
            return box(numpy.matmul(unbox(a), unbox(b)))
    ra, rb = raw(a), raw(b)
    if ra.ndim == 0 or rb.ndim == 0:
        raise ValueError("matmul: Input operand does not have enough dimensions")
    a1 = ra.ndim == 1
    b1 = rb.ndim == 1
    if a1:
        ra = ra[None, :]
    if b1:
        rb = rb[:, None]
    if ra.shape[-1] != rb.shape[-2]:
        raise ValueError("matmul: shape mismatch %s %s" % (ra.shape, rb.shape))
    bshape = numpy.broadcast_shapes(ra.shape[:-2], rb.shape[:-2])
    A = numpy.broadcast_to(ra, bshape + ra.shape[-2:])
    B = numpy.broadcast_to(rb, bshape + rb.shape[-2:])
    out = numpy.empty(bshape + (ra.shape[-2], rb.shape[-1]), dtype=object)
    for ix in numpy.ndindex(*bshape):
        for i in range(ra.shape[-2]):
            for j in range(rb.shape[-1]):
                out[ix + (i, j)] = _dotvec(A[ix][i, :], B[ix][:, j])
    if a1:
        out = out[..., 0, :]
    if b1:
        out = out[..., 0]
    if out.ndim == 0:
        c = out[()]
        return sym.to_real(c) if vd.kind == "f" else c
    return SymArray(_cast_cells(out, vd), vd)


def f_dot(a, b, out=None):
    a = _sa(a)
    b = _sa(b)
    if a.ndim == 0 or b.ndim == 0:
        return a * b
    if a.ndim <= 2 and b.ndim <= 2:
        return f_matmul(a, b)
    if b.ndim == 1:
        return f_matmul(a, b)
    # general: sum over last axis of a and second-to-last of b
    ra, rb = raw(a), raw(b)
    vd = _ufunc_vd(numpy.multiply, (a, b))
    oshape = ra.shape[:-1] + rb.shape[:-2] + rb.shape[-1:]
    out_ = numpy.empty(oshape, dtype=object)
    for ia in numpy.ndindex(*ra.shape[:-1]):
        for ib in numpy.ndindex(*(rb.shape[:-2] + rb.shape[-1:])):
            col = rb[ib[:-1] + (slice(None), ib[-1])]
            out_[ia + ib] = _dotvec(ra[ia], col)
    return SymArray(_cast_cells(out_, vd), vd)


def f_outer(a, b, out=None):
    a = _sa(a)
    b = _sa(b)
    return a.ravel()[:, None] * b.ravel()[None, :]


def _lt_fork(x, y):
    return bool(x < y)


def _cmp_cells(x, y):
    if _lt_fork(x, y):
        return -1
    if _lt_fork(y, x):
        return 1
    return 0


def _stable_order(n, cmpfn, stable=True):
    """order of indices under cmpfn; ties keep the input order when stable, otherwise (numpy's default quicksort /
    simd sort is not stable) each tie is resolved by a fresh arbitrary boolean, i.e. both orders are explored"""
    def cmp(i, j):
        c = cmpfn(i, j)
        if c != 0:
            return c
        if not stable and sym._CTX[0] is not None:
            ctx_ = sym.ctx()
            t = z3.Bool("tie!%d" % ctx_.fresh())
            ctx_.nondet = True     # the real library's choice on this path is unspecified: no output comparison in validation
            return -1 if bool(SV(t)) else 1
        return (i > j) - (i < j)
    return sorted(range(n), key=functools.cmp_to_key(cmp))


def f_argsort(a, axis=-1, kind=None, **kw):
    a = _sa(a)
    stable = kind in ("stable", "mergesort")
    if a.is_concrete() and a._vd != _OBJ:
        return numpy.argsort(unbox(a), axis=axis, kind=kind)
    r = raw(a)
    if axis is None:
        r = r.ravel()
        axis = 0
    moved = numpy.moveaxis(r, axis, -1)
    out = numpy.empty(moved.shape, dtype=numpy.intp)
    for ix in numpy.ndindex(*moved.shape[:-1]):
        v = list(moved[ix])
        out[ix] = _stable_order(len(v), lambda i, j: _cmp_cells(v[i], v[j]), stable=stable)
    return numpy.moveaxis(out, -1, axis)


def f_sort(a, axis=-1, **kw):
    a = _sa(a)
    if axis is None:
        a = a.ravel()
        axis = 0
    ix = f_argsort(a, axis=axis)
    return SymArray(numpy.take_along_axis(raw(a), ix, axis=axis), a._vd)


def f_lexsort(keys, axis=-1):
    ks = [_sa(k) for k in keys]
    if all(k.is_concrete() and k._vd != _OBJ for k in ks):
        return numpy.lexsort(tuple(unbox(k) for k in ks), axis=axis)
    if any(k.ndim != 1 for k in ks):
        raise EngineUnsupported("lexsort on >1-d keys")
    cols = [list(raw(k)) for k in ks]
    n = len(cols[0])

    def cmp(i, j):
        for k in reversed(cols):
            c = _cmp_cells(k[i], k[j])
            if c:
                return c
        return 0
    return numpy.array(_stable_order(n, cmp), dtype=numpy.intp)


def f_unique(a, return_index=False, return_inverse=False, return_counts=False, axis=None, **kw):
    _nokw("unique", kw, ('equal_nan',))
    a = _sa(a)
    if a.is_concrete():
        if a._vd == _OBJ:
            r = numpy.unique(raw(a), return_index=return_index, return_inverse=return_inverse,
                             return_counts=return_counts, axis=axis)
        else:
            r = numpy.unique(unbox(a), return_index=return_index, return_inverse=return_inverse,
                             return_counts=return_counts, axis=axis)
        if isinstance(r, tuple):
            return (box(r[0], a._vd if a._vd == _OBJ else None),) + tuple(box(x) for x in r[1:])
        return box(r, a._vd if a._vd == _OBJ else None)
    if axis is not None:
        raise EngineUnsupported("unique with axis on symbolic")
    v = list(raw(a).ravel())
    order = _stable_order(len(v), lambda i, j: _cmp_cells(v[i], v[j]))
    vals, idx, cnt = [], [], []
    inv = [0] * len(v)
    for i in order:
        if vals and bool(vals[-1] == v[i]):
            cnt[-1] += 1
        else:
            vals.append(v[i])
            idx.append(i)
            cnt.append(1)
        inv[i] = len(vals) - 1
    out = [SymArray(mkobj(vals), a._vd)]
    if return_index:
        out.append(box(numpy.array(idx, dtype=numpy.intp)))
    if return_inverse:
        out.append(box(numpy.array(inv, dtype=numpy.intp).reshape(a.shape)))
    if return_counts:
        out.append(box(numpy.array(cnt, dtype=numpy.intp)))
    return tuple(out) if len(out) > 1 else out[0]


def f_nonzero(a):
    a = _sa(a)
    r = raw(a)
    m = numpy.empty(r.shape, dtype=bool)
    for ix in numpy.ndindex(*r.shape):
        m[ix] = bool(r[ix])       # forks
    return numpy.nonzero(m)


def f_flatnonzero(a):
    return f_nonzero(_sa(a).ravel())[0]


def f_where(cond, x=None, y=None):
    if x is None and y is None:
        return f_nonzero(cond)
    c = _sa(cond)
    xs = _sa(x)
    ys = _sa(y)
    vd = _ufunc_vd(numpy.add, (xs, ys)) if xs._vd != ys._vd else xs._vd
    if c.is_concrete() and xs.is_concrete() and ys.is_concrete() and vd != _OBJ:
        return box(numpy.where(unbox(c), unbox(xs), unbox(ys)))
    r = _fp(sym.sv_ite, 3)(raw(c), raw(xs), raw(ys))
    if not isinstance(r, _nd):
        return r
    return SymArray(_cast_cells(r, vd), vd)


def f_take(a, indices, axis=None, **kw):
    a = _sa(a)
    idx = _concrete_ints(indices)
    if kw.get("out") is not None:
        raise EngineUnsupported("take(out=...)")
    r = numpy.take(raw(a), idx, axis=axis, mode=kw.get("mode", "raise"))
    if isinstance(r, _nd):
        return SymArray(r, a._vd)
    return _scalar_out(r, a._vd)


def f_isin(el, test, **kw):
    _nokw("isin", kw, ('invert', 'assume_unique'))
    el = _sa(el)
    test = _sa(test)
    if el.is_concrete() and test.is_concrete():
        e = raw(el) if el._vd == _OBJ else unbox(el)
        t = raw(test) if test._vd == _OBJ else unbox(test)
        return numpy.isin(e, t, **kw)
    re_, rt = raw(el), list(raw(test).ravel())
    out = numpy.empty(re_.shape, dtype=object)
    for ix in numpy.ndindex(*re_.shape):
        out[ix] = _any_cells([re_[ix] == t for t in rt])
    r = SymArray(out, _BOOL)
    if kw.get("invert"):
        return numpy.logical_not(r)
    return r


def f_bincount(x, weights=None, minlength=0):
    xi = numpy.asarray(_concrete_ints(_sa(x)))
    if weights is None:
        return numpy.bincount(xi, minlength=minlength)
    w = _sa(weights)
    n = max(int(xi.max()) + 1 if xi.size else 0, minlength)
    out = numpy.empty(n, dtype=object)
    out.fill(0.0)
    rw = raw(w)
    for i, k in enumerate(xi):
        out[k] = out[k] + rw[i]
    return SymArray(_cast_cells(out, _F64), _F64)


def f_norm(x, ord=None, axis=None, keepdims=False):
    x = _sa(x)
    if x.is_concrete():
        return_ = numpy.linalg.norm(unbox(x), ord=ord, axis=axis, keepdims=keepdims)
        return box(return_) if isinstance(return_, _nd) and return_.ndim else return_
    if ord is None or ord == 2 or ord == "fro":
        if ord == 2 and axis is None and x.ndim == 2:
            raise EngineUnsupported("spectral norm")
        s = f_sum(x * x, axis=axis, keepdims=keepdims)
        return numpy.sqrt(s) if isinstance(s, SymArray) else sym.sv_sqrt(s)
    if ord == 1:
        if axis is None and x.ndim == 2:
            raise EngineUnsupported("matrix 1-norm")
        return f_sum(numpy.absolute(x), axis=axis, keepdims=keepdims)
    if ord == numpy.inf:
        return f_max(numpy.absolute(x), axis=axis, keepdims=keepdims)
    raise EngineUnsupported("norm ord=%r" % (ord,))


def f_median(a, axis=None, **kw):
    _nokw("median", kw, ())
    a = _sa(a)
    ok, r = _concrete_shortcut("median", a, axis=axis)
    if ok:
        return r

    def fn(cs):
        order = _stable_order(len(cs), lambda i, j: _cmp_cells(cs[i], cs[j]))
        s = [cs[i] for i in order]
        n = len(s)
        if n % 2:
            return sym.to_real(s[n // 2])
        return sym.sv_div(sym.to_real(s[n // 2 - 1]) + sym.to_real(s[n // 2]), 2.0)
    return _reduce(a, axis, False, fn, _F64)


def f_allclose(a, b, rtol=1e-05, atol=1e-08, equal_nan=False):
    a = _sa(a)
    b = _sa(b)
    d = numpy.absolute(a - b) <= (atol + rtol * numpy.absolute(b))
    return bool(f_all(d))


def f_isclose(a, b, rtol=1e-05, atol=1e-08, equal_nan=False):
    a = _sa(a)
    b = _sa(b)
    return numpy.absolute(a - b) <= (atol + rtol * numpy.absolute(b))


def f_meshgrid(*xi, **kw):
    arrs = [_sa(x) for x in xi]
    res = numpy.meshgrid(*[raw(a) for a in arrs], **kw)
    return type(res)(SymArray(r, a._vd) for r, a in zip(res, arrs)) if isinstance(res, tuple) else [SymArray(r, a._vd) for r, a in zip(res, arrs)]


def f_array_equal(a, b, **kw):
    _nokw("array_equal", kw, ('equal_nan',))
    a = _sa(a)
    b = _sa(b)
    if a.shape != b.shape:
        return False
    return bool(f_all(a == b))


def f_diag(v, k=0):
    v = _sa(v)
    r = raw(v)
    if r.ndim == 1:
        n = len(r) + abs(k)
        out = numpy.empty((n, n), dtype=object)
        out.fill(0.0 if v._vd.kind == "f" else (False if v._vd.kind == "b" else 0))
        for i, c in enumerate(r):
            out[(i, i + k) if k >= 0 else (i - k, i)] = c
        return SymArray(out, v._vd)
    return SymArray(numpy.diagonal(r, k).copy(), v._vd)


def f_einsum(subs, *ops, **kw):
    if len(ops) == 1 and isinstance(ops[0], SymArray) and "," not in subs:
        # single-operand einsum (diagonal / transpose views): numpy returns a VIEW, which callers write through
        r = numpy.einsum(subs, raw(ops[0]))
        if isinstance(r, _nd) and r.ndim:
            return SymArray(r, ops[0]._vd)
        return r
    ops = [_sa(o) for o in ops]
    if all(o.is_concrete() for o in ops):
        return box(numpy.einsum(subs, *[unbox(o) for o in ops]))
    vd = _result_vd(ops)
    # object einsum is supported by numpy for simple contractions
    try:
        r = numpy.einsum(subs, *[raw(o) for o in ops], optimize=False)
    except TypeError as ex:
        raise EngineUnsupported("einsum on symbolic: %s" % ex)
    if isinstance(r, _nd) and r.ndim:
        return SymArray(_cast_cells(r, vd), vd)
    return r


def f_triu(m, k=0):
    m = _sa(m)
    r = raw(m).copy()
    zero = 0.0 if m._vd.kind == "f" else 0
    for ix in numpy.ndindex(*r.shape):
        if ix[-1] - ix[-2] < k:
            r[ix] = zero
    return SymArray(r, m._vd)


def f_tril(m, k=0):
    m = _sa(m)
    r = raw(m).copy()
    zero = 0.0 if m._vd.kind == "f" else 0
    for ix in numpy.ndindex(*r.shape):
        if ix[-1] - ix[-2] > k:
            r[ix] = zero
    return SymArray(r, m._vd)


def f_count_nonzero(a, axis=None, **kw):
    _nokw("count_nonzero", kw, ())
    a = _sa(a)
    return f_sum(numpy.not_equal(a, 0) if a._vd != _BOOL else a, axis=axis)


def f_searchsorted(a, v, side="left", sorter=None):
    a = _sa(a)
    vs = _sa(v)
    if a.is_concrete() and vs.is_concrete():
        return numpy.searchsorted(unbox(a), unbox(vs) if vs.ndim else unbox(vs)[()], side=side, sorter=sorter)
    ra = list(raw(a))
    if sorter is not None:
        ra = [ra[i] for i in sorter]

    def one(x):
        k = 0
        for c in ra:
            if side == "left":
                if bool(c < x):
                    k += 1
                else:
                    break
            else:
                if bool(c <= x):
                    k += 1
                else:
                    break
        return k
    rv = raw(vs)
    if rv.ndim == 0:
        return one(rv[()])
    out = numpy.empty(rv.shape, dtype=numpy.intp)
    for ix in numpy.ndindex(*rv.shape):
        out[ix] = one(rv[ix])
    return out


def f_isnan_any(a):
    return f_any(numpy.isnan(_sa(a)))


# structural functions: real numpy moves the object cells
_STRUCT = {
    numpy.repeat, numpy.stack, numpy.concatenate, numpy.delete, numpy.insert, numpy.append,
    numpy.copy, numpy.reshape, numpy.transpose, numpy.ravel, numpy.tile, numpy.squeeze,
    numpy.expand_dims, numpy.moveaxis, numpy.swapaxes, numpy.flip, numpy.roll, numpy.hstack,
    numpy.vstack, numpy.column_stack, numpy.broadcast_to, numpy.atleast_1d, numpy.atleast_2d,
    numpy.split, numpy.array_split, numpy.diagonal, numpy.take_along_axis, numpy.rollaxis,
    numpy.dstack, numpy.broadcast_arrays, numpy.flipud, numpy.fliplr, numpy.atleast_3d, numpy.resize,
}


def _struct_call(func, args, kwargs):
    # virtual dtype from the data operands only (never from index / repeat-count arguments)
    if func is numpy.insert:
        vd = _result_vd([args[0]] + ([args[2]] if len(args) > 2 and isinstance(args[2], (SymArray, _nd)) else []))
    elif func is numpy.append:
        vd = _result_vd([args[0]] + ([args[1]] if len(args) > 1 and isinstance(args[1], (SymArray, _nd)) else []))
    else:
        vd = _result_vd([args[0]])
    if vd != _OBJ:
        fv = _first_vd(args)
        # keep a single shared virtual dtype when all operands agree
        vd = vd if fv is None else vd

    def conv(x, top=False):
        if isinstance(x, SymArray):
            return raw(x)
        if isinstance(x, _nd):
            return x.astype(object) if x.dtype != object else x
        if isinstance(x, (list, tuple)) and any_symarray(x):
            return type(x)(conv(e) for e in x)
        return x
    a = list(args)
    # first argument carries the data; index arguments must be concrete
    a[0] = conv(a[0])
    for i in range(1, len(a)):
        if func in (numpy.insert, numpy.append) and i == (2 if func is numpy.insert else 1):
            v = a[i]
            if isinstance(v, SymArray):
                a[i] = raw(v)
            elif isinstance(v, _nd):
                a[i] = v.astype(object)
            elif isinstance(v, (list, tuple)):
                a[i] = _from_nested(v)
            elif isinstance(v, numpy.generic):
                a[i] = v.item()
        elif func is numpy.take_along_axis and i == 1:
            a[i] = numpy.asarray(_concrete_ints(a[i]))
        else:
            a[i] = _concrete_ints(a[i]) if isinstance(a[i], (SymArray, SV)) else a[i]
    kw = {k: (_concrete_ints(v) if isinstance(v, (SymArray, SV)) else v) for k, v in kwargs.items()}
    if func is numpy.insert and "values" in kw:
        raise EngineUnsupported("insert(values=) keyword")
    r = func(*a, **kw)
    if func is numpy.delete or func is numpy.insert:
        pass
    if isinstance(r, (list, tuple)):
        return type(r)(SymArray(e, vd) if isinstance(e, _nd) else e for e in r)
    if isinstance(r, _nd):
        return SymArray(r, vd)
    return r


_FUNCS = {
    numpy.sum: f_sum, numpy.prod: f_prod, numpy.mean: f_mean, numpy.var: f_var, numpy.std: f_std,
    numpy.nanmean: f_nanmean, numpy.nanvar: f_nanvar, numpy.nanstd: f_nanstd,
    numpy.nanmax: f_nanmax, numpy.nanmin: f_nanmin,
    numpy.max: f_max, numpy.min: f_min, numpy.amax: f_max, numpy.amin: f_min,
    numpy.argmax: f_argmax, numpy.argmin: f_argmin, numpy.all: f_all, numpy.any: f_any,
    numpy.cumsum: f_cumsum, numpy.dot: f_dot, numpy.matmul: f_matmul, numpy.outer: f_outer,
    numpy.argsort: f_argsort, numpy.sort: f_sort, numpy.lexsort: f_lexsort, numpy.unique: f_unique,
    numpy.nonzero: f_nonzero, numpy.flatnonzero: f_flatnonzero, numpy.where: f_where,
    numpy.take: f_take, numpy.isin: f_isin, numpy.bincount: f_bincount,
    numpy.linalg.norm: f_norm, numpy.median: f_median, numpy.allclose: f_allclose,
    numpy.array_equal: f_array_equal, numpy.diag: f_diag, numpy.einsum: f_einsum,
    numpy.triu: f_triu, numpy.tril: f_tril, numpy.count_nonzero: f_count_nonzero,
    numpy.searchsorted: f_searchsorted, numpy.isclose: f_isclose, numpy.meshgrid: f_meshgrid,
}


def f_ptp(a, axis=None, keepdims=False, **kw):
    _nokw("ptp", kw, ())
    return f_max(a, axis=axis, keepdims=keepdims) - f_min(a, axis=axis, keepdims=keepdims)


_FUNCS[numpy.ptp] = f_ptp


def _do_function(func, args, kwargs):
    h = _FUNCS.get(func)
    if h is not None:
        return h(*args, **kwargs)
    if func in _STRUCT:
        return _struct_call(func, args, kwargs)
    if func is numpy.shape:
        return raw(args[0]).shape
    if func is numpy.ndim:
        return raw(args[0]).ndim
    if func is numpy.size:
        return numpy.size(raw(args[0]), *args[1:], **kwargs)
    if func in (numpy.zeros_like, numpy.ones_like, numpy.empty_like, numpy.full_like):
        a = args[0]
        dt = kwargs.get("dtype") or (args[1] if len(args) > 1 and func is not numpy.full_like else None) or a.dtype
        shp = kwargs.get("shape") or a.shape
        if func is numpy.zeros_like:
            return PROXY.zeros(shp, dtype=dt)
        if func is numpy.ones_like:
            return PROXY.ones(shp, dtype=dt)
        if func is numpy.empty_like:
            return PROXY.empty(shp, dtype=dt)
        return PROXY.full(shp, args[1] if len(args) > 1 else kwargs["fill_value"], dtype=dt)
    if func is numpy.diag_indices_from:
        return numpy.diag_indices(raw(args[0]).shape[0], raw(args[0]).ndim)
    if func is numpy.may_share_memory or func is numpy.shares_memory:
        return func(*[raw(a) for a in args], **kwargs)
    if func is numpy.result_type:
        return numpy.result_type(*[a._vd if isinstance(a, SymArray) else a for a in args])
    if func is numpy.can_cast:
        return numpy.can_cast(*[a._vd if isinstance(a, SymArray) else a for a in args], **kwargs)
    if func is numpy.isscalar:
        return False
    if func is numpy.iscomplexobj:
        return False
    if func is numpy.isrealobj:
        return True
    if func is numpy.round or func is numpy.around:
        return args[0].round(*args[1:], **kwargs)
    if func is numpy.clip:
        return args[0].clip(*args[1:], **kwargs)
    if func is numpy.trace:
        return _sa(args[0]).trace(*args[1:], **kwargs)
    if func is numpy.array_equiv:
        return f_array_equal(*args)
    if func is numpy.copyto:
        dst, src = args[0], args[1]
        dst[...] = src
        return None
    if func is numpy.meshgrid or func is numpy.ix_:
        if not has_sym(list(args)):
            r = func(*[unbox(a) for a in args], **kwargs)
            return type(r)(r) if isinstance(r, tuple) else r
    if func is numpy.linalg.inv:
        from . import stubs
        return stubs.linalg_inv(args[0])
    if func is numpy.linalg.cholesky:
        from . import stubs
        return stubs.linalg_cholesky(args[0])
    if func is numpy.linalg.eigvals or func is numpy.linalg.eigvalsh:
        from . import stubs
        return stubs.linalg_eigvals(args[0])
    if func is numpy.linalg.det:
        from . import stubs
        return stubs.det(args[0])
    # everything concrete: real numpy on real dtypes
    if not has_sym(list(args)) and not has_sym(list(kwargs.values())):
        r = func(*[unbox(a) for a in args], **{k: unbox(v) for k, v in kwargs.items()})
        if isinstance(r, _nd) and r.ndim and r.dtype.kind in "fc":
            return box(r)
        return r
    raise EngineUnsupported("numpy function %s on symbolic arrays" % getattr(func, "__name__", func))


# --------------------------------------------------------------------------
# proxy module: creation functions return SymArrays
# --------------------------------------------------------------------------
class NumpyProxy:
    """stands in for the module-global name ``numpy`` inside pybrops modules"""

    def __init__(self):
        self.enabled = True
        self.empty_marks = False  # mark unwritten cells of numpy.empty buffers
        self.linalg = _LinalgProxy(self)
        self.random = numpy.random

    def __getattr__(self, name):
        return getattr(numpy, name)

    def _zero(self, dtype):
        dt = numpy.dtype(dtype)
        if dt.kind == "b":
            return False
        if dt.kind in "iu":
            return 0
        if dt.kind == "f":
            return 0.0
        if dt.kind == "U":
            return ""
        return None if dt == _OBJ else 0

    def _filled(self, shape, dtype, v):
        if isinstance(shape, SymArray):
            shape = tuple(operator.index(x) for x in raw(shape))
        if not isinstance(shape, tuple):
            try:
                shape = tuple(operator.index(s) for s in shape)
            except TypeError:
                shape = (operator.index(shape),)
        else:
            shape = tuple(operator.index(s) for s in shape)
        a = numpy.empty(shape, dtype=object)
        for ix in numpy.ndindex(*shape):
            a[ix] = v
        return SymArray(a, dtype)

    def empty(self, shape, dtype=float, order="C", **kw):
        if not self.enabled:
            r = numpy.empty(shape, dtype=dtype)
            # concrete replays: poison float buffers so that a cell that is never written is
            # observable (NaN) instead of whatever the allocator returned
            if r.dtype.kind == "f":
                r.fill(numpy.nan)
            return r
        if self.empty_marks:
            return self._filled(shape, dtype, UNWRITTEN)
        return self._filled(shape, dtype, self._zero(dtype))

    def zeros(self, shape, dtype=float, order="C", **kw):
        if not self.enabled:
            return numpy.zeros(shape, dtype=dtype)
        return self._filled(shape, dtype, self._zero(dtype))

    def ones(self, shape, dtype=float, order="C", **kw):
        if not self.enabled:
            return numpy.ones(shape, dtype=dtype)
        dt = numpy.dtype(dtype)
        return self._filled(shape, dtype, True if dt.kind == "b" else (1 if dt.kind in "iu" else 1.0))

    def full(self, shape, fill_value, dtype=None, order="C", **kw):
        if not self.enabled:
            return numpy.full(shape, fill_value, dtype=dtype)
        if isinstance(fill_value, SV):
            dt = numpy.dtype(dtype) if dtype is not None else (_BOOL if fill_value.is_bool else (_I64 if fill_value.is_int else _F64))
            v = fill_value
        else:
            dt = numpy.dtype(dtype) if dtype is not None else numpy.asarray(fill_value).dtype
            v = _pyify(numpy.asarray(fill_value).astype(dt)[()]) if dt != _OBJ else fill_value
        return self._filled(shape, dt, v)

    def arange(self, *a, **kw):
        if not self.enabled:
            return numpy.arange(*a, **kw)
        if not has_sym(list(a)):
            return box(numpy.arange(*a, **kw))
        a = [operator.index(x) if isinstance(x, SV) and x.is_int else x for x in a]
        if not has_sym(a):
            return box(numpy.arange(*a, **kw))
        # real-valued arange: numpy's documented length rule ceil((stop-start)/step),
        # values start + i*step
        if len(a) == 1:
            start, stop, step = 0.0, a[0], 1.0
        elif len(a) == 2:
            start, stop, step = a[0], a[1], 1.0
        else:
            start, stop, step = a[0], a[1], a[2]
        q = sym.sv_div(sym.to_real(stop) - sym.to_real(start), sym.to_real(step))
        if isinstance(q, float):
            raise EngineUnsupported("arange with non-finite length")
        n = sym.sv_ceil(q)
        if isinstance(n, SV):
            n = operator.index(sym.norm(z3.ToInt(n.e)))
        n = max(int(n), 0)
        cells = [sym.to_real(start) + i * sym.to_real(step) for i in range(n)]
        return SymArray(mkobj(cells), _F64)

    def linspace(self, start, stop, num=50, endpoint=True, **kw):
        if not self.enabled or not (has_sym(start) or has_sym(stop)):
            return numpy.linspace(start, stop, num, endpoint=endpoint, **kw)
        num = operator.index(num)
        div = (num - 1) if endpoint else num
        cells = []
        for i in range(num):
            if endpoint and i == num - 1 and num > 1:
                cells.append(sym.to_real(stop))
            else:
                step = sym.sv_div(sym.to_real(stop) - sym.to_real(start), float(div)) if div > 0 else 0.0
                cells.append(sym.to_real(start) + i * step)
        return SymArray(mkobj(cells), _F64)

    def array(self, obj, dtype=None, copy=True, **kw):
        if not self.enabled:
            return numpy.array(obj, dtype=dtype, copy=copy, **kw)
        if isinstance(obj, SymArray):
            r = SymArray(raw(obj).copy(), obj._vd)
            return _astype(r, numpy.dtype(dtype)) if dtype is not None and numpy.dtype(dtype) != r._vd else r
        if has_sym(obj) or any_symarray(obj):
            r = _sa(obj if isinstance(obj, (list, tuple)) else [obj])
            if not isinstance(obj, (list, tuple)):
                r = r.reshape(())
            return _astype(r, numpy.dtype(dtype)) if dtype is not None and numpy.dtype(dtype) != r._vd else r
        return numpy.array(obj, dtype=dtype, copy=copy, **kw)

    def asarray(self, obj, dtype=None, **kw):
        if not self.enabled:
            return numpy.asarray(obj, dtype=dtype, **kw)
        if isinstance(obj, SymArray):
            if dtype is None or numpy.dtype(dtype) == obj._vd:
                return obj
            return _astype(obj, numpy.dtype(dtype))
        if has_sym(obj) or any_symarray(obj):
            return self.array(obj, dtype=dtype)
        return numpy.asarray(obj, dtype=dtype, **kw)

    asanyarray = asarray

    def identity(self, n, dtype=float):
        return self.eye(n, dtype=dtype)

    def eye(self, n, M=None, k=0, dtype=float, **kw):
        if not self.enabled:
            return numpy.eye(n, M, k, dtype=dtype)
        return box(numpy.eye(n, M, k, dtype=dtype))

    def zeros_like(self, a, dtype=None, **kw):
        return self.zeros(numpy.shape(a), dtype=dtype or a.dtype)

    def ones_like(self, a, dtype=None, **kw):
        return self.ones(numpy.shape(a), dtype=dtype or a.dtype)

    def empty_like(self, a, dtype=None, **kw):
        return self.empty(numpy.shape(a), dtype=dtype or a.dtype)

    def full_like(self, a, fill_value, dtype=None, **kw):
        return self.full(numpy.shape(a), fill_value, dtype=dtype or a.dtype)

    # scalar-capable math entry points (numpy.exp(SV) has no array to dispatch on)
    def _scalar_or(self, name, fn, x, *a, **k):
        if isinstance(x, SV):
            return fn(x)
        return getattr(numpy, name)(x, *a, **k)

    def exp(self, x, *a, **k):
        return self._scalar_or("exp", sym.sv_exp, x, *a, **k)

    def log(self, x, *a, **k):
        return self._scalar_or("log", sym.sv_log, x, *a, **k)

    def sqrt(self, x, *a, **k):
        return self._scalar_or("sqrt", sym.sv_sqrt, x, *a, **k)

    def tanh(self, x, *a, **k):
        return self._scalar_or("tanh", sym.sv_tanh, x, *a, **k)

    def expm1(self, x, *a, **k):
        return self._scalar_or("expm1", lambda v: sym.sv_exp(v) - 1, x, *a, **k)

    def log1p(self, x, *a, **k):
        return self._scalar_or("log1p", lambda v: sym.sv_log(v + 1), x, *a, **k)

    def arctanh(self, x, *a, **k):
        return self._scalar_or("arctanh", sym.sv_arctanh, x, *a, **k)

    def absolute(self, x, *a, **k):
        return self._scalar_or("absolute", abs, x, *a, **k)

    abs = absolute

    def isnan(self, x, *a, **k):
        if isinstance(x, SV):
            return False
        return numpy.isnan(x, *a, **k)

    def isclose(self, a, b, rtol=1e-05, atol=1e-08, equal_nan=False):
        # scalar cells never reach __array_function__: |a - b| <= atol + rtol*|b| as numpy documents it
        if isinstance(a, SV) or isinstance(b, SV):
            return abs(a - b) <= (atol + rtol * abs(b))
        return numpy.isclose(a, b, rtol=rtol, atol=atol, equal_nan=equal_nan)

    def floor(self, x, *a, **k):
        return self._scalar_or("floor", sym.sv_floor, x, *a, **k)

    def ceil(self, x, *a, **k):
        return self._scalar_or("ceil", sym.sv_ceil, x, *a, **k)

    def where(self, *a, **k):
        if len(a) == 3 and not any(isinstance(x, SymArray) for x in a) and has_sym(list(a)):
            return f_where(*a)
        return numpy.where(*a, **k)

    def sum(self, a, *args, **k):
        if isinstance(a, (list, tuple)) and has_sym(a):
            return f_sum(_sa(a), *args, **k)
        return numpy.sum(a, *args, **k)

    def in1d(self, a, b, **k):
        r = numpy.isin(a, b, **k)
        return r.ravel()

    def float_(self, x=0.0):
        return numpy.float64(x)

    def stack(self, arrays, *a, **k):
        if any_symarray(arrays):
            return _struct_call(numpy.stack, (list(arrays),) + a, k)
        return numpy.stack(arrays, *a, **k)

    def concatenate(self, arrays, *a, **k):
        if any_symarray(arrays):
            return _struct_call(numpy.concatenate, (list(arrays),) + a, k)
        return numpy.concatenate(arrays, *a, **k)

    def lexsort(self, keys, axis=-1):
        if any_symarray(keys):
            return f_lexsort(keys, axis)
        return numpy.lexsort(keys, axis)


class _LinalgProxy:
    def __init__(self, p):
        self._p = p

    def __getattr__(self, name):
        return getattr(numpy.linalg, name)


class _Unwritten:
    """marker for cells of numpy.empty buffers that were never assigned"""
    def __repr__(self):
        return "UNWRITTEN"

    def _bad(self, *a, **k):
        raise UnwrittenRead("value of an uninitialised numpy.empty cell was used")
    __add__ = __radd__ = __sub__ = __rsub__ = __mul__ = __rmul__ = __truediv__ = __rtruediv__ = _bad
    __lt__ = __le__ = __gt__ = __ge__ = __neg__ = __abs__ = __float__ = __int__ = __index__ = __bool__ = _bad


class UnwrittenRead(Exception):
    pass


UNWRITTEN = _Unwritten()
PROXY = NumpyProxy()


def install_proxy(prefix="pybrops"):
    """rebind the module-global names numpy/np of all loaded pybrops modules"""
    import sys
    n = 0
    for name, mod in list(sys.modules.items()):
        if mod is None or not (name == prefix or name.startswith(prefix + ".")):
            continue
        d = getattr(mod, "__dict__", None)
        if d is None:
            continue
        for key in ("numpy", "np"):
            if d.get(key) is numpy:
                d[key] = PROXY
                n += 1
    return n
