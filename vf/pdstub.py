"""
Contract model of the small part of pandas the analysed code uses (DataFrame construction, column selection,
to_numpy, concat, groupby(...).agg(mean/first), sort_values, row iteration helpers).  Cells may be solver terms.
Labels that drive grouping / joins must be concrete (they are strings or small ints in the harnesses).
In validation / replay mode the real pandas is used, so every modelled operation is cross-checked against it.
"""
import numpy

from . import symnp, sym
from .sym import SV, EngineUnsupported
from .symnp import SymArray, raw


def _col(v, n=None):
    if v is None:
        if n is None:
            raise EngineUnsupported("None column without a known length")
        a = numpy.empty(n, dtype=object)
        a[:] = None
        return a
    if isinstance(v, Series):
        return v.values
    if isinstance(v, (SymArray, numpy.ndarray)):
        if v.ndim != 1:
            raise EngineUnsupported("column must be 1-D")
        return v
    if isinstance(v, (list, tuple)):
        if any(isinstance(c, SV) for c in v):
            return symnp._sa(list(v))
        return numpy.array(v, dtype=object) if any(isinstance(c, str) or c is None for c in v) else numpy.array(v)
    if n is None:
        raise EngineUnsupported("scalar column without a known length")
    a = numpy.empty(n, dtype=object if isinstance(v, (str, SV)) else None)
    a[:] = v
    return a


def _engine_array(v):
    """arrays handed to the analysed code are of the engine's array type (so that index arrays built by the library can index them)"""
    if isinstance(v, numpy.ndarray) and not isinstance(v, SymArray) and symnp.PROXY is not None and symnp.PROXY.enabled:
        return symnp.box(v)
    return v


def _is_missing(x):
    if x is None:
        return True
    if isinstance(x, SV):
        return False
    try:
        return bool(x != x)
    except Exception:
        return False


class Index:
    def __init__(self, names):
        self._n = list(names)

    def __iter__(self):
        return iter(self._n)

    def __len__(self):
        return len(self._n)

    def __contains__(self, x):
        return x in self._n

    def __getitem__(self, i):
        if isinstance(i, numpy.ndarray):
            ii = symnp.unbox(i) if isinstance(i, SymArray) else i
            if ii.dtype == bool:
                return Index([n for n, b in zip(self._n, ii) if b])
            return Index([self._n[int(k)] for k in ii])
        r = self._n[i]
        return Index(r) if isinstance(r, list) else r

    def astype(self, dt):
        return Index([dt(n) for n in self._n]) if dt is str else self

    def tolist(self):
        return list(self._n)

    to_list = tolist

    def get_loc(self, x):
        return self._n.index(x)

    def to_numpy(self, dtype=None):
        return numpy.array(self._n, dtype=dtype or object)

    def __eq__(self, o):
        return numpy.array([a == b for a, b in zip(self._n, list(o))])

    def __repr__(self):
        return "Index(%r)" % (self._n,)


class Series:
    def __init__(self, values, name=None):
        self.values = _col(values)
        self.name = name

    def to_numpy(self, dtype=None, copy=False):
        v = self.values
        if dtype is not None:
            v = v.astype(dtype)
        elif copy:
            v = v.copy()
        return _engine_array(v)

    def __len__(self):
        return len(self.values)

    def __iter__(self):
        return iter(self.values)

    def __getitem__(self, i):
        return self.values[i]

    def astype(self, dt):
        return Series(self.values.astype(dt), self.name)

    def unique(self):
        seen, out = set(), []
        for v in self.values:
            if isinstance(v, SV):
                raise EngineUnsupported("unique() on symbolic labels")
            if v not in seen:
                seen.add(v)
                out.append(v)
        return numpy.array(out, dtype=self.values.dtype)

    def isna(self):
        return Series(numpy.array([_is_missing(v) for v in self.values]))

    def all(self):
        return all(bool(v) for v in self.values)

    def any(self):
        return any(bool(v) for v in self.values)

    @property
    def dtype(self):
        return getattr(self.values, "vdtype", self.values.dtype)


class _ILoc:
    def __init__(self, df):
        self.df = df

    def __getitem__(self, key):
        df = self.df
        if isinstance(key, tuple):
            rk, ck = key
        else:
            rk, ck = key, slice(None)
        names = df._names
        if isinstance(ck, (int, numpy.integer)):
            col = df._cols[names[int(ck)]]
            return Series(col[rk], names[int(ck)]) if not isinstance(rk, (int, numpy.integer)) else col[int(rk)]
        if isinstance(ck, numpy.ndarray):
            ck = symnp.unbox(ck) if isinstance(ck, SymArray) else ck
            if ck.dtype == bool:
                ck = [i for i, b in enumerate(ck) if b]
        sel = names[ck] if isinstance(ck, slice) else [names[int(i)] for i in ck]
        if isinstance(rk, (int, numpy.integer)):
            raise EngineUnsupported("iloc row scalar")
        return DataFrame({nm: df._cols[nm][rk] for nm in sel})


class _FrameMeta(type):
    def __instancecheck__(cls, inst):
        if type.__instancecheck__(cls, inst):
            return True
        import pandas
        return cls.__name__ == "DataFrame" and isinstance(inst, pandas.DataFrame)


class DataFrame(metaclass=_FrameMeta):
    def __init__(self, data=None, columns=None, index=None, dtype=None):
        self._names, self._cols = [], {}
        if data is None:
            data = {}
        if isinstance(data, DataFrame):
            data = dict(data._cols)
        if isinstance(data, dict):
            n = None
            for v in data.values():
                if isinstance(v, (SymArray, numpy.ndarray, list, tuple, Series)):
                    n = len(v)
                    break
            for k, v in data.items():
                self._names.append(k)
                self._cols[k] = _col(v, n)
            if columns is not None:
                self._names = [c for c in columns]
                self._cols = {c: self._cols[c] for c in self._names}
        else:
            arr = data if isinstance(data, (SymArray, numpy.ndarray)) else numpy.array(data)
            if arr.ndim == 1:
                arr = arr.reshape(-1, 1)
            names = list(columns) if columns is not None else list(range(arr.shape[1]))
            if len(names) != arr.shape[1]:
                raise ValueError("Shape of passed values is %s, indices imply (%d, %d)" % (arr.shape, arr.shape[0], len(names)))
            for j, nm in enumerate(names):
                self._names.append(nm)
                self._cols[nm] = arr[:, j]
        ls = {len(c) for c in self._cols.values()}
        if len(ls) > 1:
            raise ValueError("All arrays must be of the same length")

    # ---- basic protocol
    @property
    def columns(self):
        return Index(self._names)

    @columns.setter
    def columns(self, names):
        names = list(names)
        if len(names) != len(self._names):
            raise ValueError("Length mismatch")
        self._cols = {n: self._cols[o] for n, o in zip(names, self._names)}
        self._names = names

    @property
    def shape(self):
        return (len(self), len(self._names))

    @property
    def iloc(self):
        return _ILoc(self)

    @property
    def index(self):
        return numpy.arange(len(self))

    def __len__(self):
        return len(next(iter(self._cols.values()))) if self._cols else 0

    def __contains__(self, k):
        return k in self._cols

    def __getitem__(self, k):
        if isinstance(k, (list, tuple, numpy.ndarray, Index)) and not isinstance(k, str):
            ks = list(k)
            if ks and all(isinstance(b, (bool, numpy.bool_)) for b in ks) and len(ks) == len(self):
                m = numpy.array(ks, dtype=bool)
                return DataFrame({n: self._cols[n][m] for n in self._names})
            for c in ks:
                if c not in self._cols:
                    raise KeyError(c)
            return DataFrame({c: self._cols[c] for c in ks})
        if isinstance(k, Series):
            m = numpy.array([bool(b) for b in k.values], dtype=bool)
            return DataFrame({n: self._cols[n][m] for n in self._names})
        if k not in self._cols:
            raise KeyError(k)
        return Series(self._cols[k], k)

    def __setitem__(self, k, v):
        if k not in self._cols:
            self._names.append(k)
        self._cols[k] = _col(v, len(self) if self._cols else None)

    def copy(self, deep=True):
        return DataFrame({n: self._cols[n].copy() for n in self._names})

    def to_numpy(self, dtype=None, copy=False):
        cols = [self._cols[n] for n in self._names]
        if not cols:
            return numpy.empty((0, 0))
        if any(isinstance(c, SymArray) for c in cols):
            out = numpy.empty((len(self), len(cols)), dtype=object)
            for j, c in enumerate(cols):
                out[:, j] = raw(c) if isinstance(c, SymArray) else c
            vd = numpy.dtype(dtype) if dtype is not None else numpy.result_type(*[getattr(c, "vdtype", c.dtype) for c in cols])
            return SymArray(out, vd)
        out = numpy.stack([numpy.asarray(c) for c in cols], axis=1) if len({c.dtype for c in cols}) == 1 else numpy.stack([numpy.asarray(c, dtype=object) for c in cols], axis=1)
        if dtype is not None:
            out = out.astype(dtype)
        return _engine_array(out)

    @property
    def values(self):
        return self.to_numpy()

    def rename(self, columns=None, **kw):
        m = columns or {}
        return DataFrame({m.get(n, n): self._cols[n] for n in self._names})

    def drop(self, columns=None, **kw):
        dr = [columns] if isinstance(columns, str) else list(columns)
        return DataFrame({n: self._cols[n] for n in self._names if n not in dr})

    def sort_values(self, by, ascending=True, **kw):
        by = [by] if isinstance(by, str) else list(by)
        keys = list(zip(*[list(self._cols[b]) for b in by]))
        if any(isinstance(x, SV) for k in keys for x in k):
            raise EngineUnsupported("sort_values on symbolic keys")
        order = sorted(range(len(keys)), key=lambda i: keys[i], reverse=not ascending)
        ix = numpy.array(order, dtype=int)
        return DataFrame({n: self._cols[n][ix] for n in self._names})

    def reset_index(self, drop=False, **kw):
        return self

    def groupby(self, by, as_index=True, sort=True, dropna=True, **kw):
        return _GroupBy(self, [by] if isinstance(by, str) else list(by), as_index, sort, dropna)

    def to_csv(self, path_or_buf=None, sep=",", header=True, index=True, **kw):
        """contract: a CSV file written with a header line and read back with the same separator reproduces the column names and the cell
        values (numbers as numbers, text as text); float formatting / parsing is outside the model"""
        if not isinstance(path_or_buf, str):
            raise EngineUnsupported("to_csv to a buffer")
        if header is not True:
            raise EngineUnsupported("to_csv(header=%r)" % (header,))
        CSV_STORE[path_or_buf] = (self.copy(), sep, bool(index))

    def itertuples(self, index=True):
        for i in range(len(self)):
            yield ((i,) if index else ()) + tuple(self._cols[n][i] for n in self._names)

    def __repr__(self):
        return "SymFrame(%s x %s)" % (len(self), self._names)


class _GroupBy:
    def __init__(self, df, by, as_index, sort, dropna):
        self.df, self.by, self.as_index, self.sort, self.dropna = df, by, as_index, sort, dropna
        for b in by:
            if b not in df._cols:
                raise KeyError(b)

    def _groups(self):
        df = self.df
        keys = list(zip(*[list(df._cols[b]) for b in self.by]))
        groups = {}
        order = []
        for i, k in enumerate(keys):
            if any(isinstance(x, SV) for x in k):
                raise EngineUnsupported("groupby on symbolic keys")
            if self.dropna and any(_is_missing(x) for x in k):
                continue
            if k not in groups:
                groups[k] = []
                order.append(k)
            groups[k].append(i)
        if self.sort:
            order = sorted(order)
        return order, groups

    def agg(self, spec):
        order, groups = self._groups()
        out = {}
        for j, b in enumerate(self.by):
            src = self.df._cols[b]
            out[b] = numpy.array([k[j] for k in order], dtype=getattr(src, "vdtype", src.dtype)) if order else src[:0]
        for col, how in spec.items():
            src = self.df._cols[col]
            vals = []
            for k in order:
                cells = [src[i] for i in groups[k]]
                if how == "mean":
                    cells = [c for c in cells if not _is_missing(c)]
                    if not cells:
                        vals.append(float("nan"))
                        continue
                    tot = cells[0]
                    for c in cells[1:]:
                        tot = tot + c
                    vals.append(tot / len(cells))
                elif how == "first":
                    vals.append(cells[0])
                elif how == "sum":
                    tot = cells[0]
                    for c in cells[1:]:
                        tot = tot + c
                    vals.append(tot)
                else:
                    raise EngineUnsupported("agg %s" % how)
            out[col] = symnp._sa(vals) if any(isinstance(v, SV) for v in vals) else numpy.array(vals, dtype=float if how != "first" else None)
        if self.as_index:
            raise EngineUnsupported("groupby(as_index=True)")
        return DataFrame(out)

    def mean(self):
        cols = [n for n in self.df._names if n not in self.by]
        return self.agg({c: "mean" for c in cols})


def concat(objs, axis=0, ignore_index=False, **kw):
    objs = list(objs)
    if axis in (1, "columns"):
        n = {len(o) for o in objs}
        if len(n) > 1:
            raise EngineUnsupported("concat(axis=1) of frames with different lengths")
        out = DataFrame()
        for o in objs:
            for nm in o._names:
                if nm in out._cols:
                    raise EngineUnsupported("concat(axis=1) duplicate column %s" % nm)
                out._names.append(nm)
                out._cols[nm] = o._cols[nm]
        return out
    names = objs[0]._names
    for o in objs:
        if o._names != names:
            raise EngineUnsupported("concat(axis=0) with different columns")
    return DataFrame({nm: numpy.concatenate([o._cols[nm] for o in objs]) for nm in names})


CSV_STORE = {}


def read_csv(path, sep=",", header="infer", **kw):
    if path not in CSV_STORE:
        raise FileNotFoundError(path)
    df, sep0, index = CSV_STORE[path]
    if sep != sep0:
        raise EngineUnsupported("read_csv with another separator than the file was written with")
    if header not in (0, "infer"):
        raise EngineUnsupported("read_csv(header=%r)" % (header,))
    out = df.copy()
    if index:
        new = DataFrame({"Unnamed: 0": numpy.arange(len(df))})
        return concat([new, out], axis=1)
    return out


class _Module:
    NA = None
    read_csv = staticmethod(read_csv)
    DataFrame = DataFrame
    Series = Series
    Index = Index
    concat = staticmethod(concat)

    @staticmethod
    def isna(x):
        return _is_missing(x)

    def __getattr__(self, name):
        raise EngineUnsupported("pandas stub has no %s" % name)


MODULE = _Module()


def install(on, *modnames):
    """bind the module-global name `pandas` of the named (loaded) pybrops modules to the stub (on) or to real pandas"""
    import sys
    import pandas
    for nm in modnames:
        mod = sys.modules.get(nm)
        if mod is not None and hasattr(mod, "pandas"):
            mod.pandas = MODULE if on else pandas
        if mod is not None and getattr(mod, "DataFrame", None) in (pandas.DataFrame, DataFrame):
            mod.DataFrame = DataFrame if on else pandas.DataFrame
