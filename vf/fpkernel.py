"""
fp64 kernels: translate the straight-line arithmetic of a real pybrops function (taken from
its current source with inspect/ast on every run) into z3 FloatingPoint(11,53) terms with
round-to-nearest-even, integers as 32-bit bit-vectors converted with to_fp.

Arrays are represented by one representative element (all translated operations are
element-wise); reductions such as ``self._mat.sum(axis)`` are environment inputs supplied by
the obligation (a symbolic allele count).
"""
import ast
import inspect
import textwrap
import time

import z3

F64 = z3.Float64()
RNE = z3.RNE()
BVW = 32


class KernelUnsupported(Exception):
    pass


class FPv:
    def __init__(self, t):
        self.t = t


class Iv:
    def __init__(self, t):
        self.t = t       # BitVec(32), signed, caller guarantees no overflow


class Bv:
    def __init__(self, t):
        self.t = t


class Arange:
    """numpy.arange result: only its length and element formula are modelled"""
    def __init__(self, length, elem=None):
        self.length = length     # Iv
        self.elem = elem


def fpc(x):
    return FPv(z3.FPVal(float(x), F64))


def ic(x):
    return Iv(z3.BitVecVal(int(x), BVW))


def to_fp(v):
    if isinstance(v, FPv):
        return v.t
    if isinstance(v, Iv):
        return z3.fpSignedToFP(RNE, v.t, F64)
    if isinstance(v, Bv):
        return z3.If(v.t, z3.FPVal(1.0, F64), z3.FPVal(0.0, F64))
    if isinstance(v, bool):
        return z3.FPVal(1.0 if v else 0.0, F64)
    if isinstance(v, (int, float)):
        return z3.FPVal(float(v), F64)
    raise KernelUnsupported("to_fp %r" % (v,))


def lit(v):
    if isinstance(v, bool):
        return Bv(z3.BoolVal(v))
    if isinstance(v, int):
        return ic(v)
    if isinstance(v, float):
        return fpc(v)
    return v


class Kernel:
    def __init__(self, fn, env=None, call_env=None, consts=None, hook=None):
        self.fn = fn
        self.hook = hook
        src = textwrap.dedent(inspect.getsource(fn))
        self.tree = ast.parse(src).body[0]
        self.env = dict(env or {})          # python names -> values
        self.expr_env = dict(call_env or {})  # ast.unparse(expr) -> value (attributes, calls)
        self.consts = dict(consts or {})    # names bound to plain python objects (None, ints ...)
        self.result = None
        self.side = []                      # side conditions (e.g. no overflow)
        self.lineno = self.tree.lineno
        self.assigned = []

    # ---------------- expressions
    def ev(self, node):
        key = ast.unparse(node)
        if key in self.expr_env:
            return self.expr_env[key]
        if self.hook is not None:
            r = self.hook(node, key)
            if r is not None:
                return r
        if isinstance(node, ast.Constant):
            if node.value is None:
                return None
            return lit(node.value)
        if isinstance(node, ast.Name):
            if node.id in self.env:
                return self.env[node.id]
            if node.id in self.consts:
                return lit(self.consts[node.id]) if isinstance(self.consts[node.id], (bool, int, float)) else self.consts[node.id]
            raise KernelUnsupported("unbound name %s" % node.id)
        if isinstance(node, ast.BinOp):
            a = self.ev(node.left)
            b = self.ev(node.right)
            return self.binop(node.op, a, b)
        if isinstance(node, ast.UnaryOp):
            a = self.ev(node.operand)
            if isinstance(node.op, ast.USub):
                if isinstance(a, FPv):
                    return FPv(z3.fpNeg(a.t))
                if isinstance(a, Iv):
                    return Iv(-a.t)
            if isinstance(node.op, ast.Not) and isinstance(a, Bv):
                return Bv(z3.Not(a.t))
            if isinstance(node.op, ast.Invert) and isinstance(a, Bv):
                return Bv(z3.Not(a.t))
            raise KernelUnsupported("unary %s" % key)
        if isinstance(node, ast.Compare):
            if len(node.ops) != 1:
                raise KernelUnsupported("chained compare")
            a = self.ev(node.left)
            b = self.ev(node.comparators[0])
            return self.compare(node.ops[0], a, b)
        if isinstance(node, ast.BoolOp):
            vs = [self.ev(v) for v in node.values]
            if all(isinstance(v, Bv) for v in vs):
                f = z3.And if isinstance(node.op, ast.And) else z3.Or
                return Bv(f(*[v.t for v in vs]))
            raise KernelUnsupported("boolop on non-bools")
        if isinstance(node, ast.Call):
            fname = ast.unparse(node.func)
            if fname in ("numpy.arange", "np.arange"):
                args = [self.ev(a) for a in node.args]
                return self.arange(args)
            if fname in ("numpy.logical_not",):
                a = self.ev(node.args[0])
                return Bv(z3.Not(a.t))
            if fname in ("numpy.logical_and", "numpy.logical_or"):
                a, b = self.ev(node.args[0]), self.ev(node.args[1])
                return Bv((z3.And if fname.endswith("and") else z3.Or)(a.t, b.t))
            if fname in ("numpy.where", "np.where") and len(node.args) == 3:
                c_, a, b = [self.ev(x) for x in node.args]
                if isinstance(a, Bv) and isinstance(b, Bv):
                    return Bv(z3.If(c_.t, a.t, b.t))
                return FPv(z3.If(c_.t, to_fp(a), to_fp(b)))
            if fname in ("numpy.isclose", "np.isclose"):
                a, b = [to_fp(self.ev(x)) for x in node.args[:2]]
                kw = {k.arg: self.ev(k.value) for k in node.keywords}
                rtol = to_fp(kw.get("rtol", 1e-05)) if "rtol" in kw else z3.FPVal(1e-05, F64)
                atol = to_fp(kw.get("atol", 1e-08)) if "atol" in kw else z3.FPVal(1e-08, F64)
                lhs = z3.fpAbs(z3.fpSub(RNE, a, b))
                rhs = z3.fpAdd(RNE, atol, z3.fpMul(RNE, rtol, z3.fpAbs(b)))
                return Bv(z3.fpLEQ(lhs, rhs))
            if fname in ("float", "numpy.float64"):
                return FPv(to_fp(self.ev(node.args[0])))
            if fname == "len":
                a = self.ev(node.args[0])
                if isinstance(a, Arange):
                    return a.length
            raise KernelUnsupported("call %s" % key)
        if isinstance(node, ast.Subscript):
            # a[mask] read inside a masked assignment is handled by the statement
            raise KernelUnsupported("subscript %s" % key)
        if isinstance(node, ast.Attribute):
            raise KernelUnsupported("attribute %s not provided by the obligation" % key)
        if isinstance(node, ast.Tuple):
            return tuple(self.ev(e) for e in node.elts)
        raise KernelUnsupported("expression %s" % key)

    def binop(self, op, a, b):
        if isinstance(a, Arange) or isinstance(b, Arange):
            # scalar (+|*) arange : same length
            ar = a if isinstance(a, Arange) else b
            return Arange(ar.length)
        if isinstance(op, (ast.BitAnd, ast.BitOr)) and isinstance(a, Bv) and isinstance(b, Bv):
            return Bv(z3.And(a.t, b.t) if isinstance(op, ast.BitAnd) else z3.Or(a.t, b.t))
        if isinstance(a, Iv) and isinstance(b, Iv) and not isinstance(op, ast.Div):
            if isinstance(op, ast.Add):
                return Iv(a.t + b.t)
            if isinstance(op, ast.Sub):
                return Iv(a.t - b.t)
            if isinstance(op, ast.Mult):
                return Iv(a.t * b.t)
            raise KernelUnsupported("int op %s" % op)
        x, y = to_fp(a), to_fp(b)
        if isinstance(op, ast.Add):
            return FPv(z3.fpAdd(RNE, x, y))
        if isinstance(op, ast.Sub):
            return FPv(z3.fpSub(RNE, x, y))
        if isinstance(op, ast.Mult):
            return FPv(z3.fpMul(RNE, x, y))
        if isinstance(op, ast.Div):
            return FPv(z3.fpDiv(RNE, x, y))
        raise KernelUnsupported("binop %s" % op)

    def compare(self, op, a, b):
        if a is None or b is None:
            if isinstance(op, ast.Is):
                return Bv(z3.BoolVal(a is b))
            if isinstance(op, ast.IsNot):
                return Bv(z3.BoolVal(a is not b))
        if isinstance(a, Iv) and isinstance(b, Iv):
            m = {ast.Lt: lambda p, q: p < q, ast.LtE: lambda p, q: p <= q, ast.Gt: lambda p, q: p > q,
                 ast.GtE: lambda p, q: p >= q, ast.Eq: lambda p, q: p == q, ast.NotEq: lambda p, q: p != q}
            return Bv(m[type(op)](a.t, b.t))
        x, y = to_fp(a), to_fp(b)
        m = {ast.Lt: z3.fpLT, ast.LtE: z3.fpLEQ, ast.Gt: z3.fpGT, ast.GtE: z3.fpGEQ, ast.Eq: z3.fpEQ,
             ast.NotEq: z3.fpNEQ}
        if type(op) not in m:
            raise KernelUnsupported("compare op")
        return Bv(m[type(op)](x, y))

    def arange(self, args):
        """numpy's documented length rule for float arange: ceil((stop - start)/step), computed in double"""
        if len(args) == 1:
            if isinstance(args[0], Iv):
                return Arange(args[0])
            start, stop, step = fpc(0.0), args[0], fpc(1.0)
        elif len(args) == 2:
            start, stop, step = args[0], args[1], fpc(1.0)
        else:
            start, stop, step = args
        q = z3.fpDiv(RNE, z3.fpSub(RNE, to_fp(stop), to_fp(start)), to_fp(step))
        n = z3.fpRoundToIntegral(z3.RTP(), q)
        return Arange(FPv(n))

    # ---------------- statements
    def run(self):
        self.exec_block(self.tree.body)
        return self.result

    def exec_block(self, stmts):
        for st in stmts:
            if self.result is not None:
                return
            self.exec_stmt(st)

    def exec_stmt(self, st):
        if isinstance(st, ast.Expr) and isinstance(st.value, ast.Constant):
            return  # docstring
        if isinstance(st, ast.Assign):
            if len(st.targets) != 1:
                raise KernelUnsupported("multi-assign")
            tgt = st.targets[0]
            if isinstance(tgt, ast.Name):
                self.env[tgt.id] = self.ev(st.value)
                self.assigned.append(tgt.id)
                return
            if isinstance(tgt, ast.Subscript) and isinstance(tgt.value, ast.Name) and isinstance(tgt.slice, ast.Name):
                # a[mask] = f(a[mask])  ->  a = ite(mask, f(a), a)
                a, m = tgt.value.id, tgt.slice.id
                mask = self.env[m]
                if not isinstance(mask, Bv):
                    raise KernelUnsupported("masked assign with non-bool mask")
                key = ast.unparse(tgt)
                saved = self.expr_env.get(key)
                self.expr_env[key] = self.env[a]
                try:
                    val = self.ev(st.value)
                finally:
                    if saved is None:
                        self.expr_env.pop(key, None)
                    else:
                        self.expr_env[key] = saved
                old = self.env[a]
                self.env[a] = FPv(z3.If(mask.t, to_fp(val), to_fp(old)))
                return
            raise KernelUnsupported("assign target %s" % ast.unparse(tgt))
        if isinstance(st, ast.AugAssign) and isinstance(st.target, ast.Name):
            self.env[st.target.id] = self.binop(st.op, self.env[st.target.id], self.ev(st.value))
            return
        if isinstance(st, ast.If):
            c = self.ev(st.test)
            if isinstance(c, Bv):
                s = z3.simplify(c.t)
                if z3.is_true(s):
                    return self.exec_block(st.body)
                if z3.is_false(s):
                    return self.exec_block(st.orelse)
            raise KernelUnsupported("data-dependent if: %s" % ast.unparse(st.test))
        if isinstance(st, ast.Return):
            self.result = self.ev(st.value) if st.value is not None else None
            return
        raise KernelUnsupported("statement %s" % ast.unparse(st)[:80])


def solve(constraints, timeout_s):
    s = z3.Solver()
    s.set("timeout", int(timeout_s * 1000))
    s.add(*constraints)
    t0 = time.time()
    r = s.check()
    dt = time.time() - t0
    return str(r), (s.model() if r == z3.sat else None), dt
