"""
Contract model of h5py.File as the analysed code uses it: a path-keyed store of datasets with groups implied by path
prefixes.  Modelled (probed against h5py 3.16 in this image, see DESIGN): create_dataset refuses an existing name,
object arrays must consist of str/bytes and come back as bytes objects, str scalars come back as bytes, python
ints/floats come back as numpy int64/float64 scalars, unicode ('U') arrays are refused, `name in file` is true for
datasets and for (implied) groups with or without a trailing slash, `del file[name]` removes a dataset or a whole
group, reading returns a copy.  Cells of numeric datasets may be solver terms.
"""
import numpy

from .sym import SV, EngineUnsupported
from .symnp import SymArray, raw
from . import symnp


def _norm(path):
    if not isinstance(path, str):
        raise TypeError("path must be str")
    return "/".join(p for p in path.split("/") if p)


def _freeze(data):
    if isinstance(data, SymArray):
        vd = data.dtype
        if vd == object:
            return _freeze_obj(raw(data))
        if vd.kind == "U":
            raise TypeError("No conversion path for dtype: %r" % (vd,))
        return data.copy()
    if isinstance(data, numpy.ndarray):
        if data.dtype == object:
            return _freeze_obj(data)
        if data.dtype.kind == "U":
            raise TypeError("No conversion path for dtype: %r" % (data.dtype,))
        return data.copy()
    if isinstance(data, SV):
        return data
    if isinstance(data, str):
        return data.encode("utf-8")
    if isinstance(data, bytes):
        return data
    if isinstance(data, (bool, numpy.bool_)):
        return numpy.bool_(data)
    if isinstance(data, (int, numpy.integer)):
        return numpy.int64(data) if not isinstance(data, numpy.integer) else data
    if isinstance(data, (float, numpy.floating)):
        return numpy.float64(data)
    raise TypeError("Object dtype %r has no native HDF5 equivalent" % type(data))


def _freeze_obj(a):
    out = numpy.empty(a.shape, dtype=object)
    for ix in numpy.ndindex(*a.shape):
        v = a[ix]
        if isinstance(v, str):
            out[ix] = v.encode("utf-8")
        elif isinstance(v, bytes):
            out[ix] = v
        else:
            raise TypeError("Object dtype dtype('O') has no native HDF5 equivalent")
    return out


class Dataset:
    def __init__(self, store, key):
        self._s, self._k = store, key

    @property
    def _v(self):
        return self._s[self._k]

    def __getitem__(self, key):
        v = self._v
        if isinstance(key, tuple) and key == ():
            return v.copy() if isinstance(v, numpy.ndarray) else v
        if key is Ellipsis:
            return v.copy() if isinstance(v, numpy.ndarray) else v
        return v[key]

    def __setitem__(self, key, value):
        """in-place write: the dataset keeps its shape and dtype, the values are cast to the stored dtype (h5py semantics)"""
        v = self._v
        if not (key is Ellipsis or (isinstance(key, tuple) and key == ()) or key == slice(None)):
            raise EngineUnsupported("partial dataset assignment")
        if not isinstance(v, numpy.ndarray):
            if isinstance(v, bytes):
                self._s[self._k] = _freeze(value)
            else:
                self._s[self._k] = type(v)(value) if not isinstance(value, SV) else value
            return
        new = _freeze(value if isinstance(value, numpy.ndarray) else numpy.asarray(value))
        if tuple(new.shape) != tuple(v.shape):
            raise TypeError("Can't broadcast %s -> %s" % (new.shape, v.shape))
        if v.dtype == object or new.dtype == object:
            self._s[self._k] = new
        else:
            self._s[self._k] = new.astype(v.dtype)

    @property
    def shape(self):
        return getattr(self._v, "shape", ())

    @property
    def dtype(self):
        return getattr(self._v, "dtype", None)


class Group:
    def __init__(self, f, prefix):
        self._f, self._p = f, prefix

    def keys(self):
        pre = self._p + "/" if self._p else ""
        seen = []
        for k in self._f._d:
            if k.startswith(pre):
                head = k[len(pre):].split("/")[0]
                if head not in seen:
                    seen.append(head)
        return sorted(seen)

    def __iter__(self):
        return iter(self.keys())

    def __getitem__(self, name):
        return self._f[(self._p + "/" if self._p else "") + name]

    def __contains__(self, name):
        return ((self._p + "/" if self._p else "") + name) in self._f


class File(Group):
    def __init__(self, name="<memory>", mode="a", **kw):
        self._d = {}
        self.filename = name
        self._mode = "r" if mode == "r" else "r+"
        self._open = True
        Group.__init__(self, self, "")

    @property
    def file(self):
        return self

    @property
    def mode(self):
        return self._mode

    def reopen(self, mode):
        """the same store seen through a handle opened with another mode"""
        g = File(self.filename, mode)
        g._d = self._d
        return g

    def _is_group(self, n):
        return n == "" or any(k.startswith(n + "/") for k in self._d)

    def __contains__(self, name):
        n = _norm(name)
        return n in self._d or self._is_group(n)

    def __getitem__(self, name):
        n = _norm(name)
        if n in self._d:
            return Dataset(self._d, n)
        if self._is_group(n):
            return Group(self, n)
        raise KeyError("Unable to synchronously open object (object '%s' doesn't exist)" % name)

    def __delitem__(self, name):
        n = _norm(name)
        if n in self._d:
            del self._d[n]
            return
        if self._is_group(n) and n:
            for k in [k for k in self._d if k.startswith(n + "/")]:
                del self._d[k]
            return
        raise KeyError("Couldn't delete link (name doesn't exist)")

    def create_dataset(self, name, shape=None, dtype=None, data=None, **kw):
        if self._mode == "r":
            raise ValueError("Unable to create dataset (no write intent on file)")
        n = _norm(name)
        if n in self._d or self._is_group(n):
            raise ValueError("Unable to synchronously create dataset (name already exists)")
        parts = n.split("/")
        for i in range(1, len(parts)):
            if "/".join(parts[:i]) in self._d:
                raise ValueError("Unable to create dataset (component not a group)")
        self._d[n] = _freeze(data)
        return Dataset(self._d, n)

    def create_group(self, name):
        raise EngineUnsupported("create_group")

    def close(self):
        self._open = False

    def __enter__(self):
        return self

    def __exit__(self, *a):
        self.close()
        return False


class _Module:
    File = File
    Group = Group
    Dataset = Dataset

    def __getattr__(self, name):
        raise EngineUnsupported("h5py stub has no %s" % name)


MODULE = _Module()


def install(on):
    """bind the module-global name h5py of every loaded pybrops module to the stub (on) or to the real h5py"""
    import sys
    import h5py
    for nm, mod in list(sys.modules.items()):
        if mod is None or not (nm == "pybrops" or nm.startswith("pybrops.")):
            continue
        cur = getattr(mod, "h5py", None)
        if cur is h5py or cur is MODULE:
            mod.h5py = MODULE if on else h5py
