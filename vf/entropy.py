"""
Symbolic entropy environment (C08).

Every pseudo-random stream is abstracted by its documented contract: the k-th value drawn from a stream is an
unknown that depends on nothing but the stream's *state key* and the position k.  Keys:

  * seeding a stream with value v gives the key  "<kind><v as a solver term>";
  * a stream that has not been seeded since the start of a run has the key of that run's arbitrary prior history
    ("prior:<run>"), different for every run;
  * a generator created without a seed (default_rng(), RandomState(), SeedSequence(), random.Random(), os entropy)
    is a *trap*: its key is fresh for every creation.

Two draws are the same solver variable iff key, call position, kind and element index coincide.  Hence the outputs of
two runs are provably equal exactly when every value they depend on comes from a stream that was (transitively) seeded
from the same seed at the same position.  The stub never inspects the real Mersenne-Twister / PCG state: bit-level
identity of those streams is numpy's and CPython's contract and is outside the claim.
"""
import sys
import types

import numpy
import z3

from . import sym, symnp, stubs
from .sym import SV, EngineUnsupported

REAL_GLOBAL = numpy.random.random.__self__        # numpy's legacy global RandomState singleton


def _termkey(v):
    if isinstance(v, SV):
        return str(v.e).replace(" ", "").replace("\n", "")
    if isinstance(v, symnp.SymArray):
        return "[" + ",".join(_termkey(c) for c in symnp.raw(v).ravel()) + "]"
    if isinstance(v, (int, numpy.integer)):
        return str(int(v))
    if isinstance(v, BitGenStub):
        return v.key
    if isinstance(v, (list, tuple)):
        return "[" + ",".join(_termkey(c) for c in v) + "]"
    raise EngineUnsupported("seed of type %s" % type(v).__name__)


class StreamRNG(stubs.FirstPickRNG):
    """numpy generator (Generator / RandomState front end) whose draws are functions of (key, position);
    permutations are explored up to rotation classes (FirstPickRNG)"""
    STREAM = "stream"

    def __init__(self, key, env, role):
        super().__init__(key)
        self.env, self.role = env, role
        env.streams.append(self)

    def _tag(self, kind):
        self.env.log.append((self.role, self.name, kind))
        self.env.count[self.role] = self.env.count.get(self.role, 0) + 1
        return super()._tag(kind)

    # numpy.random.seed / RandomState.seed
    def seed(self, s=None):
        self.env.reseeds[self.role] = self.env.reseeds.get(self.role, 0) + 1
        self.name = ("np<%s>" % _termkey(s)) if s is not None else self.env.trapkey("np.seed(None)")
        self.ncall = 0

    def get_state(self, *a, **k):
        return ("stream", self.name, self.ncall)

    def __deepcopy__(self, memo=None):
        # numpy semantics: an independent generator object holding a snapshot of the state
        c = StreamRNG(self.name, self.env, "detached-copy")
        c.ncall = self.ncall
        return c

    __copy__ = __deepcopy__

    def set_state(self, st):
        self.env.reseeds[self.role] = self.env.reseeds.get(self.role, 0) + 1
        self.name, self.ncall = st[1], st[2]


class BitGenStub:
    def __init__(self, key):
        self.key = key


class SeedSeqStub(BitGenStub):
    """numpy.random.SeedSequence: children are functions of (parent key, number of children spawned before) -- the counter is state of the object"""

    def __init__(self, key):
        BitGenStub.__init__(self, key)
        self.n_children_spawned = 0

    def spawn(self, n):
        out = []
        for _ in range(int(n)):
            out.append(SeedSeqStub("%s/child%d" % (self.key, self.n_children_spawned)))
            self.n_children_spawned += 1
        return out


class PyRandom:
    """stub of the python `random` module (the global Mersenne Twister instance)"""

    def __init__(self, env):
        self.env = env
        self.key = None
        self.ncall = 0

    def _draw(self, kind, lo, hi, real=False, hi_open=False):
        self.env.log.append(("py", self.key, kind))
        self.env.count["py"] = self.env.count.get("py", 0) + 1
        self.ncall += 1
        nm = "%s_%d_%s_0" % (self.key, self.ncall, kind)
        c = sym.ctx()
        v = z3.Real(nm) if real else z3.Int(nm)
        c.assume(v >= sym.lift(lo), internal=True)
        c.assume((v < sym.lift(hi)) if hi_open else (v <= sym.lift(hi)), internal=True)
        self.env.pydraws.append(nm)
        return SV(v)

    def seed(self, s=None, version=2):
        self.env.reseeds["py"] = self.env.reseeds.get("py", 0) + 1
        self.key = ("py<%s>" % _termkey(s)) if s is not None else self.env.trapkey("random.seed(None)")
        self.ncall = 0

    def randint(self, a, b):
        return self._draw("i", a, b)

    def randrange(self, a, b=None, step=1):
        if b is None:
            a, b = 0, a
        return self._draw("i", a, b - 1)

    def getrandbits(self, k):
        return self._draw("i", 0, 2 ** k - 1)

    def random(self):
        return self._draw("u", 0, 1, real=True, hi_open=True)

    def uniform(self, a, b):
        return a + (b - a) * self.random()

    def getstate(self):
        return ("pystream", self.key, self.ncall)

    def setstate(self, st):
        self.env.reseeds["py"] = self.env.reseeds.get("py", 0) + 1
        self.key, self.ncall = st[1], st[2]

    def Random(self, s=None):
        r = PyRandom(self.env)
        r.seed(s)
        return r

    def SystemRandom(self, *a):
        r = PyRandom(self.env)
        r.key = self.env.trapkey("SystemRandom")
        return r

    def __getattr__(self, name):
        raise EngineUnsupported("python random stub has no %s" % name)


class NpRandomNS:
    """stub of the numpy.random namespace as seen through the module-global name numpy / np"""

    def __init__(self, env):
        self._env = env
        for nm in ("BitGenerator",):
            setattr(self, nm, getattr(numpy.random, nm))
        # classes used in isinstance tests keep their identity (stubs subclass RandomState)
        self.RandomState_real = numpy.random.RandomState

    def seed(self, s=None):
        self._env.npglobal.seed(s)

    def get_state(self, *a, **k):
        return self._env.npglobal.get_state()

    def set_state(self, st):
        self._env.npglobal.set_state(st)

    def default_rng(self, seed=None):
        e = self._env
        if isinstance(seed, stubs.BaseRNG):
            return seed
        return StreamRNG(("gen<%s>" % _termkey(seed)) if seed is not None else e.trapkey("default_rng()"), e, "derived" if seed is not None else "trap")

    def RandomState(self, seed=None):
        e = self._env
        return StreamRNG(("rs<%s>" % _termkey(seed)) if seed is not None else e.trapkey("RandomState()"), e, "derived" if seed is not None else "trap")

    def Generator(self, bitgen):
        e = self._env
        return StreamRNG("gen<%s>" % bitgen.key, e, "trap" if bitgen.key.startswith("trap") else "derived")

    def _bitgen(self, label):
        e = self._env

        def mk(seed=None):
            return BitGenStub(("%s<%s>" % (label, _termkey(seed))) if seed is not None else e.trapkey(label + "()"))
        return mk

    def SeedSequence(self, entropy=None, **k):
        return SeedSeqStub(("ss<%s>" % _termkey(entropy)) if entropy is not None else self._env.trapkey("SeedSequence()"))

    def __getattr__(self, name):
        if name in ("PCG64", "MT19937", "Philox", "SFC64", "PCG64DXSM"):
            return self._bitgen(name)
        if name.startswith("__"):
            raise AttributeError(name)
        # every other function of the namespace is a method of the global legacy stream
        return getattr(self._env.npglobal, name)


class _TrapModule:
    """time / os / secrets seen from a pybrops module: any entropy-like read is a trap value"""

    def __init__(self, env, real, names):
        self._env, self._real, self._names = env, real, names

    def __getattr__(self, name):
        if name in self._names:
            e = self._env

            def f(*a, **k):
                e.log.append(("trap", name, "call"))
                e.count["trap"] = e.count.get("trap", 0) + 1
                v = z3.Int(e.trapkey(name) + "_v")
                return SV(v)
            return f
        return getattr(self._real, name)


class EntropyEnv:
    """installs the stubs into every loaded pybrops module; use as a context manager"""

    def __init__(self):
        self.streams, self.log, self.pydraws = [], [], []
        self.count, self.reseeds = {}, {}
        self._ntrap = 0
        self._undo = []
        self.py = PyRandom(self)
        self.npglobal = StreamRNG("unset", self, "np")
        self.ns = NpRandomNS(self)
        self.unbound_wrappers = []

    def trapkey(self, what):
        self._ntrap += 1
        self.log.append(("trap", what, "create"))
        self.count["trapcreate"] = self.count.get("trapcreate", 0) + 1
        return "trap%d<%s>" % (self._ntrap, what)

    def new_run(self, label):
        """arbitrary prior interpreter history: both global streams in unknown, run-specific states"""
        self.py.key, self.py.ncall = "prior_py:%s" % label, 0
        self.npglobal.name, self.npglobal.ncall = "prior_np:%s" % label, 0
        self.count, self.reseeds = {}, {}
        self.log = []

    def snapshot(self):
        return (self.py.key, self.py.ncall, self.npglobal.name, self.npglobal.ncall)

    # ------------------------------------------------------------------
    def _set(self, obj, name, value):
        old = getattr(obj, name)
        self._undo.append((obj, name, old))
        setattr(obj, name, value)

    def __enter__(self):
        import random as real_random
        import time as real_time
        import os as real_os
        self._undo.append((symnp.PROXY, "random", symnp.PROXY.random))
        symnp.PROXY.random = self.ns
        for mname, mod in list(sys.modules.items()):
            if not (mname == "pybrops" or mname.startswith("pybrops.")) or mod is None:
                continue
            d = vars(mod)
            for nm, val in list(d.items()):
                if val is REAL_GLOBAL:
                    self._set(mod, nm, self.npglobal)
                elif val is real_random:
                    self._set(mod, nm, self.py)
                elif val is real_time:
                    self._set(mod, nm, _TrapModule(self, real_time, ("time", "time_ns", "perf_counter", "monotonic", "perf_counter_ns", "monotonic_ns")))
                elif val is real_os:
                    self._set(mod, nm, _TrapModule(self, real_os, ("urandom", "getpid", "getrandom")))
                elif val is numpy.random.PCG64 or val is numpy.random.MT19937:
                    self._set(mod, nm, self.ns._bitgen(val.__name__))
                elif val is numpy.random.Generator and mname.endswith("random.prng"):
                    self._set(mod, nm, self.ns.Generator)
                elif val is numpy.random.default_rng:
                    self._set(mod, nm, self.ns.default_rng)
                elif val is numpy.random.SeedSequence:
                    self._set(mod, nm, self.ns.SeedSequence)
                elif isinstance(val, (types.BuiltinMethodType, types.MethodType)) and isinstance(getattr(val, "__self__", None), (numpy.random.RandomState, numpy.random.Generator)) \
                        and not isinstance(val.__self__, stubs.BaseRNG):
                    # module-level wrapper bound at import time (prng.uniform = global_prng.uniform ...)
                    if val.__self__ is REAL_GLOBAL:
                        if val.__name__ not in ("seed", "get_state", "set_state", "bytes"):
                            self._set(mod, nm, getattr(self.npglobal, val.__name__))
                    else:
                        # bound to some other generator object created at import: not reachable by seed()
                        tr = StreamRNG(self.trapkey("%s.%s bound to a private generator" % (mname, nm)), self, "trap")
                        self.unbound_wrappers.append("%s.%s" % (mname, nm))
                        self._set(mod, nm, getattr(tr, val.__name__))
                elif isinstance(val, types.FunctionType) and val.__module__ == mname:
                    self._fix_defaults(val)
                elif isinstance(val, type) and val.__module__ == mname:
                    for an, av in list(vars(val).items()):
                        f = av.__func__ if isinstance(av, (staticmethod, classmethod)) else av
                        if isinstance(f, types.FunctionType):
                            self._fix_defaults(f)
        return self

    def _fix_defaults(self, f):
        df = f.__defaults__
        if df:
            new = tuple(self._subst_default(v) for v in df)
            if any(a is not b for a, b in zip(new, df)):
                self._undo.append((f, "__defaults__", df))
                f.__defaults__ = new
        kd = f.__kwdefaults__
        if kd:
            new = {k: self._subst_default(v) for k, v in kd.items()}
            if any(new[k] is not kd[k] for k in kd):
                self._undo.append((f, "__kwdefaults__", kd))
                f.__kwdefaults__ = new

    def _subst_default(self, v):
        if v is REAL_GLOBAL:
            return self.npglobal
        if v is numpy.random.PCG64 or v is numpy.random.MT19937:
            return self.ns._bitgen(v.__name__)
        if isinstance(v, (numpy.random.Generator, numpy.random.RandomState)) and not isinstance(v, stubs.BaseRNG):
            return StreamRNG(self.trapkey("default argument bound to a private generator"), self, "trap")
        return v

    def __exit__(self, *exc):
        for obj, name, old in reversed(self._undo):
            setattr(obj, name, old)
        self._undo = []
        return False

    def draw_names(self):
        names = list(self.pydraws)
        for s in self.streams:
            for d in s.draws:
                names.extend(d["names"])
        return names


def term_vars(x, acc=None):
    """names of the solver constants occurring in a structure of outputs"""
    acc = set() if acc is None else acc
    if isinstance(x, SV):
        seen = set()
        stack = [x.e]
        while stack:
            e = stack.pop()
            if e.get_id() in seen:
                continue
            seen.add(e.get_id())
            if z3.is_const(e) and e.decl().kind() == z3.Z3_OP_UNINTERPRETED:
                acc.add(e.decl().name())
            stack.extend(e.children())
    elif isinstance(x, symnp.SymArray):
        for c in symnp.raw(x).ravel():
            term_vars(c, acc)
    elif isinstance(x, numpy.ndarray) and x.dtype == object:
        for c in x.ravel():
            term_vars(c, acc)
    elif isinstance(x, (list, tuple)):
        for c in x:
            term_vars(c, acc)
    elif isinstance(x, dict):
        for c in x.values():
            term_vars(c, acc)
    return acc
