"""
Harness layer: one Harness = one bounded symbolic obligation about real pybrops code.

A harness is written once and used in three modes:
  symbolic  : inputs are fresh solver symbols, the real code runs on SymArrays,
              every path ends in solver-discharged assertions;
  validate  : a model of a finished path is turned into concrete numpy inputs, the
              real code runs on real numpy (proxy off, scripted rng) and its outputs
              are compared with the symbolic outputs evaluated under the model
              (translator / handler validation against the implementation);
  replay    : concrete inputs (from a counterexample model or a known-finding
              witness) run on real numpy and the same oracle is evaluated concretely.
"""
import json
import math
import os
import sys
import time
import traceback
from fractions import Fraction

import numpy
import z3

from . import sym, symnp, stubs, compat
from .sym import SV, Ctx, Counterexample, Inconclusive, PathAbort, EngineUnsupported
from .symnp import SymArray, raw

REPO = compat.REPO


# --------------------------------------------------------------------------
# logic helpers usable on python bools and SVs
# --------------------------------------------------------------------------
def And(*xs):
    r = True
    for x in xs:
        r = sym.sv_land(r, x) if not (isinstance(r, bool) and isinstance(x, (bool, numpy.bool_))) else (r and bool(x))
    return r


def Or(*xs):
    r = False
    for x in xs:
        r = sym.sv_lor(r, x) if not (isinstance(r, bool) and isinstance(x, (bool, numpy.bool_))) else (r or bool(x))
    return r


def Not(x):
    return sym.sv_lnot(x)


def Implies(a, b):
    return Or(Not(a), b)


def Ite(c, a, b):
    return sym.sv_ite(c, a, b)


def cells(a):
    """flat python list of cells of any array-like"""
    if isinstance(a, SymArray):
        return list(raw(a).ravel())
    if isinstance(a, numpy.ndarray):
        return [x.item() if isinstance(x, numpy.generic) else x for x in a.ravel()]
    if isinstance(a, (list, tuple)):
        out = []
        for e in a:
            out.extend(cells(e))
        return out
    if isinstance(a, numpy.generic):
        return [a.item()]
    return [a]


def cell(a, *ix):
    """one cell of an array as python scalar / SV"""
    if isinstance(a, SymArray):
        return raw(a)[ix]
    v = a[ix]
    return v.item() if isinstance(v, numpy.generic) else v


def is_nan(x):
    return isinstance(x, float) and math.isnan(x)


# --------------------------------------------------------------------------
# input factory
# --------------------------------------------------------------------------
class Mk:
    """creates named inputs: solver symbols (symbolic mode) or numbers (concrete mode)"""

    def __init__(self, values=None):
        self.concrete = values is not None
        self.values = values or {}
        self.symbols = {}      # name -> z3 const
        self.order = []
        self.rngs = []

    def _val(self, name, default):
        v = self.values.get(name, default)
        if isinstance(v, str):
            v = Fraction(v)
        return v

    def _one(self, name, sort, lo, hi, lo_open, hi_open):
        if self.concrete:
            if sort == "real":
                d = lo if lo is not None else 0.0
                return float(self._val(name, d))
            if sort == "int":
                return int(self._val(name, lo if lo is not None else 0))
            return bool(self._val(name, False))
        c = sym.ctx()
        if sort == "real":
            v = z3.Real(name)
        elif sort == "int":
            v = z3.Int(name)
        else:
            v = z3.Bool(name)
        self.symbols[name] = v
        self.order.append(name)
        if lo is not None:
            c.assume((v > sym.lift(lo)) if lo_open else (v >= sym.lift(lo)))
        if hi is not None:
            c.assume((v < sym.lift(hi)) if hi_open else (v <= sym.lift(hi)))
        return SV(v)

    def _arr(self, name, shape, sort, vd, lo, hi, lo_open, hi_open):
        if shape == ():
            return self._one(name, sort, lo, hi, lo_open, hi_open)
        if isinstance(shape, int):
            shape = (shape,)
        a = numpy.empty(shape, dtype=object)
        for ix in numpy.ndindex(*shape):
            a[ix] = self._one(name + "_" + "_".join(map(str, ix)), sort, lo, hi, lo_open, hi_open)
        if self.concrete:
            return a.astype(vd)
        return SymArray(a, vd)

    def real(self, name, shape=(), lo=None, hi=None, lo_open=False, hi_open=False, vd="float64"):
        return self._arr(name, shape, "real", numpy.dtype(vd), lo, hi, lo_open, hi_open)

    def int(self, name, shape=(), lo=None, hi=None, vd="int64"):
        return self._arr(name, shape, "int", numpy.dtype(vd), lo, hi, False, False)

    def bool(self, name, shape=()):
        return self._arr(name, shape, "bool", numpy.dtype(bool), None, None, False, False)

    def assume(self, cond):
        """documented precondition"""
        if self.concrete:
            if isinstance(cond, SV):
                raise RuntimeError("symbolic condition in concrete mode")
            if not bool(cond):
                raise PreconditionFailed()
            return
        sym.ctx().assume(cond)

    def rng(self, name="rng", cls=None):
        if self.concrete:
            r = stubs.ScriptedRNG(self.values, name)
        else:
            r = (cls or stubs.SymRNG)(name)
        self.rngs.append(r)
        return r


class PreconditionFailed(Exception):
    pass


# --------------------------------------------------------------------------
# provers
# --------------------------------------------------------------------------
class SymProver:
    concrete = False

    def __init__(self, c):
        self.c = c
        self.labels = {}

    def prove(self, cond, label, detail=None):
        self.labels[label] = self.labels.get(label, 0) + 1
        self.c.prove(cond, label, detail)

    def eq(self, a, b, tol=None):
        if is_nan(a) or is_nan(b):
            return is_nan(a) and is_nan(b)
        return a == b

    def le(self, a, b, tol=None):
        return a <= b

    def close(self, a, b, eps=1e-9):
        """equality up to a relative tolerance, for quantities into which the code under analysis folded concrete
        float arithmetic (e.g. p*(1-p) of a concrete allele frequency) before they met symbolic values"""
        if is_nan(a) or is_nan(b):
            return is_nan(a) and is_nan(b)
        def ab(x):
            return Ite(x >= 0, x, -x) if isinstance(x, SV) else abs(x)
        bound = eps * (1.0 + ab(a) + ab(b))
        return And(a - b <= bound, b - a <= bound)

    def fail(self, label, detail=None):
        self.prove(False, label, detail)


class ConcreteProver:
    concrete = True

    def __init__(self, tol=1e-9):
        self.tol = tol
        self.failures = []
        self.nchecked = 0

    def prove(self, cond, label, detail=None):
        self.nchecked += 1
        if isinstance(cond, SV):
            raise RuntimeError("symbolic condition reached the concrete prover")
        if not bool(cond):
            self.failures.append((label, detail))

    def eq(self, a, b, tol=None):
        tol = self.tol if tol is None else tol
        if is_nan(a) or is_nan(b):
            return is_nan(a) and is_nan(b)
        if isinstance(a, (float, numpy.floating)) or isinstance(b, (float, numpy.floating)):
            a = float(a)
            b = float(b)
            if math.isinf(a) or math.isinf(b):
                return a == b
            return abs(a - b) <= tol * (1.0 + max(abs(a), abs(b)))
        return a == b

    def le(self, a, b, tol=None):
        tol = self.tol if tol is None else tol
        return float(a) <= float(b) + tol * (1.0 + max(abs(float(a)), abs(float(b))))

    def close(self, a, b, eps=1e-9):
        return self.eq(a, b, max(eps, self.tol))

    def fail(self, label, detail=None):
        self.prove(False, label, detail)


# --------------------------------------------------------------------------
# Harness base
# --------------------------------------------------------------------------
class Harness:
    """subclass and implement inputs/call/check"""
    name = "harness"
    allowed_exceptions = ()        # exception types the property allows call() to raise
    validate_every = 7             # validate path 0,1,2 and then every k-th
    max_validations = 12
    tol = 1e-9
    needs_real_run = True          # False: skip validation (no concrete counterpart)
    validate_compare = True        # False: outputs depend on uninterpreted functions (exp, tanh): the model's
                                   # function values are arbitrary, so only executability of the real run is validated

    def __init__(self, **params):
        self.params = params

    def modules(self):
        """pybrops modules to import"""
        return []

    def inputs(self, mk):
        raise NotImplementedError

    def call(self, inp, mk):
        raise NotImplementedError

    def check(self, P, inp, out):
        raise NotImplementedError

    def describe(self):
        return "%s%s" % (self.name, json.dumps(self.params, sort_keys=True, default=str))

    # hook for harnesses that need to exclude a known finding's witness class
    def exclude_known(self, mk, inp):
        return None


def model_values(model, names_to_syms, extra_names=()):
    vals = {}
    for nm, s in names_to_syms.items():
        vals[nm] = _pyval(model.eval(s, model_completion=True))
    for nm in extra_names:
        if nm in vals:
            continue
        # rng draws: sort guessed from the tag
        kind = nm.rsplit("_", 2)[-2] if nm.count("_") >= 2 else "u"
        s = z3.Int(nm) if kind in ("i", "c", "p", "b") else z3.Real(nm)
        vals[nm] = _pyval(model.eval(s, model_completion=True))
    return vals


def _pyval(v):
    if z3.is_int_value(v):
        return v.as_long()
    if z3.is_true(v):
        return True
    if z3.is_false(v):
        return False
    if z3.is_rational_value(v):
        return Fraction(v.numerator_as_long(), v.denominator_as_long())
    if z3.is_algebraic_value(v):
        a = v.approx(20)
        return Fraction(a.numerator_as_long(), a.denominator_as_long())
    raise EngineUnsupported("cannot read model value %s" % v)


def jsonable(vals):
    out = {}
    for k, v in vals.items():
        if isinstance(v, Fraction):
            out[k] = int(v) if v.denominator == 1 and False else str(v)
        else:
            out[k] = v
    return out


def eval_struct(model, x):
    """evaluate a structure of symbolic outputs under a model -> python numbers"""
    if isinstance(x, SymArray):
        r = raw(x)
        out = numpy.empty(r.shape, dtype=object)
        for ix in numpy.ndindex(*r.shape):
            out[ix] = eval_struct(model, r[ix])
        return out
    if isinstance(x, SV):
        v = _pyval(model.eval(x.e, model_completion=True))
        return float(v) if isinstance(v, Fraction) else v
    if isinstance(x, numpy.ndarray):
        return x
    if isinstance(x, (list, tuple)):
        return [eval_struct(model, e) for e in x]
    if isinstance(x, dict):
        return {k: eval_struct(model, v) for k, v in x.items()}
    return x


def compare_struct(a, b, tol, path="out"):
    """a: evaluated symbolic outputs, b: real outputs. returns list of mismatch strings"""
    mism = []
    if isinstance(a, numpy.ndarray) or isinstance(b, numpy.ndarray):
        aa = numpy.asarray(a)
        bb = numpy.asarray(b)
        if aa.shape != bb.shape:
            return ["%s: shape %s vs %s" % (path, aa.shape, bb.shape)]
        for ix in numpy.ndindex(*aa.shape):
            mism += compare_struct(aa[ix], bb[ix], tol, "%s%s" % (path, list(ix)))
            if len(mism) > 5:
                break
        return mism
    if isinstance(a, (list, tuple)) and isinstance(b, (list, tuple)):
        if len(a) != len(b):
            return ["%s: len %d vs %d" % (path, len(a), len(b))]
        for i, (x, y) in enumerate(zip(a, b)):
            mism += compare_struct(x, y, tol, "%s[%d]" % (path, i))
        return mism
    if isinstance(a, dict) and isinstance(b, dict):
        for k in a:
            if k not in b:
                mism.append("%s: key %s missing" % (path, k))
            else:
                mism += compare_struct(a[k], b[k], tol, "%s.%s" % (path, k))
        return mism
    if isinstance(a, numpy.generic):
        a = a.item()
    if isinstance(b, numpy.generic):
        b = b.item()
    if a is None or b is None:
        return [] if a is b else ["%s: %r vs %r" % (path, a, b)]
    if isinstance(a, (str, bytes)) or isinstance(b, (str, bytes)):
        return [] if str(a) == str(b) else ["%s: %r vs %r" % (path, a, b)]
    if isinstance(a, (bool, int, float)) and isinstance(b, (bool, int, float)):
        fa, fb = float(a), float(b)
        if math.isnan(fa) or math.isnan(fb):
            return [] if (math.isnan(fa) and math.isnan(fb)) else ["%s: %r vs %r" % (path, a, b)]
        if math.isinf(fa) or math.isinf(fb):
            return [] if fa == fb else ["%s: %r vs %r" % (path, a, b)]
        if abs(fa - fb) <= tol * (1.0 + max(abs(fa), abs(fb))):
            return []
        return ["%s: %r vs %r" % (path, a, b)]
    # opaque objects: compared by the harness's own out-structure only
    return []


class _Profiler:
    def __init__(self):
        self.funcs = set()
        self.prefix = os.path.join(os.path.abspath(REPO), "pybrops") + os.sep

    def __call__(self, frame, event, arg):
        if event == "call":
            co = frame.f_code
            fn = co.co_filename
            if fn.startswith(self.prefix):
                self.funcs.add("%s:%s:%d" % (fn[len(self.prefix) - 8:], co.co_name, co.co_firstlineno))


def _dyadic_ok(vals):
    for v in vals.values():
        if isinstance(v, Fraction):
            if float(v) != v:
                return False
    return True


def run_symbolic(h, budget_s=300.0, max_paths=100000, validate=True):
    """explore harness h; returns a result dict (never raises for expected outcomes)"""
    t0 = time.time()
    compat.load(*h.modules())
    compat.symbolic_mode(True)
    c = Ctx(deadline=t0 + budget_s, max_paths=max_paths)
    res = dict(name=h.describe(), status="ok", message="", paths=0, validated=0,
               validation_skipped=0, labels={}, functions=[], sample=None, rng_draws=0)
    prof = _Profiler()
    state = {"first": True, "nval": 0, "reach": 0}
    P = SymProver(c)

    def body():
        mk = Mk()
        inp = h.inputs(mk)
        state["mk"] = mk
        state["inp"] = inp
        h.exclude_known(mk, inp)
        if state["first"]:
            sys.setprofile(prof)
        try:
            try:
                out = h.call(inp, mk)
            finally:
                sys.setprofile(None)
        except h.allowed_exceptions as ex:
            out = ("__raised__", type(ex).__name__)
            state["first"] = False
            state["out"] = out
            return
        except (PathAbort, Inconclusive, Counterexample, EngineUnsupported):
            raise
        except symnp.UnwrittenRead as ex:
            m = c.feasible_model()
            if m is None:
                raise PathAbort("infeasible")
            raise Counterexample("uninitialised-read", m, str(ex))
        except Exception as ex:
            # unexpected exception on a feasible path = counterexample candidate
            m = c.feasible_model()
            if m is None:
                raise PathAbort("infeasible")
            tb = traceback.format_exc(limit=6)
            raise Counterexample("unexpected-exception:%s" % type(ex).__name__, m, tb)
        state["first"] = False
        state["out"] = out
        h.check(P, inp, out)
        state["reach"] += 1

    def on_end():
        n = c.stats["paths"]
        if not (validate and h.needs_real_run):
            return
        if state["nval"] >= h.max_validations:
            return
        if not (n <= 3 or n % h.validate_every == 0):
            return
        if isinstance(state.get("out"), tuple) and state["out"] and state["out"][0] == "__raised__":
            return
        if getattr(c, "nondet", False):
            res["validation_skipped"] += 1
            return
        m = c.feasible_model()
        if m is None:
            return
        mk = state["mk"]
        vals = model_values(m, mk.symbols, _rng_names(state["inp"], mk))
        if not _dyadic_ok(vals):
            res["validation_skipped"] += 1
            return
        sym_out = eval_struct(m, state["out"])
        saved = sym._CTX[0]
        try:
            real_out = run_concrete(h, vals)[1]
        except PreconditionFailed:
            res["validation_skipped"] += 1
            return
        finally:
            sym.set_ctx(saved)
            compat.symbolic_mode(True)
        mism = compare_struct(sym_out, real_out, 1e-7) if h.validate_compare else []
        if mism:
            raise ValidationMismatch("symbolic outputs differ from the real run on the path model: %s (inputs %s)"
                                     % (mism[:3], jsonable(vals)))
        state["nval"] += 1
        if res["sample"] is None:
            res["sample"] = dict(inputs=jsonable(vals))

    try:
        sym.explore(c, body, on_end)
    except Counterexample as ce:
        mk = state.get("mk")
        vals = model_values(ce.model, mk.symbols, _rng_names(state.get("inp"), mk)) if mk else {}
        res["status"] = "counterexample"
        res["message"] = "%s" % ce.label
        res["detail"] = (ce.detail or "")[-1500:] if isinstance(ce.detail, str) else ce.detail
        res["cex"] = jsonable(vals)
    except Inconclusive as ex:
        res["status"] = "inconclusive"
        res["message"] = str(ex)
    except ValidationMismatch as ex:
        res["status"] = "error"
        res["message"] = str(ex)
    except EngineUnsupported as ex:
        res["status"] = "error"
        res["message"] = "EngineUnsupported: %s\n%s" % (ex, traceback.format_exc(limit=8))
    except Exception as ex:
        res["status"] = "error"
        res["message"] = "harness exception: %s\n%s" % (ex, traceback.format_exc(limit=10))
    finally:
        sys.setprofile(None)
        sym.set_ctx(None)
    res["paths"] = c.stats["paths"]
    res["reached_assertions"] = state["reach"]
    res["validated"] = state["nval"]
    res["labels"] = P.labels
    res["stats"] = {k: (round(v, 3) if isinstance(v, float) else v) for k, v in c.stats.items()}
    res["functions"] = sorted(prof.funcs)
    res["wall_s"] = round(time.time() - t0, 3)
    if res["status"] == "ok" and state["reach"] == 0:
        res["status"] = "error"
        res["message"] = "vacuous: no feasible path reached the assertions"
    return res


class ValidationMismatch(Exception):
    pass


def _rng_names(inp, mk):
    names = []
    for r in (mk.rngs if mk is not None else []):
        for d in r.draws:
            names.extend(d["names"])
    if names:
        return names

    def rec(x, depth=0):
        if isinstance(x, stubs.BaseRNG):
            for d in x.draws:
                names.extend(d["names"])
        elif isinstance(x, dict) and depth < 3:
            for v in x.values():
                rec(v, depth + 1)
        elif isinstance(x, (list, tuple)) and depth < 3:
            for v in x:
                rec(v, depth + 1)
    rec(inp)
    return names


def run_concrete(h, vals):
    """real numpy run of harness h on concrete values -> (inp, out)"""
    compat.load(*h.modules())
    compat.symbolic_mode(False)
    sym.set_ctx(None)
    mk = Mk(values=vals)
    inp = h.inputs(mk)
    try:
        out = h.call(inp, mk)
    except h.allowed_exceptions as ex:
        out = ("__raised__", type(ex).__name__)
    return inp, out


def replay(h, vals):
    """concrete replay with the concrete oracle. returns (reproduced: bool, info)"""
    if hasattr(h, "custom_replay"):
        return h.custom_replay(vals)
    try:
        inp, out = run_concrete(h, vals)
    except PreconditionFailed:
        return False, "precondition not met by the concretised inputs"
    except Exception as ex:
        return True, "exception on real code: %s: %s" % (type(ex).__name__, str(ex)[:300])
    if isinstance(out, tuple) and out and out[0] == "__raised__":
        return False, "allowed exception %s" % out[1]
    P = ConcreteProver(h.tol)
    try:
        h.check(P, inp, out)
    except Exception as ex:
        return True, "oracle raised on real outputs: %s: %s" % (type(ex).__name__, str(ex)[:300])
    if P.failures:
        return True, "failed: %s" % (P.failures[:3],)
    return False, "all %d concrete assertions hold" % P.nchecked
