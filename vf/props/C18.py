"""C18 Haplotype-block values conserve genomic value and bound progeny"""
import itertools

import numpy

from ..harness import Harness, And, Or, Not, Implies, Ite, cells, cell
from .. import sym, symnp, compat
from ..sym import SV

PROPERTY = "C18"
ASSUMPTIONS = [
    "genetic positions are non-decreasing within each chromosome (grouped/sorted matrix, the API's precondition); ties and clusters allowed",
    "total genetic length of the genome > 0; requested block total between the chromosome count and the marker count, and no chromosome is apportioned more blocks than it has markers (the library raises otherwise: allowed exception)",
    "allele calls in {0,1}; effects arbitrary reals",
]
STUBS = []
BOUNDS = {"quick": dict(layouts="chromosome sizes (2),(3),(4),(2,2),(3,1),(3,2); every admissible block total", taxa="<=2", traits="1"),
          "thorough": dict(layouts="(2),(3),(4),(5),(2,2),(3,2),(2,3),(1,3),(3,3),(2,2,1),(2,2,2)", taxa="<=3", traits="<=2")}
OUTSIDE = ["more than 5 markers / 3 chromosomes", "float rounding in linspace (exact reals)"]

HAPLO = "pybrops.core.util.haplo"
OHV = "pybrops.breed.prot.sel.prob.OptimalHaploidValueSelectionProblem"
OPV = "pybrops.breed.prot.sel.prob.OptimalPopulationValueSelectionProblem"
PGM = "pybrops.popgen.gmat.DensePhasedGenotypeMatrix"
GMOD = "pybrops.model.gmod.DenseAdditiveLinearGenomicModel"

KNOWN_EMPTY_BIN = "C18-empty-equal-width-bin"


def _layout(sizes):
    st, sp = [], []
    k = 0
    for s in sizes:
        st.append(k)
        k += s
        sp.append(k)
    return numpy.array(st), numpy.array(sp), numpy.array(sizes)


def _genpos(mk, sizes):
    m = sum(sizes)
    g = mk.real("g", (m,), lo=0)
    st, sp, ln = _layout(sizes)
    tot = 0.0
    for a, b in zip(st, sp):
        for j in range(a, b - 1):
            mk.assume(cell(g, j) <= cell(g, j + 1))
        tot = tot + (cell(g, b - 1) - cell(g, a))
    mk.assume(tot > 0)
    return g


def _bins_nonempty(g, sizes, nblk):
    """every equal-width bin of every chromosome receives a marker under the library's rule
    (closed bins, later bins overwrite boundary markers => half-open [b_k, b_k+1), last bin closed)"""
    st, sp, ln = _layout(sizes)
    conds = []
    for c, (a, b) in enumerate(zip(st, sp)):
        nb = int(nblk[c])
        lo, hi = cell(g, a), cell(g, b - 1)
        for k in range(nb):
            bk = lo + (hi - lo) * k / nb
            bk1 = lo + (hi - lo) * (k + 1) / nb
            alts = []
            for j in range(a, b):
                p = cell(g, j)
                alts.append(And(p >= bk, p <= bk1) if k == nb - 1 else And(p >= bk, p < bk1))
            conds.append(Or(*alts))
    return And(*conds)


class Partition(Harness):
    name = "haplotype-block-partition"
    allowed_exceptions = (ValueError,)

    def modules(self):
        return [HAPLO]

    def inputs(self, mk):
        return dict(g=_genpos(mk, self.params["sizes"]))

    def call(self, inp, mk):
        import pybrops.core.util.haplo as H
        sizes, nb = self.params["sizes"], self.params["nblk"]
        st, sp, ln = _layout(sizes)
        nblk = H.nhaploblk_chrom(nb, inp["g"], st, sp)
        nblk = numpy.array([int(x) for x in cells(nblk)])
        if numpy.any(nblk > ln):
            return dict(skip=True, nblk=nblk)
        hbin = H.haplobin(nblk, inp["g"], st, sp)
        hb = numpy.array([int(x) for x in cells(hbin)])
        hstix, hspix, hlen = H.haplobin_bounds(hb)
        return dict(skip=False, nblk=nblk, hbin=hb, hstix=numpy.asarray(hstix), hspix=numpy.asarray(hspix), hlen=numpy.asarray(hlen))

    def check(self, P, inp, out):
        sizes, nb = self.params["sizes"], self.params["nblk"]
        st, sp, ln = _layout(sizes)
        m = sum(sizes)
        nblk = out["nblk"]
        P.prove(int(nblk.sum()) == nb, "apportionment-uses-exactly-the-requested-total", detail="nblk=%s" % nblk.tolist())
        P.prove(bool((nblk >= 1).all()), "every-chromosome-gets-a-block")
        if out["skip"]:
            return
        hb = out["hbin"]
        P.prove(len(hb) == m, "every-marker-has-a-block")
        # contiguous + ordered: labels non-decreasing along the genome
        P.prove(all(hb[j] <= hb[j + 1] for j in range(m - 1)), "blocks-contiguous-and-ordered", detail="bins=%s" % hb.tolist())
        # within chromosomes: no label shared by two chromosomes, every chromosome has a label
        for c in range(len(sizes)):
            for d in range(c + 1, len(sizes)):
                P.prove(not (set(hb[st[c]:sp[c]].tolist()) & set(hb[st[d]:sp[d]].tolist())), "blocks-within-chromosomes")
        hstix, hspix, hlen = out["hstix"], out["hspix"], out["hlen"]
        nfound = len(hstix)
        P.prove(hstix[0] == 0 and hspix[-1] == m and all(hspix[i] == hstix[i + 1] for i in range(nfound - 1))
                and all(hlen[i] == hspix[i] - hstix[i] and hlen[i] > 0 for i in range(nfound)), "bounds-partition-the-marker-axis")
        P.prove(nfound == len(set(hb.tolist())), "bounds-match-labels")
        exact = (nfound == nb)
        if KNOWN_EMPTY_BIN in getattr(self, "active_known", ()):
            # known finding: layouts in which an equal-width bin receives no marker yield fewer blocks
            if not exact:
                P.prove(Not(_bins_nonempty(inp["g"], sizes, nblk)), "exactly-the-requested-number-of-blocks (outside the known empty-bin class)",
                        detail="bins=%s requested=%d" % (hb.tolist(), nb))
        else:
            P.prove(exact, "exactly-the-requested-number-of-blocks", detail="bins=%s requested=%d" % (hb.tolist(), nb))


class HaploMat(Harness):
    """haplo.haplomat: conservation of additive value over blocks, every cell written"""
    name = "haplomat-conservation"
    allowed_exceptions = (RuntimeError,)

    def modules(self):
        return [HAPLO]

    def inputs(self, mk):
        sizes, n, t = self.params["sizes"], self.params["n"], self.params["t"]
        m = sum(sizes)
        return dict(g=_genpos(mk, sizes), A=mk.int("a", (2, n, m), lo=0, hi=1, vd="int8"), u=mk.real("u", (m, t)))

    def call(self, inp, mk):
        import pybrops.core.util.haplo as H
        sizes, nb = self.params["sizes"], self.params["nblk"]
        st, sp, ln = _layout(sizes)
        symnp.PROXY.empty_marks = True
        try:
            hm = H.haplomat(nb, inp["A"], inp["g"], st, sp, ln, inp["u"])
        finally:
            symnp.PROXY.empty_marks = False
        return dict(hm=hm)

    def check(self, P, inp, out):
        sizes, nb, n, t = self.params["sizes"], self.params["nblk"], self.params["n"], self.params["t"]
        m = sum(sizes)
        hm = out["hm"]
        P.prove(tuple(hm.shape) == (2, n, nb, t), "haplomat-shape")
        raw_ = symnp.raw(hm) if isinstance(hm, symnp.SymArray) else hm
        unwritten = [ix for ix in numpy.ndindex(*raw_.shape) if raw_[ix] is symnp.UNWRITTEN]
        active = KNOWN_EMPTY_BIN in getattr(self, "active_known", ())
        if unwritten and not active:
            P.fail("every-haplomat-cell-written", detail="unwritten cells %s" % (unwritten[:4],))
        if unwritten and active:
            # only excused inside the known class (an empty equal-width bin)
            import pybrops.core.util.haplo as H
            st, sp, ln = _layout(sizes)
            nblk = numpy.array([int(x) for x in cells(H.nhaploblk_chrom(nb, inp["g"], st, sp))])
            P.prove(Not(_bins_nonempty(inp["g"], sizes, nblk)), "every-haplomat-cell-written (outside the known empty-bin class)")
            return
        for h in range(2):
            for i in range(n):
                for tr in range(t):
                    tot = 0.0
                    for j in range(m):
                        tot = tot + cell(inp["A"], h, i, j) * cell(inp["u"], j, tr)
                    s = 0.0
                    for b in range(nb):
                        v = raw_[h, i, b, tr]
                        if isinstance(v, float) and not numpy.isfinite(v):
                            P.fail("block-values-finite")
                        s = s + v
                    P.prove(P.eq(s, tot), "block-values-sum-to-additive-value-of-the-chromosome-copy")


def _mk_pg(A, g, sizes):
    from pybrops.popgen.gmat.DensePhasedGenotypeMatrix import DensePhasedGenotypeMatrix
    n, m = A.shape[1], A.shape[2]
    chr_ = numpy.concatenate([numpy.full(s, c + 1, dtype="int64") for c, s in enumerate(sizes)])
    pg = DensePhasedGenotypeMatrix(mat=A, taxa=numpy.array(["t%d" % i for i in range(n)], dtype=object), taxa_grp=numpy.arange(n),
                                   vrnt_chrgrp=chr_, vrnt_phypos=numpy.arange(m) + 1, vrnt_genpos=g)
    st, sp, ln = _layout(sizes)
    # grouped variant metadata as group_vrnt() would produce for this (already sorted) layout
    pg.vrnt_chrgrp_name = numpy.arange(len(sizes)) + 1
    pg.vrnt_chrgrp_stix = st
    pg.vrnt_chrgrp_spix = sp
    pg.vrnt_chrgrp_len = ln
    return pg


class OHVMat(Harness):
    """OptimalHaploidValue problems: ohvmat = ploidy * sum over blocks of the best block value among the designated parents"""
    name = "ohvmat-definition"
    allowed_exceptions = (ValueError,)

    def modules(self):
        return [HAPLO, OHV, PGM, GMOD]

    def inputs(self, mk):
        sizes, n, t = self.params["sizes"], self.params["n"], self.params["t"]
        m = sum(sizes)
        g = _genpos(mk, sizes)
        return dict(g=g, A=mk.int("a", (2, n, m), lo=0, hi=1, vd="int8"), u=mk.real("u", (m, t)))

    def call(self, inp, mk):
        from pybrops.breed.prot.sel.prob.OptimalHaploidValueSelectionProblem import OptimalHaploidValueSubsetSelectionProblem as C
        from .C10 import _model
        sizes, nb, t = self.params["sizes"], self.params["nblk"], self.params["t"]
        pg = _mk_pg(inp["A"].copy(), inp["g"], sizes)
        mod = _model(numpy.zeros((1, t)), inp["u"], t)
        saved = sym.FORK_MINMAX[0]
        sym.FORK_MINMAX[0] = False
        symnp.PROXY.empty_marks = True
        try:
            hm = C._calc_haplomat(pg, mod, nb)
            xmap = C._calc_xmap(pg.ntaxa, self.params["nparent"], self.params.get("unique", True))
            ohv = C._calc_ohvmat(2, hm, xmap, mem=self.params.get("mem", 1024))
        finally:
            symnp.PROXY.empty_marks = False
            sym.FORK_MINMAX[0] = saved
        import pybrops.core.util.haplo as H
        st, sp, ln = _layout(sizes)
        nblk = numpy.array([int(x) for x in cells(H.nhaploblk_chrom(nb, inp["g"], st, sp))])
        return dict(ohv=ohv, xmap=numpy.asarray(xmap), nblk=nblk)

    def check(self, P, inp, out):
        sizes, nb, n, t = self.params["sizes"], self.params["nblk"], self.params["n"], self.params["t"]
        st, sp, ln = _layout(sizes)
        xmap, ohv, nblk = out["xmap"], out["ohv"], out["nblk"]
        g, A, u = inp["g"], inp["A"], inp["u"]
        # independent reference: membership of marker j in block (c,k) under the equal-width rule
        def member(c, k, j):
            a, b = st[c], sp[c]
            nbc = int(nblk[c])
            lo, hi = cell(g, a), cell(g, b - 1)
            bk = lo + (hi - lo) * k / nbc
            bk1 = lo + (hi - lo) * (k + 1) / nbc
            p = cell(g, j)
            return And(p >= bk, p <= bk1) if k == nbc - 1 else And(p >= bk, p < bk1)
        P.prove(tuple(ohv.shape) == (len(xmap), t), "ohvmat-shape")
        nonempty = _bins_nonempty(g, sizes, nblk)
        active = KNOWN_EMPTY_BIN in getattr(self, "active_known", ())
        for r, parents in enumerate(xmap):
            for tr in range(t):
                tot = 0.0
                for c in range(len(sizes)):
                    for k in range(int(nblk[c])):
                        best = None
                        for par in parents:
                            for h in range(2):
                                v = 0.0
                                for j in range(st[c], sp[c]):
                                    v = v + Ite(member(c, k, j), cell(A, h, int(par), j) * cell(u, j, tr), 0.0)
                                best = v if best is None else Ite(v >= best, v, best)
                        tot = tot + best
                got = cell(ohv, r, tr)
                if isinstance(got, float) and not numpy.isfinite(got):
                    P.fail("ohv-finite")
                ok = P.eq(got, 2 * tot)
                P.prove(Implies(nonempty, ok) if active else ok, "ohv=ploidy*sum-over-blocks-of-best-parental-block-value")
                # at least the value of every parent's own homozygous (DH) copies
                for par in parents:
                    for h in range(2):
                        own = 0.0
                        for j in range(sum(sizes)):
                            own = own + cell(A, h, int(par), j) * cell(u, j, tr)
                        P.prove(P.le(2 * own, got), "ohv>=value-of-a-non-recombinant-doubled-haploid")


OPV = "pybrops.breed.prot.sel.prob.OptimalPopulationValueSelectionProblem"


class OPVLatent(Harness):
    """OptimalPopulationValue: latent value of a selection = -ploidy * sum over blocks of the best block value carried by any phase of
    any selected individual (signed effects, so block values of either sign); for two parents it equals the optimal haploid value of their cross"""
    name = "opv-definition"

    def modules(self):
        return [HAPLO, OHV, OPV, PGM, GMOD]

    def inputs(self, mk):
        n, h, t = self.params["n"], self.params["h"], self.params["t"]
        return dict(H=mk.real("h", (2, n, h, t), lo=-6, hi=6), H2=mk.real("g", (2, n, h, t), lo=-6, hi=6))

    def call(self, inp, mk):
        from pybrops.breed.prot.sel.prob.OptimalPopulationValueSelectionProblem import OptimalPopulationValueSubsetSelectionProblem as C
        from pybrops.breed.prot.sel.prob.OptimalHaploidValueSelectionProblem import OptimalHaploidValueSubsetSelectionProblem as O
        n, h, t = self.params["n"], self.params["h"], self.params["t"]
        k = len(self.params["sel"])
        prob = C(haplomat=inp["H"].copy(), ndecn=k, decn_space=numpy.arange(n), decn_space_lower=numpy.repeat(0, k), decn_space_upper=numpy.repeat(n - 1, k), nobj=t)
        saved = sym.FORK_MINMAX[0]
        sym.FORK_MINMAX[0] = False
        try:
            lat = prob.latentfn(numpy.array(self.params["sel"]))
            ohv = O._calc_ohvmat(2, inp["H"].copy(), numpy.array([self.params["sel"]]), mem=None) if k == 2 else None
            H_after = prob.haplomat
            # second use of the same problem object: the haplotype values are reassigned, the next evaluation must see the new ones
            prob.haplomat = inp["H2"].copy()
            lat2 = prob.latentfn(numpy.array(self.params["sel"]))
        finally:
            sym.FORK_MINMAX[0] = saved
        return dict(lat=lat, ohv=ohv, H_after=H_after, lat2=lat2)

    def check(self, P, inp, out):
        n, h, t = self.params["n"], self.params["h"], self.params["t"]
        sel = self.params["sel"]
        Hm = inp["H"]
        def total(M, tr):
            tot = 0.0
            for b in range(h):
                cands = [cell(M, ph, i, b, tr) for ph in range(2) for i in sel]
                best = cands[0]
                for c in cands[1:]:
                    best = sym.sv_max(best, c) if isinstance(best, SV) or isinstance(c, SV) else max(best, c)
                tot = tot + best
            return tot
        for tr in range(t):
            tot = total(Hm, tr)
            P.prove(P.eq(cell(out["lat"], tr), -2 * tot), "opv=-ploidy*sum-over-blocks-of-the-best-selected-block-value")
            saved = sym.FORK_MINMAX[0]
            sym.FORK_MINMAX[0] = False       # (the reference of the second evaluation as nested if-then-else terms: forking on both references squares the path count)
            try:
                tot2 = total(inp["H2"], tr)
            finally:
                sym.FORK_MINMAX[0] = saved
            P.prove(P.eq(cell(out["lat2"], tr), -2 * tot2), "opv-after-reassigning-the-haplotype-values-uses-the-new-values")
            if out["ohv"] is not None:
                P.prove(P.eq(cell(out["ohv"], 0, tr), 2 * tot), "opv-of-two-parents=ohv-of-their-cross")
        for a, b in zip(cells(out["H_after"]), cells(Hm)):
            P.prove(P.eq(a, b), "haplotype-values-untouched")


def obligations(tier):
    obs = []
    for sel in ([[0], [2, 0]] if tier == "quick" else [[0], [2, 0], [1, 2], [0, 1, 2], [1, 1]]):
        obs.append(OPVLatent(n=3, h=2, t=1, sel=sel))
    if tier == "thorough":
        obs.append(OPVLatent(n=2, h=3, t=1, sel=[1, 0]))
    layouts = [(2,), (3,), (4,), (2, 2), (3, 1), (3, 2)] if tier == "quick" else \
        [(2,), (3,), (4,), (5,), (2, 2), (3, 2), (2, 3), (1, 3), (3, 3), (2, 2, 1), (2, 2, 2)]
    for sizes in layouts:
        for nb in range(len(sizes), sum(sizes) + 1):
            h = Partition(sizes=list(sizes), nblk=nb)
            h.weight = 2 ** sum(sizes)
            obs.append(h)
    hm = [((3,), 2, 1, 1), ((2, 2), 3, 1, 1), ((3,), 3, 2, 1)] if tier == "quick" else \
         [((3,), 2, 1, 1), ((2, 2), 3, 1, 1), ((3,), 3, 2, 1), ((4,), 2, 2, 2), ((4,), 3, 1, 1), ((3, 2), 3, 2, 1), ((2, 2), 4, 2, 2)]
    for sizes, nb, n, t in hm:
        h = HaploMat(sizes=list(sizes), nblk=nb, n=n, t=t)
        h.weight = 2 ** sum(sizes) * n
        obs.append(h)
    oh = [((3,), 2, 2, 2, 1), ((2,), 2, 3, 3, 1)] if tier == "quick" else [((3,), 2, 2, 2, 1), ((2, 2), 3, 3, 2, 1), ((3,), 3, 3, 3, 1), ((3,), 2, 2, 2, 2)]
    for sizes, nb, n, npar, t in oh:
        h = OHVMat(sizes=list(sizes), nblk=nb, n=n, nparent=npar, t=t)
        h.weight = 500
        obs.append(h)
        if tier == "thorough":
            obs.append(OHVMat(sizes=list(sizes), nblk=nb, n=n, nparent=npar, t=t, mem=1, unique=False))
    # memory chunks that do not divide the number of crosses (a partial last chunk must still be filled)
    obs.append(OHVMat(sizes=[2], nblk=2, n=3, nparent=2, t=1, mem=2))
    if tier == "thorough":
        obs.append(OHVMat(sizes=[3], nblk=2, n=3, nparent=2, t=1, mem=2, unique=False))
    return obs


def replay_known(f):
    """witness of the known finding: positions [0, 0.9, 1.0], three blocks requested"""
    compat.load(HAPLO)
    compat.symbolic_mode(False)
    import pybrops.core.util.haplo as H
    w = f["witness"]
    g = numpy.array(w["genpos"], dtype=float)
    st, sp = numpy.array([0]), numpy.array([len(g)])
    nblk = H.nhaploblk_chrom(w["nhaploblk"], g, st, sp)
    hb = H.haplobin(nblk, g, st, sp)
    nfound = len(set(hb.tolist()))
    return nfound != w["nhaploblk"], "genpos=%s, %d blocks requested -> bins %s (%d blocks)" % (w["genpos"], w["nhaploblk"], hb.tolist(), nfound)
