"""C09 Genotype summary statistics are exact and mutually consistent"""
import ast
import time
import traceback

import numpy
import z3

from ..harness import Harness, And, Or, Not, Implies, Ite, cells, cell
from .. import sym, symnp, fpkernel, compat
from ..fpkernel import Kernel, Iv, FPv, Bv, F64, BVW
from ..sym import SV

PROPERTY = "C09"
ASSUMPTIONS = [
    "allele calls are in {0,1} per phase (phased) / {0..ploidy} (unphased): the documented coding",
    "fp64 kernels: the allele count is an arbitrary integer in [0, ploidy*n]; integer sums are exact (true for int64 accumulators at these sizes)",
]
STUBS = []
BOUNDS = {"quick": dict(real_mode="taxa<=3, markers<=2, ploidy 2 (phased matrices of 1 and 4 phases through the genotyping protocol)", accumulators="result dtype of acount/gtcount >= 32 bit", fp64="n in [1,64], ploidy 2: afreq/afixed/apoly/maf arithmetic as written in the source"),
          "thorough": dict(real_mode="taxa<=4, markers<=2", fp64="n in [1,256], ploidy in {1,2,3,4}")}
OUTSIDE = ["requested output dtypes other than the default (dtype.type(...) conversions run in compiled code)",
           "populations larger than the fp64 bound", "more taxa/markers than the real-mode bounds"]

GM = "pybrops.popgen.gmat.DenseGenotypeMatrix"
PGM = "pybrops.popgen.gmat.DensePhasedGenotypeMatrix"


def _mk_gmat(kind, mat, ploidy=2):
    n = mat.shape[-2]
    m = mat.shape[-1]
    kw = dict(taxa=numpy.array(["t%d" % i for i in range(n)], dtype=object), taxa_grp=numpy.arange(n),
              vrnt_chrgrp=numpy.ones(m, dtype="int64"), vrnt_phypos=numpy.arange(m) + 1)
    if kind == "phased":
        from pybrops.popgen.gmat.DensePhasedGenotypeMatrix import DensePhasedGenotypeMatrix
        return DensePhasedGenotypeMatrix(mat=mat, **kw)
    from pybrops.popgen.gmat.DenseGenotypeMatrix import DenseGenotypeMatrix
    return DenseGenotypeMatrix(mat=mat, ploidy=ploidy, **kw)


_STATS = ["tacount", "tafreq", "acount", "afreq", "afixed", "apoly", "maf", "meh", "gtcount", "gtfreq"]
_FORMATS = ["{0,1,2}", "{-1,0,1}", "{-1,m,1}"]


class GenoStats(Harness):
    name = "genotype-statistics"

    def modules(self):
        return [GM, PGM, "pybrops.breed.prot.gt.DenseUnphasedGenotyping"]

    def inputs(self, mk):
        n, m, kind = self.params["n"], self.params["m"], self.params["kind"]
        if kind == "phased":
            A = mk.int("a", (self.params.get("nphase", 2), n, m), lo=0, hi=1, vd="int8")
        else:
            A = mk.int("a", (n, m), lo=0, hi=2, vd="int8")
        return dict(A=A)

    def call(self, inp, mk):
        kind = self.params["kind"]
        A = inp["A"]
        g = _mk_gmat(kind, A.copy())
        out = {}
        for s in _STATS:
            out[s] = getattr(g, s)()
        for f in _FORMATS:
            out["fmt" + f] = g.mat_asformat(f)
        if kind == "phased":
            # unphased projection of the same calls: by hand for diploids, through the real genotyping protocol otherwise (ploidy = number of phases)
            if self.params.get("nphase", 2) == 2:
                proj = A.sum(0, dtype="int8") if not isinstance(A, symnp.SymArray) else symnp.f_sum(A, axis=0, dtype="int8")
                g2 = _mk_gmat("unphased", proj)
            else:
                from pybrops.breed.prot.gt.DenseUnphasedGenotyping import DenseUnphasedGenotyping
                g2 = DenseUnphasedGenotyping().genotype(g)
                out["proj_ploidy"] = g2.ploidy
            for s in _STATS:
                out["proj_" + s] = getattr(g2, s)()
            for f in _FORMATS:
                out["proj_fmt" + f] = g2.mat_asformat(f)
        out["mat_after"] = g.mat
        return out

    def check(self, P, inp, out):
        n, m, kind = self.params["n"], self.params["m"], self.params["kind"]
        ploidy = self.params.get("nphase", 2) if kind == "phased" else 2
        A = inp["A"]
        if "proj_ploidy" in out:
            P.prove(int(out["proj_ploidy"]) == ploidy, "unphased-projection-has-ploidy=number-of-phases", detail="%s" % out["proj_ploidy"])
        if kind == "phased":
            dos = [[sum([cell(A, h, i, j) for h in range(1, ploidy)], cell(A, 0, i, j)) for j in range(m)] for i in range(n)]
        else:
            dos = [[cell(A, i, j) for j in range(m)] for i in range(n)]
        for pre in ([""] + (["proj_"] if kind == "phased" else [])):
            tac, taf = out[pre + "tacount"], out[pre + "tafreq"]
            P.prove(tuple(tac.shape) == (n, m) and tuple(taf.shape) == (n, m), pre + "per-taxon-shapes")
            for i in range(n):
                for j in range(m):
                    P.prove(P.eq(cell(tac, i, j), dos[i][j]), pre + "tacount=dosage")
                    P.prove(P.eq(cell(taf, i, j) * ploidy, dos[i][j]), pre + "tafreq=dosage/ploidy")
            acnt, afr = out[pre + "acount"], out[pre + "afreq"]
            # the population-wide count is a sum over taxa: its (default) integer type must not wrap for any population the bounds cannot reach
            # (an int8 accumulator wraps at 64 diploids, int16 at 16384); decided on the result dtype the engine tracks
            P.prove(acnt.dtype.kind in "iu" and acnt.dtype.itemsize >= 4, pre + "acount-accumulator-is-at-least-32-bit", detail="acount dtype %s" % acnt.dtype)
            for nm_ in ("gtcount",):
                P.prove(out[pre + nm_].dtype.kind in "iu" and out[pre + nm_].dtype.itemsize >= 4, pre + nm_ + "-accumulator-is-at-least-32-bit", detail="%s" % out[pre + nm_].dtype)
            meh_ref = 0.0
            P.prove(tuple(afr.shape) == (m,), pre + "afreq-shape")
            gtc, gtf = out[pre + "gtcount"], out[pre + "gtfreq"]
            P.prove(tuple(gtc.shape) == (ploidy + 1, m), pre + "gtcount-covers-ploidy+1-classes",
                    detail="gtcount shape %s" % (tuple(gtc.shape),))
            for j in range(m):
                tot = 0
                for i in range(n):
                    tot = tot + dos[i][j]
                p = cell(afr, j)
                P.prove(P.eq(cell(acnt, j), tot), pre + "acount=sum-dosage")
                P.prove(P.eq(p * (ploidy * n), tot), pre + "afreq=acount/(ploidy*n)")
                P.prove(And(p >= 0, p <= 1), pre + "afreq-in-[0,1]")
                fixed = Or(tot == 0, tot == ploidy * n)
                P.prove(P.eq(cell(out[pre + "afixed"], j), fixed) if P.concrete else (sym.sv_truth(cell(out[pre + "afixed"], j)) == fixed), pre + "afixed<=>all-copies-identical")
                P.prove(P.eq(cell(out[pre + "apoly"], j), Not(fixed)) if P.concrete else (sym.sv_truth(cell(out[pre + "apoly"], j)) == Not(fixed)), pre + "apoly<=>not-fixed")
                mafv = cell(out[pre + "maf"], j)
                P.prove(P.eq(mafv, Ite(p <= 1 - p, p, 1 - p)), pre + "maf=min(p,1-p)")
                meh_ref = meh_ref + p * (1 - p)
                if tuple(gtc.shape) == (ploidy + 1, m):
                    s = 0
                    for g in range(ploidy + 1):
                        ref = 0
                        for i in range(n):
                            ref = ref + Ite(dos[i][j] == g, 1, 0)
                        P.prove(P.eq(cell(gtc, g, j), ref), pre + "gtcount=class-count")
                        P.prove(P.eq(cell(gtf, g, j) * n, ref), pre + "gtfreq=gtcount/n")
                        s = s + cell(gtc, g, j)
                    P.prove(P.eq(s, n), pre + "gtcount-sums-to-ntaxa")
            P.prove(P.eq(out[pre + "meh"] * m, ploidy * meh_ref), pre + "meh=ploidy*mean(p(1-p))")
            f0, f1, f2 = out[pre + "fmt{0,1,2}"], out[pre + "fmt{-1,0,1}"], out[pre + "fmt{-1,m,1}"]
            for j in (range(m) if ploidy == 2 else ()):      # the coded formats are defined for diploids
                colsum = 0.0
                for i in range(n):
                    colsum = colsum + (dos[i][j] - 1)
                for i in range(n):
                    P.prove(P.eq(cell(f0, i, j), dos[i][j]), pre + "format{0,1,2}")
                    P.prove(P.eq(cell(f1, i, j), dos[i][j] - 1), pre + "format{-1,0,1}")
                    P.prove(P.eq(cell(f2, i, j) * n, Ite(dos[i][j] == 1, colsum, (dos[i][j] - 1) * n)), pre + "format{-1,m,1}")
        # input untouched
        for x, y in zip(cells(out["mat_after"]), cells(A)):
            P.prove(P.eq(x, y), "genotypes-unchanged")


class StatsAfterInplace(Harness):
    """statistics are functions of the current allele calls: query, edit the taxa in place, query again"""
    name = "statistics-after-in-place-edit"

    def modules(self):
        return [GM, PGM, "pybrops.breed.prot.gt.DenseUnphasedGenotyping"]

    def inputs(self, mk):
        n, m, kind = self.params["n"], self.params["m"], self.params["kind"]
        if kind == "phased":
            A = mk.int("a", (self.params.get("nphase", 2), n, m), lo=0, hi=1, vd="int8")
        else:
            A = mk.int("a", (n, m), lo=0, hi=2, vd="int8")
        return dict(A=A)

    def call(self, inp, mk):
        kind, op = self.params["kind"], self.params["op"]
        A = inp["A"]
        g = _mk_gmat(kind, A.copy())
        first = {s: getattr(g, s)() for s in ("acount", "afreq", "apoly", "maf", "meh", "gtcount")}
        n = self.params["n"]
        if op == "remove":
            g.remove_taxa([0])
            keep = list(range(1, n))
        elif op == "append":
            extra = A[..., :1, :] if kind == "phased" else A[:1, :]
            g.append_taxa(extra, taxa=numpy.array(["x"], dtype=object), taxa_grp=numpy.array([9]))
            keep = list(range(n)) + [0]
        else:
            extra = A[..., :1, :] if kind == "phased" else A[:1, :]
            g.incorp_taxa(0, extra, taxa=numpy.array(["x"], dtype=object), taxa_grp=numpy.array([9]))
            keep = [0] + list(range(n))
        second = {s: getattr(g, s)() for s in ("acount", "afreq", "apoly", "maf", "meh", "gtcount")}
        return dict(first=first, second=second, keep=keep, ntaxa=g.ntaxa)

    def check(self, P, inp, out):
        n, m, kind = self.params["n"], self.params["m"], self.params["kind"]
        A = inp["A"]
        keep = out["keep"]
        P.prove(out["ntaxa"] == len(keep), "ntaxa-after-edit")
        if kind == "phased":
            dos = [[cell(A, 0, i, j) + cell(A, 1, i, j) for j in range(m)] for i in keep]
        else:
            dos = [[cell(A, i, j) for j in range(m)] for i in keep]
        k = len(keep)
        sec = out["second"]
        mehref = 0.0
        for j in range(m):
            tot = 0
            for i in range(k):
                tot = tot + dos[i][j]
            p = cell(sec["afreq"], j)
            P.prove(P.eq(cell(sec["acount"], j), tot), "acount-after-edit=sum-of-current-calls")
            P.prove(P.eq(p * (2 * k), tot), "afreq-after-edit=count/(ploidy*current-ntaxa)")
            fixed = Or(tot == 0, tot == 2 * k)
            P.prove(P.eq(cell(sec["apoly"], j), Not(fixed)) if P.concrete else (sym.sv_truth(cell(sec["apoly"], j)) == Not(fixed)), "apoly-after-edit")
            P.prove(P.eq(cell(sec["maf"], j), Ite(p <= 1 - p, p, 1 - p)), "maf-after-edit")
            mehref = mehref + p * (1 - p)
            s_ = 0
            for g_ in range(3):
                s_ = s_ + cell(sec["gtcount"], g_, j)
            P.prove(P.eq(s_, k), "gtcount-after-edit-sums-to-current-ntaxa")
        P.prove(P.eq(sec["meh"] * m, 2 * mehref), "meh-after-edit")


# --------------------------------------------------------------------------
# fp64 kernel: the arithmetic of afreq / afixed / apoly / maf exactly as written
# --------------------------------------------------------------------------
class AfreqFP:
    """p == 0 <=> count == 0, p == 1 <=> count == ploidy*n, 0 <= p <= 1, afixed <=> fixed, apoly <=> not fixed,
    maf in [0, 0.5] and maf == 0 <=> fixed -- in IEEE double arithmetic, for every n in [1, nmax]"""
    weight = 1000

    def __init__(self, kind, nmax, ploidies=(2,), timeout_s=900):
        self.kind, self.nmax, self.ploidies, self.timeout_s = kind, nmax, tuple(ploidies), timeout_s
        self.active_known = set()

    def modules(self):
        return [GM, PGM]

    def describe(self):
        return "fp64:afreq/afixed/apoly/maf{kind=%s,n<=%d,ploidy in %s}" % (self.kind, self.nmax, list(self.ploidies))

    def _cls(self):
        if self.kind == "phased":
            from pybrops.popgen.gmat.DensePhasedGenotypeMatrix import DensePhasedGenotypeMatrix as C
        else:
            from pybrops.popgen.gmat.DenseGenotypeMatrix import DenseGenotypeMatrix as C
        return C

    def encode(self):
        C = self._cls()
        n = z3.BitVec("n", BVW)
        c = z3.BitVec("count", BVW)
        pl = z3.BitVec("ploidy", BVW)
        base = {"self.ploidy": Iv(pl), "self.ntaxa": Iv(n), "self._ploidy": Iv(pl)}

        def hook(node, key):
            # any reduction of the genotype array over taxa (and phases) is the allele count
            if isinstance(node, ast.Call) and isinstance(node.func, ast.Attribute) and node.func.attr == "sum":
                tgt = ast.unparse(node.func.value)
                if tgt in ("self._mat", "self.mat"):
                    return Iv(c)
            return None
        k1 = Kernel(C.afreq, call_env=dict(base), consts=dict(dtype=None), hook=hook)
        p = k1.run()
        if not isinstance(p, FPv):
            raise fpkernel.KernelUnsupported("afreq did not yield a float expression")
        env2 = dict(base)
        env2["self.afreq()"] = p
        env2["self.afreq(dtype)"] = p
        outs = {"afreq": p}
        if self.kind == "unphased":
            # phased apoly/afixed are all()-based on the calls (covered in real mode)
            outs["afixed"] = Kernel(C.afixed, call_env=dict(env2), consts=dict(dtype=None), hook=hook).run()
            outs["apoly"] = Kernel(C.apoly, call_env=dict(env2), consts=dict(dtype=None), hook=hook).run()
        outs["maf"] = Kernel(C.maf, call_env=dict(env2), consts=dict(dtype=None), hook=hook).run()
        return n, c, pl, outs

    def run(self, tier):
        t0 = time.time()
        res = dict(name=self.describe(), status="ok", message="", paths=1, validated=0, labels={}, functions=[],
                   stats=dict(decisions=1, prove_queries=0, prove_unsat=0, prove_sat=0, prove_unknown=0, branch_queries=0, solver_s=0.0),
                   sample=None, reached_assertions=1)
        try:
            compat.load(*self.modules())
            n, c, pl, outs = self.encode()
            res["functions"] = ["pybrops/popgen/gmat/%s.py:%s (fp64 AST translation)" % (self._cls().__name__, f) for f in outs]
            one, zero, half = z3.FPVal(1.0, F64), z3.FPVal(0.0, F64), z3.FPVal(0.5, F64)
            p = outs["afreq"].t
            full = pl * n
            fixed = z3.Or(c == 0, c == full)
            bad = [("p==1 <=> count==ploidy*n", z3.fpEQ(p, one) != (c == full)),
                   ("p==0 <=> count==0", z3.fpEQ(p, zero) != (c == 0)),
                   ("0<=p<=1", z3.Or(z3.fpLT(p, zero), z3.fpGT(p, one), z3.fpIsNaN(p)))]
            if "afixed" in outs:
                bad.append(("afixed <=> all copies identical", outs["afixed"].t != fixed))
                bad.append(("apoly <=> not fixed", outs["apoly"].t != z3.Not(fixed)))
            mf = outs["maf"].t
            bad.append(("maf in [0,0.5]", z3.Or(z3.fpLT(mf, zero), z3.fpGT(mf, half))))
            bad.append(("maf==0 <=> fixed", z3.fpEQ(mf, zero) != fixed))
            dom = [z3.ULE(1, n), z3.ULE(n, self.nmax), z3.Or(*[pl == q for q in self.ploidies]), z3.ULE(c, full)]
            # reachability twin: the domain itself is satisfiable
            r0, m0, dt0 = fpkernel.solve(dom, 60)
            if r0 != "sat":
                raise RuntimeError("vacuous fp64 domain")
            for label, b in bad:
                res["labels"][label] = 1
                r, mdl, dt = fpkernel.solve(dom + [b], self.timeout_s)
                res["stats"]["prove_queries"] += 1
                res["stats"]["solver_s"] += dt
                if r == "unsat":
                    res["stats"]["prove_unsat"] += 1
                    continue
                if r == "sat":
                    res["stats"]["prove_sat"] += 1
                    vals = dict(n=mdl.eval(n, True).as_long(), count=mdl.eval(c, True).as_long(),
                                ploidy=mdl.eval(pl, True).as_long(), kind=self.kind)
                    ok, info = replay_counts(vals)
                    res["cex"] = vals
                    res["message"] = label
                    res["replay_info"] = info
                    res["status"] = "violation" if ok else "unconfirmed"
                    break
                res["stats"]["prove_unknown"] += 1
                res["status"] = "inconclusive"
                res["message"] = "solver returned %s on '%s' after %.0fs" % (r, label, dt)
                break
            if res["status"] == "ok":
                res["sample"] = dict(inputs=dict(domain="n in [1,%d], count in [0,ploidy*n]" % self.nmax,
                                                 witness_of_domain=dict(n=m0.eval(n, True).as_long(), count=m0.eval(c, True).as_long())))
                # translator validation: evaluate the encoding on concrete (n,count) and compare with the real class
                nv = 0
                for (nn, cc) in [(1, 0), (1, 2), (3, 3), (7, 14), (49, 98), (min(self.nmax, 50), 1), (min(self.nmax, 64), 127 if self.nmax >= 64 else 1)]:
                    for q in self.ploidies[:1]:
                        if cc > q * nn:
                            continue
                        s = z3.Solver()
                        s.add(n == nn, c == cc, pl == q)
                        assert s.check() == z3.sat
                        mm = s.model()
                        enc = float(eval(str(mm.eval(outs["afreq"].t, True)).replace("oo", "float('inf')").replace("NaN", "float('nan')"))) \
                            if False else _fp_value(mm.eval(outs["afreq"].t, True))
                        real = _real_stats(self.kind, nn, cc, q)["afreq"]
                        if enc != real:
                            raise RuntimeError("fp64 encoding disagrees with the real class at n=%d count=%d: %r vs %r" % (nn, cc, enc, real))
                        nv += 1
                res["validated"] = nv
        except fpkernel.KernelUnsupported as ex:
            res["status"] = "error"
            res["message"] = "fp64 translator: %s" % ex
        except Exception as ex:
            res["status"] = "error"
            res["message"] = "%s\n%s" % (ex, traceback.format_exc(limit=6))
        res["wall_s"] = round(time.time() - t0, 2)
        return res


def _fp_value(v):
    """z3 FP numeral -> python float (exact)"""
    if z3.is_fp_value(v):
        if v.isNaN():
            return float("nan")
        if v.isInf():
            return float("-inf") if v.isNegative() else float("inf")
        if v.isZero():
            return -0.0 if v.isNegative() else 0.0
        sig = v.significand_as_long()
        ex = v.exponent_as_long(False)
        sbits = v.sbits() - 1
        val = (1 + sig / 2.0 ** sbits) * 2.0 ** ex if v.isNormal() else (sig / 2.0 ** sbits) * 2.0 ** (ex + 1)
        return -val if v.isNegative() else val
    raise RuntimeError("not an fp numeral: %s" % v)


def _real_stats(kind, n, count, ploidy):
    """real classes on a one-locus population with the given allele count"""
    compat.load(GM, PGM)
    compat.symbolic_mode(False)
    if kind == "phased":
        mat = numpy.zeros((2, n, 1), dtype="int8")
        flat = mat.reshape(-1)
        flat[:count] = 1
        mat = flat.reshape(n, 2, 1).transpose(1, 0, 2).copy()
        g = _mk_gmat("phased", mat)
    else:
        mat = numpy.zeros((n, 1), dtype="int8")
        full, rem = divmod(count, ploidy)
        mat[:full, 0] = ploidy
        if rem:
            mat[full, 0] = rem
        g = _mk_gmat("unphased", mat, ploidy=ploidy)
    return dict(afreq=float(g.afreq()[0]), afixed=bool(g.afixed()[0]) if hasattr(g, "afixed") else None,
                apoly=bool(g.apoly()[0]), maf=float(g.maf()[0]))


def replay_counts(vals):
    n, c, q, kind = vals["n"], vals["count"], vals["ploidy"], vals["kind"]
    if kind == "phased" and q != 2:
        return False, "phased matrices are diploid"
    st = _real_stats(kind, n, c, q)
    fixed = (c == 0 or c == q * n)
    fails = []
    if (st["afreq"] == 1.0) != (c == q * n):
        fails.append("afreq==1 is %s but count %d of %d" % (st["afreq"] == 1.0, c, q * n))
    if (st["afreq"] == 0.0) != (c == 0):
        fails.append("afreq==0 mismatch")
    if not (0.0 <= st["afreq"] <= 1.0):
        fails.append("afreq outside [0,1]: %r" % st["afreq"])
    if st["afixed"] is not None and st["afixed"] != fixed:
        fails.append("afixed=%s but fixed=%s (afreq=%r)" % (st["afixed"], fixed, st["afreq"]))
    if st["apoly"] != (not fixed):
        fails.append("apoly=%s but fixed=%s" % (st["apoly"], fixed))
    if not (0.0 <= st["maf"] <= 0.5) or ((st["maf"] == 0.0) != fixed):
        fails.append("maf=%r with fixed=%s" % (st["maf"], fixed))
    return (len(fails) > 0), ("real %s matrix with n=%d, allele count %d: %s" % (kind, n, c, "; ".join(fails) if fails else "all predicates hold"))


AfreqFP.replay = lambda self, vals: replay_counts(vals)


def obligations(tier):
    obs = []
    sizes = [(1, 1), (2, 1), (2, 2), (3, 1)] if tier == "quick" else [(1, 1), (1, 2), (2, 1), (2, 2), (3, 1), (3, 2), (4, 1)]
    for kind in ("phased", "unphased"):
        for n, m in sizes:
            if kind == "phased" and tier == "quick" and (n, m) == (2, 2):
                continue
            h = GenoStats(kind=kind, n=n, m=m)
            h.weight = (3 if kind == "phased" else 1) ** n * 3 ** m
            obs.append(h)
    # haploid / tetraploid phased matrices and their projection through the genotyping protocol
    for nph, n, m in ([(1, 2, 1), (4, 1, 1)] if tier == "quick" else [(1, 2, 1), (1, 3, 2), (4, 1, 1), (3, 2, 1), (4, 2, 1)]):
        h = GenoStats(kind="phased", n=n, m=m, nphase=nph)
        h.weight = 2 ** (nph * n * m)
        obs.append(h)
    for kind in ("phased", "unphased"):
        for op in ("remove", "append", "incorp"):
            if tier == "quick" and op == "incorp":
                continue
            obs.append(StatsAfterInplace(kind=kind, op=op, n=2, m=1))
            if tier == "thorough":
                obs.append(StatsAfterInplace(kind=kind, op=op, n=3, m=2))
    nmax = 64 if tier == "quick" else 256
    pls = (2,) if tier == "quick" else (1, 2, 3, 4)
    obs.append(AfreqFP("unphased", nmax, pls))
    obs.append(AfreqFP("phased", nmax, (2,)))
    return obs


def replay_known(f):
    raise NotImplementedError
