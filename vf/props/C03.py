"""C03 Labels stay attached to their data under every matrix operation history"""
import importlib
import itertools

import numpy
import z3

from ..harness import Harness, And, Or, Not, Implies, Ite, cells, cell, is_nan
from .. import sym, symnp, compat
from ..sym import SV
from ..symnp import SymArray, raw

PROPERTY = "C03"
ASSUMPTIONS = [
    "every label (taxon name, group, chromosome, position, variant name, map position, crossover probability, haplotype fields, mask bit, trait name) and every data cell is a distinct solver constant standing for its value (strings are represented by integer constants); attachment is decided by term identity, ordering/grouping clauses by z3",
    "index arguments are enumerated concretely (ints, lists with duplicates, slices); label arrays present/absent patterns are enumerated",
]
STUBS = []
BOUNDS = {"quick": dict(axis_length="<=3", history="one operation from a fresh state and from the state produced by the real group_<axis>()", classes="12 labelled matrix classes"),
          "thorough": dict(axis_length="<=3", history="one and two operations", classes="12 labelled matrix classes")}
OUTSIDE = ["axis length > 3, histories longer than the bound", "string-specific behaviour of labels", "cross-source blocks of square matrices under insert/adjoin/concat (not exercised)"]

CLASSES = {
    "DenseTaxaMatrix": ("pybrops.core.mat.DenseTaxaMatrix", lambda L: (L["taxa"], 2), "float64"),
    "DenseVariantMatrix": ("pybrops.core.mat.DenseVariantMatrix", lambda L: (L["vrnt"], 2), "float64"),
    "DenseTraitMatrix": ("pybrops.core.mat.DenseTraitMatrix", lambda L: (L["trait"], 2), "float64"),
    "DenseTaxaVariantMatrix": ("pybrops.core.mat.DenseTaxaVariantMatrix", lambda L: (L["taxa"], L["vrnt"]), "float64"),
    "DensePhasedTaxaVariantMatrix": ("pybrops.core.mat.DensePhasedTaxaVariantMatrix", lambda L: (2, L["taxa"], L["vrnt"]), "float64"),
    "DenseTaxaTraitMatrix": ("pybrops.core.mat.DenseTaxaTraitMatrix", lambda L: (L["taxa"], L["trait"]), "float64"),
    "DenseSquareTaxaMatrix": ("pybrops.core.mat.DenseSquareTaxaMatrix", lambda L: (L["taxa"], L["taxa"]), "float64"),
    "DenseSquareTaxaTraitMatrix": ("pybrops.core.mat.DenseSquareTaxaTraitMatrix", lambda L: (L["taxa"], L["taxa"], L["trait"]), "float64"),
    "DenseGenotypeMatrix": ("pybrops.popgen.gmat.DenseGenotypeMatrix", lambda L: (L["taxa"], L["vrnt"]), "int8"),
    "DensePhasedGenotypeMatrix": ("pybrops.popgen.gmat.DensePhasedGenotypeMatrix", lambda L: (2, L["taxa"], L["vrnt"]), "int8"),
    "DenseMolecularCoancestryMatrix": ("pybrops.popgen.cmat.DenseMolecularCoancestryMatrix", lambda L: (L["taxa"], L["taxa"]), "float64"),
    "DenseEstimatedBreedingValueMatrix": ("pybrops.popgen.bvmat.DenseEstimatedBreedingValueMatrix", lambda L: (L["taxa"], L["trait"]), "float64"),
    "DenseSquareTaxaSquareTraitMatrix": ("pybrops.core.mat.DenseSquareTaxaSquareTraitMatrix", lambda L: (L["taxa"], L["taxa"], 2, 2), "float64"),
}
SQUARE = {"DenseSquareTaxaMatrix", "DenseSquareTaxaTraitMatrix", "DenseMolecularCoancestryMatrix", "DenseSquareTaxaSquareTraitMatrix"}
SCALED = {"DenseEstimatedBreedingValueMatrix"}

AXES = {
    "taxa": dict(fields=[("taxa", "obj"), ("taxa_grp", "int")], grp="taxa_grp", meta="taxa_grp", sortkeys=["taxa_grp", "taxa"]),
    "vrnt": dict(fields=[("vrnt_chrgrp", "int"), ("vrnt_phypos", "int"), ("vrnt_name", "obj"), ("vrnt_genpos", "float"), ("vrnt_xoprob", "float"),
                         ("vrnt_hapgrp", "int"), ("vrnt_hapalt", "obj"), ("vrnt_hapref", "obj"), ("vrnt_mask", "bool")],
                 grp="vrnt_chrgrp", meta="vrnt_chrgrp", sortkeys=["vrnt_chrgrp", "vrnt_phypos"]),
    "trait": dict(fields=[("trait", "obj")], grp=None, meta=None, sortkeys=["trait"]),
}
VD = dict(obj="object", int="int64", float="float64", bool="bool")

KNOWN_BV = "C15-concat/append-ignore-location-and-scale"
KNOWN_BVCTOR = "C03-bvmat-inherited-ops-call-constructor-without-location-scale"
KNOWN_SQTT = "C03-square-taxa-trait-ops-drop-other-axis-labels"


def _is(c, d):
    if isinstance(c, SV) and isinstance(d, SV):
        return c.e.eq(d.e)
    if isinstance(c, SV) or isinstance(d, SV):
        return False
    return c == d or (is_nan(c) and is_nan(d))


def _class(name):
    modname = CLASSES[name][0]
    return getattr(importlib.import_module(modname), name)


def _axes_of(name):
    if name == "DenseSquareTaxaSquareTraitMatrix":
        return ["taxa"]        # its (square) trait axes are exercised only through the taxa operations' data blocks
    C = _class(name)
    return [a for a in ("taxa", "vrnt", "trait") if hasattr(C, "select_" + a)]


def build(mk, name, L, tag, absent=()):
    """a fresh object of class `name` whose every cell is a distinct constant; returns (obj, labels dict)"""
    modname, shapefn, dt = CLASSES[name]
    C = _class(name)
    shp = shapefn(L)
    mat = mk.int("M%s" % tag, shp, vd="int8") if dt == "int8" else mk.real("M%s" % tag, shp)
    kw = {}
    for ax in _axes_of(name):
        for f, kind in AXES[ax]["fields"]:
            if f in absent:
                continue
            nm = "%s%s" % (f, tag)
            if kind == "float":
                kw[f] = mk.real(nm, (L[ax],))
            elif kind == "bool":
                kw[f] = mk.bool(nm, (L[ax],))
            else:
                kw[f] = mk.int(nm, (L[ax],), vd=VD[kind])
    if name in SCALED:
        kw.update(location=0.0, scale=1.0)
    o = C(mat=mat, **kw)
    return o


def snapshot(o, name):
    """identity snapshot of all observable arrays of an object"""
    snap = {"mat": list(cells(o.mat)), "shape": tuple(o.mat.shape)}
    for ax in _axes_of(name):
        for f, _ in AXES[ax]["fields"]:
            v = getattr(o, f)
            snap[f] = None if v is None else list(cells(v))
        meta = AXES[ax]["meta"]
        if meta:
            for s in ("name", "stix", "spix", "len"):
                v = getattr(o, "%s_%s" % (meta, s))
                snap["%s_%s" % (meta, s)] = None if v is None else list(cells(v))
    return snap


def same_snapshot(a, b):
    if a.keys() != b.keys():
        return False
    for k in a:
        if k == "shape":
            if a[k] != b[k]:
                return False
            continue
        if (a[k] is None) != (b[k] is None):
            return False
        if a[k] is None:
            continue
        if len(a[k]) != len(b[k]) or not all(_is(x, y) for x, y in zip(a[k], b[k])):
            return False
    return True


def mat_axis(o, ax):
    return getattr(o, ax + "_axis")


def slice_cells(o, name, ax, pos, pos2=None):
    """cells of the data slice of entity `pos` along axis ax (square: the (pos,pos2) block cells)"""
    m = raw(o.mat) if isinstance(o.mat, SymArray) else o.mat
    a = mat_axis(o, ax)
    if name in SQUARE and ax == "taxa":
        idx = [slice(None)] * m.ndim
        idx[0], idx[1] = pos, pos2
        return list(numpy.asarray(m[tuple(idx)], dtype=object).ravel())
    idx = [slice(None)] * m.ndim
    idx[a] = pos
    return list(numpy.asarray(m[tuple(idx)], dtype=object).ravel())


class Expect:
    """reference model: the result along the operated axis is the sequence rows=[(source, position)]"""

    def __init__(self, rows):
        self.rows = rows


def check_attached(P, res, name, ax, rows, sources, label, skip_mat=False):
    """every result entity carries the labels and data of the source entity the reference model puts there"""
    L = len(rows)
    got_len = res.mat.shape[mat_axis(res, ax)]
    P.prove(got_len == L, label + ":axis-length", detail="got %d expected %d" % (got_len, L))
    if got_len != L:
        return
    for f, _ in AXES[ax]["fields"]:
        v = getattr(res, f)
        srcs_have = [getattr(sources[t], f) is not None for t, _ in rows]
        if v is None:
            P.prove(not all(srcs_have) or L == 0, label + ":%s-present" % f)
            continue
        cs = list(cells(v))
        P.prove(len(cs) == L, label + ":%s-length" % f)
        for p, (t, sp) in enumerate(rows):
            sv = getattr(sources[t], f)
            if sv is None:
                continue
            P.prove(_is(cs[p], cell(sv, sp)), label + ":%s-stays-attached" % f, detail="position %d should be %s[%d]" % (p, t, sp))
    if skip_mat:
        return
    if name in SQUARE and ax == "taxa":
        for p, (t, sp) in enumerate(rows):
            for q, (t2, sq) in enumerate(rows):
                if t != t2:
                    continue
                a = slice_cells(res, name, ax, p, q)
                b = slice_cells(sources[t], name, ax, sp, sq)
                P.prove(len(a) == len(b) and all(_is(x, y) for x, y in zip(a, b)), label + ":data-block-stays-attached", detail="block (%d,%d)" % (p, q))
    else:
        for p, (t, sp) in enumerate(rows):
            a = slice_cells(res, name, ax, p)
            b = slice_cells(sources[t], name, ax, sp)
            P.prove(len(a) == len(b) and all(_is(x, y) for x, y in zip(a, b)), label + ":data-slice-stays-attached", detail="position %d should be %s[%d]" % (p, t, sp))


def check_grouping(P, o, name, ax, label):
    """whenever the matrix reports itself grouped: a true contiguous partition of the current labels"""
    meta = AXES[ax]["meta"]
    if meta is None:
        return
    if not getattr(o, "is_grouped_" + ax)():
        return
    grp = getattr(o, AXES[ax]["grp"])
    n = o.mat.shape[mat_axis(o, ax)]
    names, stix, spix, ln = [getattr(o, "%s_%s" % (meta, s)) for s in ("name", "stix", "spix", "len")]
    stix, spix, ln = [int(x) for x in cells(stix)], [int(x) for x in cells(spix)], [int(x) for x in cells(ln)]
    k = len(stix)
    ok = (k == len(spix) == len(ln) == len(cells(names))) and (n == 0 or (k > 0 and stix[0] == 0 and spix[-1] == n)) and \
        all(spix[i] == stix[i + 1] for i in range(k - 1)) and all(ln[i] == spix[i] - stix[i] and ln[i] > 0 for i in range(k))
    P.prove(ok, label + ":grouped=>start/stop/length-form-a-contiguous-partition", detail="stix=%s spix=%s len=%s n=%d" % (stix, spix, ln, n))
    if not ok or grp is None:
        P.prove(grp is not None, label + ":grouped=>group-labels-present")
        return
    g = list(cells(grp))
    nm = list(cells(names))
    for i in range(k):
        for r in range(stix[i], spix[i]):
            P.prove(P.eq(g[r], nm[i]), label + ":grouped=>labels-constant-within-a-group", detail="row %d group %d" % (r, i))
    for i in range(k):
        for j in range(i + 1, k):
            P.prove(Not(P.eq(nm[i], nm[j])) if not P.concrete else nm[i] != nm[j], label + ":grouped=>labels-distinct-across-groups")


def check_sorted(P, o, ax, label):
    keys = [getattr(o, f) for f in AXES[ax]["sortkeys"]]
    keys = [list(cells(k)) for k in keys if k is not None]
    if not keys:
        return
    n = len(keys[0])
    for r in range(n - 1):
        # lexicographic non-decreasing
        cond = False
        eq_prefix = True
        for k in keys:
            cond = Or(cond, And(eq_prefix, k[r] < k[r + 1]))
            eq_prefix = And(eq_prefix, k[r] == k[r + 1])
        cond = Or(cond, eq_prefix)
        P.prove(cond, label + ":sorted-by-documented-keys")


def is_permutation_rows(P, res, name, ax, src, label):
    """result rows are a permutation of the source rows (sorting): find for each result row its source by identity of the first present label"""
    f0 = next(f for f, _ in AXES[ax]["fields"] if getattr(src, f) is not None)
    rv, sv = list(cells(getattr(res, f0))), list(cells(getattr(src, f0)))
    rows = []
    for c in rv:
        hit = [i for i, d in enumerate(sv) if _is(c, d)]
        if len(hit) != 1:
            P.fail(label + ":rows-are-a-permutation-of-the-source")
            return None
        rows.append(("A", hit[0]))
    P.prove(sorted(r[1] for r in rows) == list(range(len(sv))), label + ":rows-are-a-permutation-of-the-source")
    return rows


OPS = ["select", "select_dup", "select_neg", "delete_neg", "delete_negs", "delete_int", "delete_list", "delete_slice", "insert_obj", "insert_arr", "adjoin_obj", "adjoin_arr", "concat",
       "append_obj", "remove", "incorp_obj", "reorder", "sort", "group", "ungroup"]


def label_kwargs(b, ax):
    return {f: getattr(b, f) for f, _ in AXES[ax]["fields"]}


def apply_op(name, ax, op, a, b, generic=False):
    """returns (result object, rows, mutating?) ; rows in terms of sources 'A' and 'B'"""
    n = a.mat.shape[mat_axis(a, ax)]
    n2 = b.mat.shape[mat_axis(b, ax)]
    C = type(a)
    axnum = mat_axis(a, ax)

    def call(meth, *args, **kw):
        if generic:
            base = meth
            return getattr(a, base)(*args, axis=axnum, **kw)
        return getattr(a, "%s_%s" % (meth, ax))(*args, **kw)
    A = [("A", i) for i in range(n)]
    B = [("B", i) for i in range(n2)]
    if op == "select":
        idx = [n - 1, 0]
        return call("select", idx), [("A", i) for i in idx], False
    if op == "select_dup":
        idx = [0, 0, n - 1]
        return call("select", idx), [("A", i) for i in idx], False
    if op == "select_neg":
        # from-the-end indices (numpy.take semantics) mixed with ordinary ones
        idx = [-1, 0, -n]
        return call("select", idx), [("A", i % n) for i in idx], False
    if op == "delete_neg":
        return call("delete", -1), A[:-1], False
    if op == "delete_negs":
        return call("delete", [-1, 0]), A[1:-1], False
    if op == "delete_int":
        return call("delete", 0), A[1:], False
    if op == "delete_list":
        return call("delete", [0, n - 1]), [r for r in A if r[1] not in (0, n - 1)], False
    if op == "delete_slice":
        return call("delete", slice(0, 1)), A[1:], False
    if op == "insert_obj":
        return call("insert", 1, b), A[:1] + B + A[1:], False
    if op == "insert_arr":
        return call("insert", 1, b.mat, **label_kwargs(b, ax)), A[:1] + B + A[1:], False
    if op == "adjoin_obj":
        return call("adjoin", b), A + B, False
    if op == "adjoin_arr":
        return call("adjoin", b.mat, **label_kwargs(b, ax)), A + B, False
    if op == "concat":
        if generic:
            return C.concat([a, b], axis=axnum), A + B, False
        return getattr(C, "concat_" + ax)([a, b]), A + B, False
    if op == "append_obj":
        call("append", b)
        return a, A + B, True
    if op == "remove":
        call("remove", [0])
        return a, A[1:], True
    if op == "incorp_obj":
        call("incorp", 1, b)
        return a, A[:1] + B + A[1:], True
    if op == "reorder":
        perm = list(range(n))[::-1] if n != 3 else [1, 2, 0]
        call("reorder", perm)
        return a, [("A", i) for i in perm], True
    if op == "sort":
        if generic:
            a.sort(None, axis=axnum)
        else:
            getattr(a, "sort_" + ax)()
        return a, None, True
    if op == "group":
        call("group")
        return a, None, True
    if op == "ungroup":
        call("ungroup")
        return a, A, True
    raise KeyError(op)


class OneOp(Harness):
    name = "labelled-matrix-operation"
    needs_real_run = False      # attachment is decided by term identity of distinct constants; replays use distinct concrete codes (custom_replay)

    def modules(self):
        return sorted({v[0] for v in CLASSES.values()})

    def inputs(self, mk):
        return dict(mk=mk)

    def excused(self):
        """call sites covered by an active known finding (the operation itself raises / is known to be wrong)"""
        name, ax, op = self.params["cls"], self.params["ax"], self.params["op"]
        act = getattr(self, "active_known", ())
        if name in SCALED and KNOWN_BVCTOR in act and (ax == "trait" or op == "concat" or self.params.get("pre") == "concat"):
            return True
        return False

    def _run(self, mk):
        name, ax, op = self.params["cls"], self.params["ax"], self.params["op"]
        if self.excused():
            return dict(excused=True)
        L = dict(taxa=self.params.get("n", 3), vrnt=self.params.get("p", 2), trait=self.params.get("t", 2))
        L[ax] = self.params.get("len", 3)
        L2 = dict(L)
        L2[ax] = self.params.get("len2", 1)
        absent = tuple(self.params.get("absent", ()))
        absent_b = absent + tuple(self.params.get("absent_b", ()))      # labels the second operand alone comes without
        a = build(mk, name, L, "A", absent)
        b = build(mk, name, L2, "B", absent_b)
        ref = build(mk, name, L, "A", absent)      # identical constants: the untouched reference copy of A
        refb = build(mk, name, L2, "B", absent_b)
        pre = self.params.get("pre")
        if pre == "grouped":
            getattr(a, "group_" + ax)()
            getattr(ref, "group_" + ax)()
        elif pre:
            # two-step history: first operation applied to both a and its reference
            a1, rows1, mut1 = apply_op(name, ax, pre, a, b)
            r1, _, _ = apply_op(name, ax, pre, ref, refb)
            a, ref = a1, r1
        snap_a, snap_b = snapshot(a, name), snapshot(b, name)
        res, rows, mut = apply_op(name, ax, op, a, b, generic=bool(self.params.get("generic")))
        # the same operation through the other form (generic <-> specific) and its (non-)mutating counterpart on the reference copy
        res2, _, _ = apply_op(name, ax, op, ref, refb, generic=not bool(self.params.get("generic")))
        alias = None
        if not mut:
            # a derived object shares no mutable label/data state with its sources: permute a second result in place along every axis
            res3, _, _ = apply_op(name, ax, op, a, b, generic=bool(self.params.get("generic")))
            try:
                for axx in _axes_of(name):
                    k = res3.mat.shape[mat_axis(res3, axx)]
                    if k >= 2:
                        getattr(res3, "reorder_" + axx)(list(range(k))[::-1])
                alias = same_snapshot(snap_a, snapshot(a, name)) and same_snapshot(snap_b, snapshot(b, name))
            except Exception:
                alias = None       # the in-place operation itself is the subject of other obligations
        return dict(a=a, b=b, ref=ref, res=res, res2=res2, rows=rows, mut=mut, snap_a=snap_a, snap_b=snap_b, name=name, ax=ax, alias=alias)

    def call(self, inp, mk):
        return self._run(mk)

    def check(self, P, inp, out):
        name, ax, op = self.params["cls"], self.params["ax"], self.params["op"]
        if out.get("excused"):
            P.prove(True, "call-site-covered-by-a-known-finding")
            return
        res, rows, mut = out["res"], out["rows"], out["mut"]
        label = op
        sources = {"A": out["ref"] if mut else out["a"], "B": out["b"]}
        # for mutating operations the pre-state is the reference copy *before* its own operation was applied: rebuild from snapshot
        srcA = _Snap(out["snap_a"], name, out["a"]) if mut else out["a"]
        sources = {"A": srcA, "B": out["b"]}
        skip_mat = name in SCALED     # scaled matrices re-standardise their data (C15 covers values); labels still checked
        if rows is None:
            rows = is_permutation_rows(P, res, name, ax, srcA, label)
            if rows is None:
                return
            check_sorted(P, res, ax, label)
        if name in SCALED and op in ("concat", "append_obj", "incorp_obj", "remove") and KNOWN_BV in getattr(self, "active_known", ()):
            skip_mat = True
        check_attached(P, res, name, ax, rows, sources, label, skip_mat=skip_mat)
        # labels of the other labelled axes are untouched by an operation along this axis
        sq_known = (name == "DenseSquareTaxaTraitMatrix" and KNOWN_SQTT in getattr(self, "active_known", ()))
        for axx in _axes_of(name):
            if axx == ax or sq_known:
                continue
            for f, _ in AXES[axx]["fields"]:
                want = getattr(srcA, f)
                got = getattr(res, f)
                if want is None:
                    continue
                P.prove(got is not None and len(cells(got)) == len(cells(want)) and all(_is(x, y) for x, y in zip(cells(got), cells(want))),
                        label + ":labels-of-the-other-axes-kept (%s)" % f)
        if out.get("alias") is not None:
            P.prove(out["alias"], label + ":permuting-the-result-in-place-leaves-the-operands-unchanged (no shared label arrays)")
        if not mut:
            P.prove(same_snapshot(out["snap_a"], snapshot(out["a"], name)), label + ":operand-unchanged")
        P.prove(same_snapshot(out["snap_b"], snapshot(out["b"], name)), label + ":second-operand-unchanged")
        # generic form == axis-specific form (labels, data and group metadata)
        P.prove(same_snapshot(snapshot(res, name), snapshot(out["res2"], name)) if name not in SCALED else
                same_snapshot({k: v for k, v in snapshot(res, name).items() if k != "mat"}, {k: v for k, v in snapshot(out["res2"], name).items() if k != "mat"}),
                label + ":axis-generic-form=axis-specific-form")
        if op == "group":
            P.prove(getattr(res, "is_grouped_" + ax)() or getattr(res, AXES[ax]["grp"]) is None, label + ":group-marks-the-matrix-grouped")
        if op == "ungroup":
            P.prove(not getattr(res, "is_grouped_" + ax)(), label + ":ungroup-clears-the-grouping")
        for axx in _axes_of(name):
            check_grouping(P, res, name, axx, label)
            if not mut:
                check_grouping(P, out["a"], name, axx, label + "(operand)")


class _Snap:
    """read-only view of a snapshot with the attribute interface used by check_attached"""

    def __init__(self, snap, name, like):
        self._s = snap
        self._like = like
        shp = snap["shape"]
        m = numpy.empty(len(snap["mat"]), dtype=object)
        for i, c in enumerate(snap["mat"]):
            m[i] = c
        self.mat = SymArray(m.reshape(shp), "float64")
        for ax in _axes_of(name):
            setattr(self, ax + "_axis", getattr(like, ax + "_axis"))
            for f, _ in AXES[ax]["fields"]:
                v = snap[f]
                if v is None:
                    setattr(self, f, None)
                else:
                    arr = numpy.empty(len(v), dtype=object)
                    for i, c in enumerate(v):
                        arr[i] = c
                    setattr(self, f, SymArray(arr, "object"))


class MutatingEquivalence(Harness):
    """each mutating operation yields the same object state as its non-mutating counterpart"""
    name = "mutating=non-mutating"
    needs_real_run = False

    def modules(self):
        return sorted({v[0] for v in CLASSES.values()})

    def inputs(self, mk):
        return dict(mk=mk)

    def call(self, inp, mk):
        name, ax = self.params["cls"], self.params["ax"]
        act = getattr(self, "active_known", ())
        if (name in SCALED and KNOWN_BVCTOR in act and ax == "trait") or (name == "DenseSquareTaxaTraitMatrix" and KNOWN_SQTT in act):
            return dict(excused=True)
        L = dict(taxa=3, vrnt=2, trait=2)
        L[ax] = 3
        L2 = dict(L)
        L2[ax] = 1
        pairs = {"append_obj": "adjoin_obj", "remove": "delete_list1", "incorp_obj": "insert_obj", "reorder": "select_perm", "sort": "select_lexsort"}
        mutop = self.params["op"]
        a1, b1 = build(mk, name, L, "A"), build(mk, name, L2, "B")
        a2, b2 = build(mk, name, L, "A"), build(mk, name, L2, "B")
        r1, _, _ = apply_op(name, ax, mutop, a1, b1)
        if mutop == "append_obj":
            r2 = getattr(a2, "adjoin_" + ax)(b2)
        elif mutop == "remove":
            r2 = getattr(a2, "delete_" + ax)([0])
        elif mutop == "incorp_obj":
            r2 = getattr(a2, "insert_" + ax)(1, b2)
        elif mutop == "reorder":
            r2 = getattr(a2, "select_" + ax)([1, 2, 0])
        else:
            r2 = getattr(a2, "select_" + ax)(getattr(a2, "lexsort_" + ax)())
        return dict(r1=r1, r2=r2, name=name)

    def check(self, P, inp, out):
        name = self.params["cls"]
        if out.get("excused"):
            P.prove(True, "call-site-covered-by-a-known-finding")
            return
        s1, s2 = snapshot(out["r1"], name), snapshot(out["r2"], name)
        if name in SCALED:
            s1.pop("mat"), s2.pop("mat")
        P.prove(same_snapshot(s1, s2), "%s:same-state-as-the-non-mutating-counterpart" % self.params["op"])


def obligations(tier):
    obs = []
    for name in CLASSES:
        for ax in _axes_of_static(name):
            ops = list(OPS)
            if AXES[ax]["grp"] is None:
                ops = [o for o in ops if o not in ("group", "ungroup")]
            if name in SQUARE and ax == "taxa":
                ops = [o for o in ops if o in ("select", "select_dup", "select_neg", "delete_neg", "delete_negs", "delete_int", "delete_list", "remove", "reorder", "sort", "group", "ungroup")]
            for op in ops:
                for pre in ((None, "grouped") if (AXES[ax]["grp"] and not (name in SCALED and op not in ("reorder", "remove", "sort", "ungroup"))) else (None,)):
                    if tier == "quick" and pre == "grouped" and op not in ("reorder", "remove", "append_obj", "incorp_obj", "select", "sort", "ungroup", "delete_int"):
                        continue
                    for generic in ((False,) if tier == "quick" else (False, True)):
                        h = OneOp(cls=name, ax=ax, op=op, pre=pre, generic=generic, len=3 if op not in ("sort", "group") else (2 if tier == "quick" else 3))
                        h.weight = 30 if op in ("sort", "group") or pre == "grouped" else 3
                        obs.append(h)
            # the block brought in carries no names (first label field absent in the second operand only), lengths 1 and 3
            for op in ("adjoin_obj", "append_obj", "insert_obj", "incorp_obj"):
                if op in ops and ax == "taxa":      # the trait axis refuses a name-less block with an explicit error (by design)
                    for len2 in ((1,) if tier == "quick" else (1, 3)):
                        obs.append(OneOp(cls=name, ax=ax, op=op, pre=None, generic=False, len=2, len2=len2, absent_b=[AXES[ax]["fields"][0][0]]))
            if tier == "thorough":
                for absent in ([AXES[ax]["fields"][0][0]], [AXES[ax]["fields"][-1][0]]):
                    for op in ("select", "insert_obj", "adjoin_obj", "remove", "reorder"):
                        if op in ops:
                            obs.append(OneOp(cls=name, ax=ax, op=op, pre=None, generic=False, len=2, absent=absent))
                for pre, op in (("select", "group"), ("append_obj", "reorder"), ("reorder", "remove"), ("group", "append_obj"), ("remove", "sort"), ("incorp_obj", "delete_int")):
                    if pre in ops and op in ops and not (name in SQUARE and ax == "taxa" and pre in ("append_obj", "incorp_obj")):
                        h = OneOp(cls=name, ax=ax, op=op, pre=pre, generic=False, len=3 if pre != "select" else 3)
                        h.weight = 40
                        obs.append(h)
            for mop in ("append_obj", "remove", "incorp_obj", "reorder", "sort"):
                if name in SQUARE and ax == "taxa" and mop in ("append_obj", "incorp_obj"):
                    continue
                if tier == "quick" and mop == "sort" and name not in ("DenseTaxaMatrix", "DenseGenotypeMatrix"):
                    continue
                obs.append(MutatingEquivalence(cls=name, ax=ax, op=mop))
    return obs


def _axes_of_static(name):
    table = {"DenseTaxaMatrix": ["taxa"], "DenseVariantMatrix": ["vrnt"], "DenseTraitMatrix": ["trait"], "DenseTaxaVariantMatrix": ["taxa", "vrnt"],
             "DensePhasedTaxaVariantMatrix": ["taxa", "vrnt"], "DenseTaxaTraitMatrix": ["taxa", "trait"], "DenseSquareTaxaMatrix": ["taxa"],
             "DenseSquareTaxaTraitMatrix": ["taxa", "trait"], "DenseGenotypeMatrix": ["taxa", "vrnt"], "DensePhasedGenotypeMatrix": ["taxa", "vrnt"],
             "DenseMolecularCoancestryMatrix": ["taxa"], "DenseEstimatedBreedingValueMatrix": ["taxa", "trait"],
             "DenseSquareTaxaSquareTraitMatrix": ["taxa"]}
    return table[name]


def replay_known(f):
    compat.load(*sorted({v[0] for v in CLASSES.values()}))
    compat.symbolic_mode(False)
    if f["id"] == KNOWN_BVCTOR:
        C = _class("DenseEstimatedBreedingValueMatrix")
        o = C.from_numpy(numpy.array([[1.0, 2.0], [3.0, 5.0]]), taxa=numpy.array(["a", "b"], dtype=object), taxa_grp=numpy.array([0, 1]),
                         trait=numpy.array(["x", "y"], dtype=object))
        try:
            o.select_trait([1])
        except TypeError as ex:
            return True, "DenseEstimatedBreedingValueMatrix.select_trait([1]) raises TypeError: %s" % str(ex)[:120]
        return False, "select_trait works"
    if f["id"] == KNOWN_SQTT:
        C = _class("DenseSquareTaxaTraitMatrix")
        a = C(mat=numpy.arange(18, dtype=float).reshape(3, 3, 2), taxa=numpy.array(list("abc"), dtype=object), taxa_grp=numpy.arange(3),
              trait=numpy.array(["x", "y"], dtype=object))
        r1, r2 = a.delete_taxa([0]).trait, a.delete_trait([0]).taxa
        return (r1 is None or r2 is None), "delete_taxa([0]).trait = %r, delete_trait([0]).taxa = %r" % (r1, r2)
    raise KeyError(f["id"])


class DistinctMk:
    """concrete input factory for replays on real numpy: every requested cell gets its own value (so that attachment is
    observable by value), in a scrambled order (so that sorting/grouping does real work)"""
    concrete = True

    def __init__(self, salt=0, dup_groups=False):
        self.k = salt
        self.dup = dup_groups
        self.memo = {}
        self.rngs = []
        self.symbols = {}

    def _next(self):
        self.k += 1
        return (self.k * 7919) % 10007

    def _arr(self, name, shape, fn, dtype):
        if name in self.memo:
            return self.memo[name].copy()
        a = numpy.empty(shape, dtype=dtype)
        for ix in numpy.ndindex(*shape):
            a[ix] = fn()
        self.memo[name] = a
        return a.copy()

    def int(self, name, shape=(), lo=None, hi=None, vd="int64"):
        if vd == "int8":
            return self._arr(name, shape, lambda: self._next() % 100, "int8")
        if self.dup and ("grp" in name):
            return self._arr(name, shape, lambda: self._next() % 2, vd)
        if vd == "object":
            return self._arr(name, shape, lambda: "s%05d" % self._next(), object)
        return self._arr(name, shape, self._next, vd)

    def real(self, name, shape=(), lo=None, hi=None, **kw):
        return self._arr(name, shape, lambda: float(self._next()) + 0.5, float)

    def bool(self, name, shape=()):
        return self._arr(name, shape, lambda: bool(self._next() % 2), bool)

    def assume(self, c):
        pass


def _oneop_replay(self, vals):
    from ..harness import ConcreteProver
    compat.load(*self.modules())
    compat.symbolic_mode(False)
    fails = []
    for salt, dup in ((0, False), (17, True), (101, True)):
        P = ConcreteProver()
        try:
            out = self._run(DistinctMk(salt, dup)) if isinstance(self, OneOp) else self.call({}, DistinctMk(salt, dup))
            self.check(P, {}, out)
        except Exception as ex:
            return True, "real code raised %s: %s" % (type(ex).__name__, str(ex)[:200])
        fails += P.failures
    return (len(fails) > 0), ("real numpy run with distinct label/data codes: " + ("failed %s" % (fails[:3],) if fails else "no difference observable"))


OneOp.custom_replay = _oneop_replay
MutatingEquivalence.custom_replay = _oneop_replay


# --------------------------------------------------------------------------
# genotyping protocols (masking + phase collapsing keep labels attached and rebuild variant groups)
# --------------------------------------------------------------------------
GT = {"DenseUnphasedGenotyping": "pybrops.breed.prot.gt.DenseUnphasedGenotyping",
      "DenseMaskedUnphasedGenotyping": "pybrops.breed.prot.gt.DenseMaskedUnphasedGenotyping",
      "DenseMaskedPhasedGenotyping": "pybrops.breed.prot.gt.DenseMaskedPhasedGenotyping"}


class Genotyping(Harness):
    name = "genotyping-protocol"
    needs_real_run = False

    def modules(self):
        return sorted({v[0] for v in CLASSES.values()}) + list(GT.values())

    def inputs(self, mk):
        return dict(mk=mk)

    def call(self, inp, mk):
        prot = self.params["prot"]
        sizes = self.params["sizes"]
        p = sum(sizes)
        n = 2
        o = build(mk, "DensePhasedGenotypeMatrix", dict(taxa=n, vrnt=p, trait=1), "A", tuple(self.params.get("absent", ())))
        if self.params.get("grouped"):
            # chromosome labels concrete and already sorted so that the real group_vrnt() yields the given layout
            chr_ = numpy.concatenate([numpy.full(s, c + 1, dtype="int64") for c, s in enumerate(sizes)])
            o.vrnt_chrgrp = chr_ if mk.concrete else symnp.box(chr_)
            phy = mk.int("phyS", (p,), lo=0, hi=50)
            k = 0
            for s_ in sizes:
                for j in range(k, k + s_ - 1):
                    mk.assume(cell(phy, j) < cell(phy, j + 1))
                k += s_
            o.vrnt_phypos = phy
            o.group_vrnt()
            o.group_taxa()
        src = snapshot(o, "DensePhasedGenotypeMatrix")
        C = getattr(importlib.import_module(GT[prot]), prot)
        pr = C(invert=self.params["invert"]) if "Masked" in prot else C()
        out = pr.genotype(o)
        return dict(o=o, out=out, src=src)

    def check(self, P, inp, out):
        prot = self.params["prot"]
        o, g = out["o"], out["out"]
        p = sum(self.params["sizes"])
        masked = "Masked" in prot and o.vrnt_mask is not None
        if masked:
            keep = []
            for j in range(p):
                m = cell(o.vrnt_mask, j)
                m = bool(m)              # forks already resolved by the code's own indexing; concrete on this path
                if m != bool(self.params["invert"]):
                    keep.append(j)
        else:
            keep = list(range(p))
        name = "DensePhasedGenotypeMatrix" if "Phased" in prot and "Unphased" not in prot else "DenseGenotypeMatrix"
        rows = [("A", j) for j in keep]
        # labels of the kept variants stay attached, in order
        check_attached(P, g, name, "vrnt", rows, {"A": o}, "genotype", skip_mat=True)
        # data: kept columns, phases collapsed to dosages for the unphased protocols
        n = o.mat.shape[1]
        for c, j in enumerate(keep):
            for i in range(n):
                if name == "DensePhasedGenotypeMatrix":
                    for h in range(2):
                        P.prove(_is(cell(g.mat, h, i, c), cell(o.mat, h, i, j)), "genotype:calls-of-kept-variants-stay-attached")
                else:
                    P.prove(P.eq(cell(g.mat, i, c), cell(o.mat, 0, i, j) + cell(o.mat, 1, i, j)), "genotype:dosage=sum-of-the-two-copies-of-that-taxon-and-variant")
        for f in ("taxa", "taxa_grp"):
            a, b = getattr(g, f), getattr(o, f)
            if b is not None:
                P.prove(a is not None and all(_is(x, y) for x, y in zip(cells(a), cells(b))), "genotype:taxon-labels-kept")
        P.prove(same_snapshot(out["src"], snapshot(o, "DensePhasedGenotypeMatrix")), "genotype:input-unchanged")
        for axx in ("taxa", "vrnt"):
            check_grouping(P, g, name, axx, "genotype")
        if self.params.get("grouped"):
            P.prove(g.is_grouped_vrnt() or len(keep) == 0, "genotype:grouped-input-gives-grouped-output")


_obl_before_gt = obligations


def obligations(tier):
    obs = _obl_before_gt(tier)
    for prot in GT:
        for inv in ((False, True) if "Masked" in prot else (False,)):
            for grouped in (False, True):
                for sizes in ([[2], [2, 1]] if tier == "quick" else [[2], [3], [2, 1], [2, 2], [1, 2]]):
                    if not grouped and len(sizes) > 1:
                        continue
                    h = Genotyping(prot=prot, invert=inv, grouped=grouped, sizes=sizes)
                    h.weight = 2 ** sum(sizes) * (5 if grouped else 1)
                    obs.append(h)
    return obs


def _gt_replay(self, vals):
    """real protocol on real numpy with distinct label/data codes, for every mask pattern"""
    from ..harness import ConcreteProver
    compat.load(*self.modules())
    compat.symbolic_mode(False)
    p = sum(self.params["sizes"])
    fails = []
    for pattern in itertools.product([False, True], repeat=p):
        mk = DistinctMk(3)
        mk.bool = lambda name, shape=(), _pat=pattern: numpy.array(_pat, dtype=bool)
        P = ConcreteProver()
        try:
            out = self.call({}, mk)
            self.check(P, {}, out)
        except Exception as ex:
            return True, "real code raised %s: %s (mask %s)" % (type(ex).__name__, str(ex)[:150], list(pattern))
        if P.failures:
            fails.append((list(pattern), P.failures[0]))
    return (len(fails) > 0), ("real numpy run over all mask patterns: " + ("failed for %s" % (fails[:2],) if fails else "no difference observable"))


Genotyping.custom_replay = _gt_replay
