"""C16 Saving, loading and copying reproduce objects exactly"""
import copy
import importlib
import itertools

import numpy

from ..harness import Harness, And, Or, Not, Implies, Ite, cells, cell, is_nan
from .. import sym, symnp, stubs, compat, h5stub
from ..sym import SV

PROPERTY = "C16"
ASSUMPTIONS = [
    "numeric contents (matrix cells, positions, probabilities, effects, variances, locations/scales) are arbitrary solver constants, one per cell; label strings are concrete and non-ASCII",
    "h5py.File is replaced by the contract model vf.h5stub (probed against h5py 3.16: existing names refused, str <-> bytes, implied groups, deletion of datasets/groups); "
    "validated paths and replays run the real code on a real in-memory h5py file",
]
STUBS = ["vf.h5stub (h5py.File contract model)"]
BOUNDS = {"quick": dict(taxa=3, variants=3, traits=2, writes_per_location="<=2", classes=17), "thorough": dict(taxa=3, variants=3, traits=2, writes_per_location="<=3", classes=22)}
OUTSIDE = ["CSV number formatting / parsing (pandas' C code; the file is modelled as reproducing header and cells, real files on validated paths); CSV round trips other than the genetic maps'", "VCF text parsing itself (cyvcf2 is a compiled extension; modelled by its record interface, real files on validated paths)", "file names given as str/Path (needs a real file system; exercised only in replays)",
           "data-frame round trips other than those listed in the obligations"]

MODS = ["pybrops.core.util.h5py", "pybrops.core.error.error_type_h5py", "pybrops.core.error.error_value_h5py", "pybrops.core.mat.DenseMatrix", "pybrops.core.mat.DenseTaxaMatrix",
        "pybrops.core.mat.DenseVariantMatrix", "pybrops.core.mat.DenseTraitMatrix", "pybrops.core.mat.DenseTaxaVariantMatrix", "pybrops.core.mat.DenseTaxaTraitMatrix",
        "pybrops.core.mat.DenseSquareTaxaMatrix", "pybrops.core.mat.DenseSquareTaxaTraitMatrix", "pybrops.core.mat.DenseSquareTaxaSquareTraitMatrix", "pybrops.core.mat.DensePhasedTaxaVariantMatrix",
        "pybrops.popgen.gmat.DenseGenotypeMatrix", "pybrops.popgen.gmat.DensePhasedGenotypeMatrix", "pybrops.popgen.bvmat.DenseBreedingValueMatrix",
        "pybrops.popgen.bvmat.DenseEstimatedBreedingValueMatrix", "pybrops.popgen.bvmat.DenseGenomicEstimatedBreedingValueMatrix", "pybrops.popgen.cmat.DenseMolecularCoancestryMatrix",
        "pybrops.popgen.cmat.DenseVanRadenCoancestryMatrix", "pybrops.model.gmod.DenseAdditiveLinearGenomicModel", "pybrops.model.gmod.DenseAdditiveDominanceLinearGenomicModel",
        "pybrops.model.vmat.DenseTwoWayDHAdditiveGeneticVarianceMatrix", "pybrops.model.vmat.DenseThreeWayDHAdditiveGeneticVarianceMatrix",
        "pybrops.model.vmat.DenseTwoWayDHAdditiveGenicVarianceMatrix", "pybrops.model.pcvmat.DenseTwoWayDHAdditiveProgenyGeneticCovarianceMatrix",
        "pybrops.breed.prot.pt.G_E_Phenotyping", "pybrops.breed.prot.pt.TruePhenotyping"]

TAXA = ["tá0", "t✓1", "t-2"]
TRAIT = ["yield", "prot€in"]
VNAME = ["snp_α", "snp1", "snp2"]

# name -> (module, shape fn(n, m, t), cell kind, axes)
K = {
    "DenseMatrix": ("pybrops.core.mat.DenseMatrix", lambda n, m, t: (n, m), "real", []),
    "DenseTaxaMatrix": ("pybrops.core.mat.DenseTaxaMatrix", lambda n, m, t: (n, 2), "real", ["taxa"]),
    "DenseVariantMatrix": ("pybrops.core.mat.DenseVariantMatrix", lambda n, m, t: (m, 2), "real", ["vrnt"]),
    "DenseTraitMatrix": ("pybrops.core.mat.DenseTraitMatrix", lambda n, m, t: (t, 2), "real", ["trait"]),
    "DenseTaxaVariantMatrix": ("pybrops.core.mat.DenseTaxaVariantMatrix", lambda n, m, t: (n, m), "real", ["taxa", "vrnt"]),
    "DensePhasedTaxaVariantMatrix": ("pybrops.core.mat.DensePhasedTaxaVariantMatrix", lambda n, m, t: (2, n, m), "real", ["taxa", "vrnt"]),
    "DenseTaxaTraitMatrix": ("pybrops.core.mat.DenseTaxaTraitMatrix", lambda n, m, t: (n, t), "real", ["taxa", "trait"]),
    "DenseSquareTaxaMatrix": ("pybrops.core.mat.DenseSquareTaxaMatrix", lambda n, m, t: (n, n), "real", ["taxa"]),
    "DenseSquareTaxaTraitMatrix": ("pybrops.core.mat.DenseSquareTaxaTraitMatrix", lambda n, m, t: (n, n, t), "real", ["taxa", "trait"]),
    "DenseSquareTaxaSquareTraitMatrix": ("pybrops.core.mat.DenseSquareTaxaSquareTraitMatrix", lambda n, m, t: (n, n, t, t), "real", ["taxa", "trait"]),
    "DenseGenotypeMatrix": ("pybrops.popgen.gmat.DenseGenotypeMatrix", lambda n, m, t: (n, m), "int8", ["taxa", "vrnt"]),
    "DensePhasedGenotypeMatrix": ("pybrops.popgen.gmat.DensePhasedGenotypeMatrix", lambda n, m, t: (2, n, m), "int8", ["taxa", "vrnt"]),
    "DenseBreedingValueMatrix": ("pybrops.popgen.bvmat.DenseBreedingValueMatrix", lambda n, m, t: (n, t), "real", ["taxa", "trait", "scaled"]),
    "DenseEstimatedBreedingValueMatrix": ("pybrops.popgen.bvmat.DenseEstimatedBreedingValueMatrix", lambda n, m, t: (n, t), "real", ["taxa", "trait", "scaled"]),
    "DenseGenomicEstimatedBreedingValueMatrix": ("pybrops.popgen.bvmat.DenseGenomicEstimatedBreedingValueMatrix", lambda n, m, t: (n, t), "real", ["taxa", "trait", "scaled"]),
    "DenseMolecularCoancestryMatrix": ("pybrops.popgen.cmat.DenseMolecularCoancestryMatrix", lambda n, m, t: (n, n), "real", ["taxa"]),
    "DenseVanRadenCoancestryMatrix": ("pybrops.popgen.cmat.DenseVanRadenCoancestryMatrix", lambda n, m, t: (n, n), "real", ["taxa"]),
    "DenseTwoWayDHAdditiveGeneticVarianceMatrix": ("pybrops.model.vmat.DenseTwoWayDHAdditiveGeneticVarianceMatrix", lambda n, m, t: (n, n, t), "real", ["taxa", "trait"]),
    "DenseThreeWayDHAdditiveGeneticVarianceMatrix": ("pybrops.model.vmat.DenseThreeWayDHAdditiveGeneticVarianceMatrix", lambda n, m, t: (n, n, n, t), "real", ["taxa", "trait"]),
    "DenseTwoWayDHAdditiveGenicVarianceMatrix": ("pybrops.model.vmat.DenseTwoWayDHAdditiveGenicVarianceMatrix", lambda n, m, t: (n, n, t), "real", ["taxa", "trait"]),
    "DenseTwoWayDHAdditiveProgenyGeneticCovarianceMatrix": ("pybrops.model.pcvmat.DenseTwoWayDHAdditiveProgenyGeneticCovarianceMatrix", lambda n, m, t: (n, n, t, t), "real", ["taxa", "trait"]),
    "DenseAdditiveLinearGenomicModel": ("pybrops.model.gmod.DenseAdditiveLinearGenomicModel", None, "model", []),
    "DenseAdditiveDominanceLinearGenomicModel": ("pybrops.model.gmod.DenseAdditiveDominanceLinearGenomicModel", None, "model", []),
    "G_E_Phenotyping": ("pybrops.breed.prot.pt.G_E_Phenotyping", None, "pt", []),
}
QUICK = ["DenseMatrix", "DenseTaxaMatrix", "DenseVariantMatrix", "DenseTraitMatrix", "DenseTaxaVariantMatrix", "DenseTaxaTraitMatrix", "DenseSquareTaxaMatrix", "DenseSquareTaxaTraitMatrix",
         "DenseSquareTaxaSquareTraitMatrix", "DenseGenotypeMatrix", "DensePhasedGenotypeMatrix", "DenseBreedingValueMatrix", "DenseMolecularCoancestryMatrix",
         "DenseTwoWayDHAdditiveGeneticVarianceMatrix", "DenseAdditiveLinearGenomicModel", "DenseAdditiveDominanceLinearGenomicModel", "G_E_Phenotyping"]


def _cls(name):
    return getattr(importlib.import_module(K[name][0]), name)


def _obj(a):
    return numpy.array(a, dtype=object)


def build(mk, name, tag, variant, n=3, m=3, t=2, flavour=None):
    """variant: full (all optional fields), bare (none), grouped (full + real group_*()), partial;
    flavour 'int': numeric payloads of integer dtype where the class accepts them (dtype history of a location)"""
    modname, shapefn, kind, axes = K[name]
    C = _cls(name)
    if kind == "model":
        kw = dict(beta=mk.real("beta" + tag, (1, t)), u_misc=(mk.real("um" + tag, (1, t)) if variant in ("full", "grouped") else None),
                  u_a=mk.real("ua" + tag, (m, t)), trait=(_obj(TRAIT[:t]) if variant != "bare" else None),
                  model_name=("mödel" + tag if variant != "bare" else None), hyperparams=(dict(lam=2.5, k=3) if variant in ("full", "grouped") else dict(lam=0.5) if variant == "partial" else None))
        if "Dominance" in name:
            kw["u_d"] = mk.real("ud" + tag, (m, t))
        return C(**kw)
    if kind == "pt":
        from pybrops.model.gmod.DenseAdditiveLinearGenomicModel import DenseAdditiveLinearGenomicModel as G
        gm = G(beta=numpy.zeros((1, t)), u_misc=None, u_a=numpy.zeros((m, t)), trait=_obj(TRAIT[:t]))
        ve = mk.real("ve" + tag, (t,), lo=0)
        return C(gpmod=gm, nenv=2, nrep=numpy.array([1, 2]), var_env=ve, var_rep=(mk.real("vr" + tag, (t,), lo=0) if variant != "bare" else None), var_err=mk.real("vx" + tag, (t,), lo=0))
    shp = shapefn(n, m, t)
    if kind == "int8":
        mat = mk.int("M" + tag, shp, lo=-128, hi=127, vd="int8")
    elif flavour == "int":
        mat = mk.int("M" + tag, shp, lo=-1000, hi=1000)
    else:
        mat = mk.real("M" + tag, shp)
    kw = {}
    full = variant in ("full", "grouped")
    if "taxa" in axes and variant != "bare":
        kw["taxa"] = _obj(TAXA[:n])
        if full or variant == "partial":
            kw["taxa_grp"] = numpy.array([2, 1, 2][:n])
    if "vrnt" in axes and variant != "bare":
        kw["vrnt_chrgrp"] = numpy.array([2, 1, 1][:m])
        kw["vrnt_phypos"] = numpy.array([5, 9, 3][:m])
        if full:
            kw.update(vrnt_name=_obj(VNAME[:m]), vrnt_genpos=mk.real("gp" + tag, (m,)), vrnt_xoprob=mk.real("xo" + tag, (m,), lo=0, hi=0.5),
                      vrnt_hapgrp=numpy.array([1, 2, 3][:m]), vrnt_hapalt=_obj(["A", "T", "G"][:m]), vrnt_hapref=_obj(["C", "G", "Ä"][:m]), vrnt_mask=numpy.array([True, False, True][:m]))
    if "trait" in axes and variant != "bare":
        kw["trait"] = _obj(TRAIT[:t])
    if "scaled" in axes:
        kw["location"] = mk.real("loc" + tag, (t,)) if flavour != "int" else mk.int("loc" + tag, (t,), lo=-50, hi=50)
        kw["scale"] = mk.real("scl" + tag, (t,), lo=0, lo_open=True) if flavour != "int" else mk.int("scl" + tag, (t,), lo=1, hi=9)
    if name.endswith("GenotypeMatrix") and kind == "int8" and not name.startswith("DensePhased"):
        kw["ploidy"] = 2
    o = C(mat=mat, **kw)
    if variant == "grouped":
        if "taxa" in axes:
            o.group_taxa()
        if "vrnt" in axes:
            o.group_vrnt()
    return o


def _valid_eq(c, d):
    """the two cells are equal on every input of the current path (solver validity under the path condition);
    'unknown' counts as different, so it is reported rather than passed"""
    import z3
    cx = sym.ctx()
    if cx is None or getattr(cx, "pc", None) is None:
        return False
    try:
        e = (c == d)
        e = e.e if isinstance(e, SV) else e
        if isinstance(e, bool):
            return e
        return str(cx._check(z3.Not(e), timeout=5000)) == "unsat"
    except Exception:
        return False


def _is(c, d):
    if isinstance(c, SV) and isinstance(d, SV):
        return c.e.eq(d.e) or _valid_eq(c, d)
    if isinstance(c, SV) or isinstance(d, SV):
        if type(c) in (bytes, str) or type(d) in (bytes, str) or c is None or d is None:
            return False
        return _valid_eq(c, d)
    if type(c) in (bytes, str) or type(d) in (bytes, str):
        return type(c) is type(d) and c == d
    try:
        return bool(c == d) or (c != c and d != d)
    except Exception:
        return False


SKIP_PROPS = {"rng", "gpmod", "mat_format"}


def snapshot(o):
    """every data-valued property of the object: name -> ('none',) | ('arr', shape, dtype, cells) | ('val', type, value) | ('dict', ...)"""
    snap = {}
    for nm in sorted(dir(type(o))):
        if nm.startswith("_") or nm in SKIP_PROPS:
            continue
        if not isinstance(getattr(type(o), nm, None), property):
            continue
        try:
            v = getattr(o, nm)
        except Exception:
            continue
        if v is None:
            snap[nm] = ("none",)
        elif isinstance(v, numpy.ndarray):
            snap[nm] = ("arr", tuple(v.shape), str(v.dtype), list(cells(v)))
        elif isinstance(v, (SV, int, float, str, bytes, bool, numpy.generic)):
            snap[nm] = ("val", "str" if isinstance(v, str) else "bytes" if isinstance(v, bytes) else "num", v)
        elif isinstance(v, dict):
            snap[nm] = ("dict", {k: (x if not isinstance(x, numpy.ndarray) else list(cells(x))) for k, x in v.items()})
        elif isinstance(v, tuple) and all(isinstance(x, (int, numpy.integer)) for x in v):
            snap[nm] = ("val", "tuple", tuple(int(x) for x in v))
    return snap


def diff_snapshots(a, b):
    out = []
    for k in sorted(set(a) | set(b)):
        if k not in a or k not in b:
            out.append("%s: only in %s" % (k, "first" if k in a else "second"))
            continue
        x, y = a[k], b[k]
        if x[0] != y[0]:
            out.append("%s: %s vs %s" % (k, x[0], y[0]))
        elif x[0] == "arr":
            if x[1] != y[1]:
                out.append("%s: shape %s vs %s" % (k, x[1], y[1]))
            elif x[2] != y[2]:
                out.append("%s: dtype %s vs %s" % (k, x[2], y[2]))
            elif not all(_is(p, q) for p, q in zip(x[3], y[3])):
                out.append("%s: cells differ %s vs %s" % (k, [str(c) for c in x[3]][:4], [str(c) for c in y[3]][:4]))
        elif x[0] == "val":
            if x[1] != y[1] or not _is(x[2], y[2]):
                out.append("%s: %r vs %r" % (k, x[2], y[2]))
        elif x[0] == "dict":
            if set(x[1]) != set(y[1]):
                out.append("%s: keys %s vs %s" % (k, sorted(x[1]), sorted(y[1])))
            else:
                for kk in x[1]:
                    p, q = x[1][kk], y[1][kk]
                    if isinstance(p, list) and isinstance(q, list):
                        if len(p) != len(q) or not all(_is(u, v) for u, v in zip(p, q)):
                            out.append("%s[%s] differs" % (k, kk))
                    elif not _is(p, q):
                        out.append("%s[%s]: %r vs %r" % (k, kk, p, q))
    return out


def _prefer_distinct(mk):
    """counterexample models should give every cell its own value, so that a misplaced cell is visible in the concrete replay"""
    if mk.concrete:
        return
    import z3
    reals = [v for v in mk.symbols.values() if z3.is_real(v)]
    ints = [v for v in mk.symbols.values() if z3.is_int(v)]
    pref = []
    if len(reals) > 1:
        pref.append(z3.Distinct(*reals))
    if len(ints) > 1:
        pref.append(z3.Distinct(*ints))
    sym.ctx().prefer = list(sym.ctx().prefer) + pref


def _newfile(mk):
    if mk.concrete:
        import h5py
        _newfile.count = getattr(_newfile, "count", 0) + 1
        return h5py.File("verif-mem-%d.h5" % _newfile.count, "w", driver="core", backing_store=False)
    return h5stub.File("mem", "a")


def _read(name, f, group, obj):
    C = _cls(name)
    if K[name][2] == "pt":
        return C.from_hdf5(f, group, gpmod=obj.gpmod)
    return C.from_hdf5(f, group)


class H5History(Harness):
    """a sequence of writes to one file; after each prefix the object read back from a location equals the last one written there"""
    name = "hdf5-write-read"
    tol = 0.0

    def modules(self):
        return MODS

    def inputs(self, mk):
        self._mk = mk
        return dict()

    def call(self, inp, mk):
        f = _newfile(mk)
        last = {}
        results = []
        try:
            for step, w in enumerate(self.params["writes"]):
                name, variant, group = w[:3]
                o = build(mk, name, "w%d" % step, variant, flavour=(w[3] if len(w) > 3 else None))
                before = snapshot(o)
                o.to_hdf5(f, group)
                after = snapshot(o)
                key = (group or "").strip("/")
                last[key] = (name, o, before)
                # read back every location written so far
                for k, (nm, src, snap0) in last.items():
                    g = None
                    for w2 in self.params["writes"][:step + 1]:
                        if (w2[2] or "").strip("/") == k:
                            g = w2[2]
                    back = _read(nm, f, g, src)
                    results.append(dict(step=step, loc=k, cls=nm, diff=diff_snapshots(snap0, snapshot(back)), type_ok=type(back) is _cls(nm)))
                results.append(dict(step=step, loc="<source>", cls=name, diff=diff_snapshots(before, after), type_ok=True))
        finally:
            try:
                f.close()
            except Exception:
                pass
        _prefer_distinct(mk)
        return dict(results=results)

    def check(self, P, inp, out):
        for r in out["results"]:
            if r["loc"] == "<source>":
                P.prove(not r["diff"], "writing-leaves-the-object-unchanged", detail="%s" % r["diff"][:3])
                continue
            P.prove(r["type_ok"], "read-back-has-the-written-class")
            P.prove(not r["diff"], "object-read-back-equals-the-last-one-written-to-that-location",
                    detail="after write %d, location %r (%s): %s" % (r["step"], r["loc"], r["cls"], r["diff"][:4]))


SENTINEL = {"O": "ZZ", "i": 99, "f": 12345.5, "b": None, "u": 7}


class Copies(Harness):
    """copy.copy / copy.deepcopy / .copy() / .deepcopy(): equal to the source; deep copies share no mutable state"""
    name = "copies"
    tol = 0.0

    def modules(self):
        return MODS

    def inputs(self, mk):
        return dict()

    def call(self, inp, mk):
        name, variant = self.params["cls"], self.params["variant"]
        o = build(mk, name, "c", variant)
        s0 = snapshot(o)
        res = []
        for how in ("copy.copy", "copy.deepcopy", ".copy()", ".deepcopy()"):
            if how == "copy.copy":
                c = copy.copy(o)
            elif how == "copy.deepcopy":
                c = copy.deepcopy(o)
            elif how == ".copy()":
                if not hasattr(o, "copy"):
                    continue
                c = o.copy()
            else:
                if not hasattr(o, "deepcopy"):
                    continue
                c = o.deepcopy()
            r = dict(how=how, type_ok=type(c) is type(o), distinct=c is not o, diff=diff_snapshots(s0, snapshot(c)), shared=[])
            if "deep" in how:
                # mutate every array the copy exposes; the source must not change
                for nm, ent in snapshot(c).items():
                    if ent[0] != "arr" or not ent[3]:
                        continue
                    arr = getattr(c, nm)
                    if not isinstance(arr, numpy.ndarray) or arr.size == 0:
                        continue
                    ix = tuple(0 for _ in arr.shape)
                    kind = arr.dtype.kind
                    try:
                        if kind == "b":
                            arr[ix] = not bool(arr[ix])
                        else:
                            arr[ix] = SENTINEL.get(kind, 7)
                    except Exception:
                        continue
                d = diff_snapshots(s0, snapshot(o))
                r["shared"] = d
            res.append(r)
        _prefer_distinct(mk)
        return dict(res=res)

    def check(self, P, inp, out):
        for r in out["res"]:
            P.prove(r["type_ok"] and r["distinct"], "copy-is-a-new-object-of-the-same-class", detail=r["how"])
            P.prove(not r["diff"], "copy-compares-equal-to-its-source", detail="%s: %s" % (r["how"], r["diff"][:4]))
            P.prove(not r["shared"], "mutating-a-deep-copy-leaves-the-source-unchanged", detail="%s: %s" % (r["how"], r["shared"][:4]))


class _VcfVariant:
    def __init__(self, chrom, pos, vid, genotypes):
        self.CHROM, self.POS, self.ID, self.genotypes = chrom, pos, vid, genotypes


class _VcfStub:
    """contract model of cyvcf2.VCF as from_vcf uses it: .samples, iteration over records with CHROM (str), POS (int), ID (str) and
    genotypes = [[allele index copy 1, allele index copy 2, phased flag] per sample]"""

    def __init__(self, samples, records):
        self.samples, self._records = list(samples), records

    def __iter__(self):
        return iter(self._records)


class VCFImport(Harness):
    """DensePhasedGenotypeMatrix.from_vcf reproduces sample names, coordinates, identifiers and phased allele calls (multi-allelic indices included)"""
    name = "vcf-import"
    tol = 0.0

    def modules(self):
        return ["pybrops.popgen.gmat.DensePhasedGenotypeMatrix"]

    def inputs(self, mk):
        nv, ns = len(self.params["chrom"]), len(self.params["samples"])
        return dict(gt=mk.int("gt", (nv, ns, 2), lo=0, hi=self.params.get("maxallele", 2)))

    def call(self, inp, mk):
        import pybrops.popgen.gmat.DensePhasedGenotypeMatrix as M
        P_ = self.params
        nv, ns = len(P_["chrom"]), len(P_["samples"])
        gt = inp["gt"]
        if mk.concrete:
            import tempfile, os, shutil
            d = tempfile.mkdtemp(prefix="verif-vcf-")
            try:
                fn = os.path.join(d, "x.vcf")
                with open(fn, "w") as f:
                    f.write("##fileformat=VCFv4.2\n")
                    for c in sorted(set(P_["chrom"])):
                        f.write("##contig=<ID=%s>\n" % c)
                    f.write('##FORMAT=<ID=GT,Number=1,Type=String,Description="Genotype">\n')
                    f.write("#CHROM\tPOS\tID\tREF\tALT\tQUAL\tFILTER\tINFO\tFORMAT\t" + "\t".join(P_["samples"]) + "\n")
                    for v in range(nv):
                        calls = "\t".join("%d|%d" % (int(gt[v, s_, 0]), int(gt[v, s_, 1])) for s_ in range(ns))
                        f.write("%s\t%d\t%s\tA\tC,G,T\t.\tPASS\t.\tGT\t%s\n" % (P_["chrom"][v], P_["pos"][v], P_["ids"][v], calls))
                g = M.DensePhasedGenotypeMatrix.from_vcf(fn, auto_group_vrnt=P_.get("group", True))
            finally:
                shutil.rmtree(d, ignore_errors=True)
        else:
            recs = [_VcfVariant(P_["chrom"][v], P_["pos"][v], P_["ids"][v], [[cell(gt, v, s_, 0), cell(gt, v, s_, 1), True] for s_ in range(ns)]) for v in range(nv)]

            class _Mod:
                @staticmethod
                def VCF(filename, *a, **k):
                    return _VcfStub(P_["samples"], recs)
            saved = (M.cyvcf2, M.check_file_exists)
            M.cyvcf2, M.check_file_exists = _Mod, (lambda fn: None)
            try:
                g = M.DensePhasedGenotypeMatrix.from_vcf("stub.vcf", auto_group_vrnt=P_.get("group", True))
            finally:
                M.cyvcf2, M.check_file_exists = saved
        return dict(mat=g.mat, taxa=[str(x) for x in g.taxa], chrgrp=[int(x) for x in g.vrnt_chrgrp], pos=[int(x) for x in g.vrnt_phypos],
                    name=[str(x) for x in g.vrnt_name], dtype=str(g.mat.dtype), grouped=bool(g.is_grouped_vrnt()))

    def check(self, P, inp, out):
        P_ = self.params
        nv, ns = len(P_["chrom"]), len(P_["samples"])
        P.prove(out["taxa"] == list(P_["samples"]), "sample-names-reproduced", detail="%s" % out["taxa"])
        P.prove(out["dtype"] == "int8" and tuple(out["mat"].shape) == (2, ns, nv), "phased-int8-matrix-of-shape-(2,samples,variants)", detail="%s %s" % (out["dtype"], tuple(out["mat"].shape)))
        order = list(range(nv))
        if P_.get("group", True):
            order = sorted(order, key=lambda v: (int(P_["chrom"][v]), P_["pos"][v]))
            P.prove(out["grouped"], "grouped-after-import")
        P.prove(out["chrgrp"] == [int(P_["chrom"][v]) for v in order] and out["pos"] == [P_["pos"][v] for v in order] and out["name"] == [P_["ids"][v] for v in order],
                "variant-coordinates-and-identifiers-reproduced", detail="%s %s %s" % (out["chrgrp"], out["pos"], out["name"]))
        if tuple(out["mat"].shape) != (2, ns, nv):
            return
        for j, v in enumerate(order):
            for s_ in range(ns):
                for ph in range(2):
                    want, got = cell(inp["gt"], v, s_, ph), cell(out["mat"], ph, s_, j)
                    P.prove(P.eq(got, want), "phased-allele-calls-reproduced-exactly", detail="variant %s sample %d copy %d" % (P_["ids"][v], s_, ph))


SORTED_TAXA = sorted(TAXA)
KNOWN_BVPANDAS = "C16-bvmat-from_pandas-ignores-location-and-scale"


class Frames(Harness):
    """to_pandas -> from_pandas with matching options: long layouts compared as label-indexed maps, wide layouts positionally"""
    name = "data-frame-round-trip"
    tol = 1e-9

    def modules(self):
        return MODS + ["pybrops.popgen.gmap.StandardGeneticMap", "pybrops.popgen.gmap.ExtendedGeneticMap", "pybrops.core.error.error_type_pandas", "pybrops.core.error.error_value_pandas"]

    def inputs(self, mk):
        return dict()

    def call(self, inp, mk):
        case, variant = self.params["case"], self.params.get("variant", "full")
        n, t = 3, 2
        if case == "gmap":
            from pybrops.popgen.gmap.StandardGeneticMap import StandardGeneticMap
            m = 4
            gp = mk.real("gp", (m,), lo=0, hi=3)
            if not mk.concrete:
                sym.ctx().assume(And(cell(gp, 0) < cell(gp, 1), cell(gp, 2) < cell(gp, 3)))
            else:
                mk.assume(gp[0] < gp[1] and gp[2] < gp[3])
            g = StandardGeneticMap(vrnt_chrgrp=numpy.array([1, 1, 2, 2]), vrnt_phypos=numpy.array([10, 50, 5, 70]), vrnt_genpos=gp, vrnt_genpos_units="M",
                                   auto_group=True, auto_build_spline=False)
            units = self.params.get("units", "cM")
            df = g.to_pandas(vrnt_genpos_units=units)
            r = StandardGeneticMap.from_pandas(df, vrnt_genpos_units=units, auto_group=True, auto_build_spline=False)
            return dict(kind="snap", a=snapshot(g), b=snapshot(r), frame=[str(c) for c in df.columns])
        if case == "gmap-csv":
            import importlib
            cls = self.params["cls"]
            G = getattr(importlib.import_module("pybrops.popgen.gmap." + cls), cls)
            m = 4
            gp = mk.real("gp", (m,), lo=0, hi=3)
            if not mk.concrete:
                sym.ctx().assume(And(cell(gp, 0) < cell(gp, 1), cell(gp, 2) < cell(gp, 3)))
            else:
                mk.assume(gp[0] < gp[1] and gp[2] < gp[3])
            kw = dict(vrnt_chrgrp=numpy.array([1, 1, 2, 2]), vrnt_phypos=numpy.array([10, 50, 5, 70]), vrnt_genpos=gp, vrnt_genpos_units="M", auto_group=True, auto_build_spline=False)
            if cls == "ExtendedGeneticMap":
                kw.update(vrnt_stop=numpy.array([11, 51, 6, 71]), vrnt_name=_obj(["m\u00e1", "m1", "m2", "m3"]), vrnt_fncode=_obj(["x", "y", "x", "z"]))
            g = G(**kw)
            units = self.params.get("units", "cM")
            if mk.concrete:
                import tempfile, os, shutil
                d = tempfile.mkdtemp(prefix="verif-csv-")
                fn = os.path.join(d, "map.csv")
            else:
                d, fn = None, "mem-map.csv"
                import pybrops.core.error.error_value_python as EV
            try:
                g.to_csv(fn, vrnt_genpos_units=units)
                extra = dict(vrnt_name_col="name", vrnt_fncode_col="fncode") if cls == "ExtendedGeneticMap" else {}
                saved = []
                if not mk.concrete:
                    # file-existence checks look at the real file system: the model's store plays that role
                    import sys as _sys
                    for mn, mod in list(_sys.modules.items()):
                        if mn.startswith("pybrops.") and getattr(mod, "check_file_exists", None) is not None:
                            saved.append((mod, mod.check_file_exists))
                            mod.check_file_exists = lambda f: None
                try:
                    r = G.from_csv(fn, vrnt_genpos_units=units, auto_group=True, auto_build_spline=False, **extra)
                finally:
                    for mod, f in saved:
                        mod.check_file_exists = f
            finally:
                if d is not None:
                    shutil.rmtree(d, ignore_errors=True)
            return dict(kind="snap", a=snapshot(g), b=snapshot(r), frame=[])
        name = self.params["cls"]
        C = _cls(name)
        o = build(mk, name, "f", variant)
        if not mk.concrete:
            # label arrays are indexed by index arrays built inside the library: keep them in the engine's array type
            for f in ("taxa", "taxa_grp", "trait"):
                if getattr(o, f, None) is not None and not isinstance(getattr(o, f), symnp.SymArray):
                    setattr(o, f, symnp.box(getattr(o, f)))
        if self.params.get("sorted"):
            o.taxa = _obj(SORTED_TAXA[:n]) if mk.concrete else symnp.box(_obj(SORTED_TAXA[:n]))
            o.trait = _obj(sorted(TRAIT[:t])) if mk.concrete else symnp.box(_obj(sorted(TRAIT[:t])))
        if case == "bv-unscaled":
            df = o.to_pandas(unscale=True)
            r = C.from_pandas(df)
            return dict(kind="bv", a=o.unscale(), b=r.unscale(), la=snapshot(o), lb=snapshot(r), cols=[str(c) for c in df.columns])
        if case == "bv-scaled":
            df = o.to_pandas(unscale=False)
            r = C.from_pandas(df, location=o.location, scale=o.scale)
            return dict(kind="bv", a=o.unscale(), b=r.unscale(), la=snapshot(o), lb=snapshot(r), cols=[str(c) for c in df.columns])
        if case == "long":
            df = o.to_pandas() if not name.startswith("DenseSquareTaxa") else o.to_pandas(taxa_colnames=True, taxa_grp_colnames=True, trait_colnames=True)
            r = C.from_pandas(df)
            _prefer_distinct(mk)
            return dict(kind="long", o=_labelled(o), r=_labelled(r), a=snapshot(o), b=snapshot(r), nrows=len(df), type_ok=type(r) is C)
        raise ValueError(case)

    def check(self, P, inp, out):
        if out["kind"] == "snap":
            d = [x for x in diff_snapshots(out["a"], out["b"]) if not x.startswith("spline") and not x.startswith("vrnt_genpos:")]
            ga, gb = out["a"]["vrnt_genpos"], out["b"]["vrnt_genpos"]
            P.prove(ga[:3] == gb[:3], "genetic-positions: same shape and dtype", detail="%s vs %s" % (ga[:3], gb[:3]))
            for x, y in zip(ga[3], gb[3]):
                P.prove(P.close(x, y) if P.concrete else (x == y), "genetic-positions-read-back-equal (unit conversion undone)")
            P.prove(not d, "map-read-back-equals-the-original", detail="%s" % d[:4])
            return
        if out["kind"] == "bv":
            if KNOWN_BVPANDAS in getattr(self, "active_known", ()) and self.params["case"] == "bv-scaled":
                P.prove(True, "known-finding-call-form-excluded")
                return
            a, b = out["a"], out["b"]
            P.prove(tuple(a.shape) == tuple(b.shape), "shape")
            for x, y in zip(cells(a), cells(b)):
                P.prove(P.close(x, y) if P.concrete else (x == y), "breeding-values-read-back-equal-the-original (unscaled values)")
            for k in ("taxa", "taxa_grp", "trait"):
                d = diff_snapshots({k: out["la"][k]}, {k: out["lb"][k]})
                P.prove(not d, "labels-read-back-equal-the-original", detail="%s" % d)
            return
        o, r = out["o"], out["r"]
        P.prove(out["type_ok"], "class")
        P.prove(sorted(o["taxa"]) == sorted(r["taxa"]) and o["trait_set"] == r["trait_set"], "same-label-sets", detail="%s vs %s" % (o["taxa"], r["taxa"]))
        P.prove(o["grp"] == r["grp"], "group-label-of-every-taxon", detail="%s vs %s" % (o["grp"], r["grp"]))
        P.prove(set(o["cells"]) == set(r["cells"]), "same-label-tuples")
        for key, v in o["cells"].items():
            w = r["cells"].get(key)
            if w is None:
                continue
            ok = (P.close(v, w) if P.concrete else _is(v, w))
            P.prove(ok, "value-of-every-(taxa...,trait)-label-tuple-read-back-equal", detail="%s: %s vs %s" % (key, v, w))
        if self.params.get("sorted"):
            d = diff_snapshots(out["a"], out["b"])
            if P.concrete:
                d = [x for x in d if not x.startswith("mat:")]
            P.prove(not d, "sorted-labels: positional equality of all fields", detail="%s" % d[:4])


def _close_arr(a, b, k):
    x, y = a[k], b[k]
    if x[0] != "arr" or y[0] != "arr" or x[1] != y[1]:
        return ["%s: structure" % k]
    return [] if all(abs(float(p) - float(q)) <= 1e-9 * (1 + abs(float(p))) for p, q in zip(x[3], y[3])) else ["%s: values" % k]


def _labelled(o):
    mat = o.mat
    taxa = [str(x) for x in o.taxa]
    trait = [str(x) for x in o.trait]
    grp = None if o.taxa_grp is None else {taxa[i]: int(o.taxa_grp[i]) for i in range(len(taxa))}
    cellsd = {}
    nd = mat.ndim
    for ix in numpy.ndindex(*mat.shape):
        key = tuple(taxa[i] for i in ix[:nd - 1]) + (trait[ix[-1]],)
        cellsd[key] = cell(mat, *ix)
    return dict(taxa=taxa, trait_set=sorted(trait), grp=grp, cells=cellsd)


def obligations(tier):
    obs = []
    obs.append(VCFImport(chrom=["2", "1"], pos=[30, 10], ids=["rsB", "rsA"], samples=["s\u00e1", "t2"], maxallele=1))
    obs.append(VCFImport(chrom=["1", "1"], pos=[7, 3], ids=["v2", "v1"], samples=["only"], group=False, maxallele=3))
    if tier == "thorough":
        obs.append(VCFImport(chrom=["2", "1", "1"], pos=[5, 9, 2], ids=["a", "b", "c"], samples=["x"], maxallele=2))
    for name in ["DenseTwoWayDHAdditiveGeneticVarianceMatrix", "DenseTwoWayDHAdditiveGenicVarianceMatrix", "DenseSquareTaxaTraitMatrix"]:
        obs.append(Frames(case="long", cls=name, variant="full"))
        obs.append(Frames(case="long", cls=name, variant="full", sorted=True))
        obs.append(Frames(case="long", cls=name, variant="grouped"))
    for name in ["DenseBreedingValueMatrix", "DenseEstimatedBreedingValueMatrix"]:
        for v in ("full", "grouped"):
            obs.append(Frames(case="bv-unscaled", cls=name, variant=v))
        obs.append(Frames(case="bv-scaled", cls=name, variant="full"))
    obs.append(Frames(case="gmap", units="cM"))
    obs.append(Frames(case="gmap", units="M"))
    # the same through to_csv / from_csv (file contract: header + cells reproduced; number formatting is outside)
    for cls in ("StandardGeneticMap", "ExtendedGeneticMap"):
        for units in ("cM", "M"):
            obs.append(Frames(case="gmap-csv", cls=cls, units=units))
    names = QUICK if tier == "quick" else list(K)
    groups = [None, "g", "a/b/", "grp_é"]
    for i, name in enumerate(names):
        variants = ["full", "bare", "grouped"] if K[name][3] else ["full", "bare"]
        for j, v in enumerate(variants):
            obs.append(H5History(writes=[(name, v, groups[(i + j) % len(groups)])]))
        # overwriting: richer then poorer, poorer then richer, at the same location
        g = groups[i % len(groups)]
        obs.append(H5History(writes=[(name, "full", g), (name, "bare", g)]))
        obs.append(H5History(writes=[(name, "bare", g), (name, variants[-1], g)]))
        if K[name][3] or K[name][2] == "model":
            obs.append(H5History(writes=[(name, "grouped" if K[name][3] else "full", g), (name, "partial", g)]))
        # two locations in one file, one a path prefix of the other's name
        obs.append(H5History(writes=[(name, "full", "a"), (name, "bare", "ab"), (name, "partial" if K[name][3] else "full", "a/b")]))
        if tier == "thorough":
            obs.append(H5History(writes=[(name, "full", g), (name, "partial" if K[name][3] else "bare", g), (name, "full", g)]))
        for v in variants:
            obs.append(Copies(cls=name, variant=v))
    # dtype history of one location: integer payload then real payload of the same shape, and back
    for name in (["DenseMatrix", "DenseTaxaTraitMatrix", "DenseBreedingValueMatrix"] if tier == "quick" else
                 ["DenseMatrix", "DenseTaxaMatrix", "DenseTaxaTraitMatrix", "DenseBreedingValueMatrix", "DenseSquareTaxaMatrix", "DenseTaxaVariantMatrix"]):
        obs.append(H5History(writes=[(name, "full", "run/mat", "int"), (name, "full", "run/mat")]))
        obs.append(H5History(writes=[(name, "bare", None), (name, "bare", None, "int")]))
    # different classes sharing a file
    obs.append(H5History(writes=[("DenseGenotypeMatrix", "full", "x"), ("DenseBreedingValueMatrix", "full", "y"), ("DenseGenotypeMatrix", "bare", "x")]))
    obs.append(H5History(writes=[("DensePhasedGenotypeMatrix", "grouped", None), ("DenseAdditiveLinearGenomicModel", "full", "model")]))
    return obs


def replay_known(f):
    """witness of the known finding on the real code (real numpy / pandas)"""
    compat.load("pybrops.popgen.bvmat.DenseBreedingValueMatrix")
    compat.symbolic_mode(False)
    from pybrops.popgen.bvmat.DenseBreedingValueMatrix import DenseBreedingValueMatrix as B
    raw = numpy.array(f["witness"]["mat_raw"], dtype=float)
    b = B.from_numpy(raw, taxa=_obj(["a", "b", "c"]), taxa_grp=numpy.array([1, 1, 2]), trait=_obj(["x", "y"]))
    import io, contextlib
    with contextlib.redirect_stdout(io.StringIO()):
        r = B.from_pandas(b.to_pandas(unscale=False), location=b.location, scale=b.scale)
    if not numpy.allclose(r.unscale(), b.unscale()):
        return True, "read back unscale()[0] = %s, original %s" % (r.unscale()[0].tolist(), b.unscale()[0].tolist())
    return False, "round trip with location/scale arguments now reproduces the values"
