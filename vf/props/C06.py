"""C06 Optimisers return feasible solutions with truthful objective values"""
import itertools

import numpy

from ..harness import Harness, And, Or, Not, Implies, Ite, cells, cell, is_nan
from .. import sym, symnp, stubs, compat
from ..sym import SV

PROPERTY = "C06"
ASSUMPTIONS = [
    "problems are real EstimatedBreedingValueSubsetSelectionProblem instances whose member scores are arbitrary reals; constrained variants add a user transformation 'total member weight above a cap' (arbitrary non-negative weights, arbitrary cap)",
    "generator contract: choice/randint/random/shuffle return arbitrary values of their type in range (with replacement unless replace=False)",
]
STUBS = ["SymRNG for the hill-climber's rng and for numpy.random inside pymoo_addon operators"]
BOUNDS = {"quick": dict(candidates="<=4", subset="<=2", objectives=1), "thorough": dict(candidates="<=5 (sorting), <=4 (climbers)", subset="<=3")}
OUTSIDE = ["trajectories and final fronts of the pymoo GA / NSGA-II / NSGA-III runs (pymoo.optimize.minimize is concrete numerical library code): their feasibility, truthfulness and non-dominance clauses are not decided here",
           "integer SBX/PM rounding wrappers (delegate to pymoo operators)"]

ALGO = "pybrops.opt.algo."
MODS = [ALGO + "SortingSubsetOptimizationAlgorithm", ALGO + "SteepestDescentSubsetHillClimber", ALGO + "SortingSteepestDescentSubsetHillClimber",
        ALGO + "pymoo_addon", "pybrops.breed.prot.sel.prob.EstimatedBreedingValueSelectionProblem", "pybrops.breed.prot.sel.prob.trans", "pybrops.opt.soln.SubsetSolution"]


def _problem(inp, n, k, constrained, nonsep=False):
    import pybrops.breed.prot.sel.prob.trans as T
    from pybrops.breed.prot.sel.prob.EstimatedBreedingValueSelectionProblem import EstimatedBreedingValueSubsetSelectionProblem as C
    kw = dict(ebv=inp["ebv"], ndecn=k, decn_space=numpy.arange(n) + 10, decn_space_lower=numpy.repeat(10, k), decn_space_upper=numpy.repeat(10 + n - 1, k),
              nobj=1, obj_wt=numpy.array([1.0]), obj_trans=T.trans_sum)
    # note: decision space labels are 10..10+n-1 while ebv rows are 0..n-1: use identity labels instead so that x indexes ebv
    kw.update(decn_space=numpy.arange(n), decn_space_lower=numpy.repeat(0, k), decn_space_upper=numpy.repeat(n - 1, k))
    if nonsep:
        pen, famid = inp["pen"], [0, 0, 1, 1, 0, 1]

        def with_family_penalty(decnvec, latentvec, **kwargs):
            m = [int(v) for v in decnvec]
            clash = sum(1 for a in range(len(m)) for b in range(a + 1, len(m)) if famid[m[a]] == famid[m[b]])
            tot = latentvec[0] + clash * pen
            return symnp._sa([tot]) if isinstance(tot, SV) else numpy.array([tot])
        kw.update(obj_trans=with_family_penalty)
    if constrained:
        w, cap = inp["w"], inp["cap"]

        def over_cap(decnvec, latentvec, **kwargs):
            tot = 0.0
            for m in decnvec:
                tot = tot + w[int(m)]
            exc = tot - cap
            return symnp._sa([sym.sv_max(exc, 0.0)]) if isinstance(exc, SV) else numpy.array([max(exc, 0.0)])
        kw.update(nineqcv=1, ineqcv_wt=numpy.array([1.0]), ineqcv_trans=over_cap)
    return C(**kw)


def _score(inp, S, constrained):
    """(cv, objective) of a subset: objective = -(mean ebv) summed over traits (one trait)"""
    k = len(S)
    obj = -sum([cell(inp["ebv"], i, 0) for i in S][1:], cell(inp["ebv"], S[0], 0)) / k
    if "pen" in inp:
        famid = [0, 0, 1, 1, 0, 1]
        clash = sum(1 for a in range(k) for b in range(a + 1, k) if famid[S[a]] == famid[S[b]])
        obj = obj + clash * inp["pen"]
    cv = 0.0
    if constrained:
        tot = sum([cell(inp["w"], i) for i in S][1:], cell(inp["w"], S[0]))
        exc = tot - inp["cap"]
        cv = Ite(exc >= 0, exc, 0.0) if isinstance(exc, SV) else max(exc, 0.0)
    return cv, obj


class Base(Harness):
    tol = 1e-7

    def modules(self):
        return MODS

    def inputs(self, mk):
        n = self.params["n"]
        inp = dict(ebv=mk.real("e", (n, 1)))
        if self.params.get("constrained") == "fixed":
            # concrete member weights and cap (several scenarios), scores stay symbolic
            inp["w"] = numpy.array(self.params["w"], dtype=float)
            inp["cap"] = float(self.params["cap"])
        elif self.params.get("constrained"):
            inp["w"] = mk.real("w", (n,), lo=0)
            inp["cap"] = mk.real("cap", ())
        if self.params.get("nonsep"):
            inp["pen"] = mk.real("pen", (), lo=0)
        inp["rng"] = mk.rng()
        if not mk.concrete:
            import z3
            sym.ctx().prefer = list(sym.ctx().prefer) + [z3.Distinct(*[c.e for c in cells(inp["ebv"])])]
        return inp

    def common_checks(self, P, inp, out):
        n, k, con = self.params["n"], self.params["k"], bool(self.params.get("constrained"))
        S = [int(v) for v in cells(out["decn"])]
        P.prove(len(S) == k, "subset-has-the-requested-size", detail="%s" % S)
        P.prove(all(0 <= s < n for s in S), "members-come-from-the-candidate-set", detail="%s" % S)
        P.prove(len(set(S)) == len(S), "members-are-distinct", detail="%s" % S)
        if len(S) != k or not all(0 <= s < n for s in S):
            return None
        cv, obj = _score(inp, S, con)
        P.prove(P.eq(cell(out["obj"], 0), obj), "reported-objective=fresh-evaluation")
        if con:
            P.prove(P.eq(cell(out["ineqcv"], 0), cv), "reported-constraint-violation=fresh-evaluation")
        for a, b in zip(cells(out["space_after"]), range(n)):
            P.prove(int(a) == b, "problem-decision-space-unchanged")
        for a, b in zip(cells(out["ebv_after"]), cells(inp["ebv"])):
            P.prove(P.eq(a, b), "problem-data-unchanged")
        return S


class Sorting(Base):
    name = "SortingSubsetOptimizationAlgorithm"

    def call(self, inp, mk):
        from pybrops.opt.algo.SortingSubsetOptimizationAlgorithm import SortingSubsetOptimizationAlgorithm
        n, k = self.params["n"], self.params["k"]
        p = _problem(inp, n, k, False)
        s = SortingSubsetOptimizationAlgorithm().minimize(p)
        return dict(decn=s.soln_decn[0] if numpy.ndim(s.soln_decn) == 2 else s.soln_decn, obj=numpy.ravel(s.soln_obj), ineqcv=numpy.ravel(s.soln_ineqcv),
                    space_after=p.decn_space, ebv_after=p.ebv)

    def check(self, P, inp, out):
        n, k = self.params["n"], self.params["k"]
        S = self.common_checks(P, inp, out)
        if S is None:
            return
        _, best = _score(inp, S, False)
        for T in itertools.combinations(range(n), k):
            _, o = _score(inp, list(T), False)
            P.prove(P.le(best, o), "attains-the-brute-force-optimum-of-the-separable-problem")


class Climber(Base):
    name = "hill-climber"

    def call(self, inp, mk):
        n, k, con = self.params["n"], self.params["k"], bool(self.params.get("constrained"))
        p = _problem(inp, n, k, con, nonsep=bool(self.params.get("nonsep")))
        if self.params["algo"] == "steepest":
            from pybrops.opt.algo.SteepestDescentSubsetHillClimber import SteepestDescentSubsetHillClimber
            a = SteepestDescentSubsetHillClimber(rng=inp["rng"])
        else:
            from pybrops.opt.algo.SortingSteepestDescentSubsetHillClimber import SortingSteepestDescentSubsetHillClimber
            a = SortingSteepestDescentSubsetHillClimber()
        s = a.minimize(p)
        return dict(decn=s.soln_decn[0] if numpy.ndim(s.soln_decn) == 2 else s.soln_decn, obj=numpy.ravel(s.soln_obj), ineqcv=numpy.ravel(s.soln_ineqcv),
                    space_after=p.decn_space, ebv_after=p.ebv)

    def check(self, P, inp, out):
        n, k, con = self.params["n"], self.params["k"], bool(self.params.get("constrained"))
        S = self.common_checks(P, inp, out)
        if S is None or len(set(S)) != len(S):
            return
        cv, obj = _score(inp, S, con)
        rest = [i for i in range(n) if i not in S]
        for pos in range(k):
            for j in rest:
                T = list(S)
                T[pos] = j
                cv2, obj2 = _score(inp, T, con)
                better = Or(cv2 < cv, And(cv2 == cv, obj2 < obj)) if not P.concrete else (cv2 < cv - 1e-12 or (abs(cv2 - cv) <= 1e-12 and obj2 < obj - 1e-12))
                P.prove(Not(better) if not P.concrete else (not better), "stops-only-where-no-single-exchange-improves (violation, then score)",
                        detail="%s -> %s" % (S, T))


class FakeProblem:
    def __init__(self, n_var):
        self.n_var = n_var


class Operators(Base):
    """custom pymoo variation operators keep subsets feasible for arbitrary generator draws"""
    name = "pymoo_addon-operators"

    def inputs(self, mk):
        return dict(rng=mk.rng())

    def call(self, inp, mk):
        import pybrops.opt.algo.pymoo_addon as A
        n, k, op = self.params["n"], self.params["k"], self.params["op"]
        space = numpy.arange(n)
        saved = symnp.PROXY.random
        symnp.PROXY.random = inp["rng"]
        real_saved = None
        if mk.concrete:
            # concrete replay: route the operators' numpy.random calls to the scripted generator
            real_saved = A.np
            class _NP:
                def __getattr__(self_, name):
                    return getattr(numpy, name)
            shim = _NP()
            shim.random = inp["rng"]
            A.np = shim
        try:
            if op == "sampling":
                before = [int(x) for x in cells(space)]
                # the GA classes hand the problem's own decn_space array to the sampler: it must come back untouched
                out = A.SubsetRandomSampling(space)._do(FakeProblem(k), 2)
                return dict(kind=op, pop=out, space=space, before=before)
            if op == "tiled":
                return dict(kind=op, pop=A.tiled_choice(n, k), space=space)
            pa, pb = numpy.array(self.params["pa"]), numpy.array(self.params["pb"])
            if not mk.concrete:
                pa, pb, space = symnp.box(pa), symnp.box(pb), symnp.box(space)
            if op == "crossover":
                X = numpy.stack([pa[None, :], pb[None, :]])
                out = A.ReducedExchangeCrossover()._do(FakeProblem(k), X.copy())
                return dict(kind=op, pop=out, space=space, pa=pa, pb=pb)
            before = [int(x) for x in cells(space)]
            m = A.ReducedExchangeMutation(space)
            out = m._do(FakeProblem(k), pa[None, :].copy())
            return dict(kind=op, pop=out, space=space, pa=pa, before=before)
        finally:
            symnp.PROXY.random = saved
            if real_saved is not None:
                A.np = real_saved

    def check(self, P, inp, out):
        n, k = self.params["n"], self.params["k"]
        kind = out["kind"]
        pop = out["pop"]
        if kind == "tiled":
            v = [int(x) for x in cells(pop)]
            P.prove(len(v) == k and all(0 <= x < n for x in v), "tiled_choice:size-and-range")
            from collections import Counter
            c = Counter(v)
            P.prove(all(c.get(i, 0) in (k // n, -(-k // n)) for i in range(n)), "tiled_choice:balanced")
            return
        if "before" in out:
            P.prove([int(x) for x in cells(out["space"])] == out["before"], kind + ":the-problem's-candidate-array-is-not-modified",
                    detail="%s -> %s" % (out["before"], [int(x) for x in cells(out["space"])]))
        rows = numpy.asarray(symnp.unbox(pop) if isinstance(pop, symnp.SymArray) else pop).reshape(-1, k)
        for r in rows:
            v = [int(x) for x in r]
            P.prove(len(v) == k, kind + ":subset-size")
            P.prove(all(0 <= x < n for x in v), kind + ":members-from-the-candidate-set", detail="%s" % v)
            P.prove(len(set(v)) == len(v), kind + ":members-distinct", detail="%s" % v)
        if kind == "crossover":
            pa, pb = set(int(x) for x in out["pa"]), set(int(x) for x in out["pb"])
            for r in rows:
                P.prove(set(int(x) for x in r) <= (pa | pb), "crossover:children-drawn-from-the-parents")


class GAWrapper(Harness):
    """the pymoo-backed GA classes: whatever search result pymoo hands back (stubbed: an arbitrary enumerated population whose values are
    the problem's own evaluations, members listed in any order, permuted duplicates included), the Solution they assemble reports,
    for every solution, a decision vector from the candidate set with exactly the objective / constraint values of that very vector
    (checked with an objective that depends on the position of each member in the vector, e.g. a mating design read as pairs)"""
    name = "ga-solution-assembly"
    needs_real_run = False       # the stubbed search result has no counterpart in a real pymoo run

    def modules(self):
        return MODS + [ALGO + "SubsetGeneticAlgorithm", ALGO + "NSGA2SubsetGeneticAlgorithm", ALGO + "NSGA3SubsetGeneticAlgorithm"]

    def inputs(self, mk):
        n = self.params["n"]
        inp = dict(ebv=mk.real("e", (n, 1)))
        if not mk.concrete:
            import z3
            sym.ctx().prefer = list(sym.ctx().prefer) + [z3.Distinct(*[c.e for c in cells(inp["ebv"])])]
        return inp

    @staticmethod
    def _objs(inp, x, nobj):
        """position-dependent objectives: sum_k (k+1)^j * score[x_k]"""
        out = []
        for j in range(1, nobj + 1):
            tot = 0.0
            for k, m in enumerate(x):
                tot = tot + float((k + 1) ** j) * cell(inp["ebv"], int(m), 0)
            out.append(tot)
        return out

    def call(self, inp, mk):
        import importlib
        import pybrops.breed.prot.sel.prob.trans as T
        from pybrops.breed.prot.sel.prob.EstimatedBreedingValueSelectionProblem import EstimatedBreedingValueSubsetSelectionProblem as C
        n, k, nobj, algo = self.params["n"], self.params["k"], self.params["nobj"], self.params["algo"]
        objs = self._objs

        def positional(decnvec, latentvec, **kwargs):
            v = objs(inp, [int(m) for m in decnvec], nobj)
            return symnp._sa(v) if any(isinstance(c, SV) for c in v) else numpy.array(v, dtype=float)
        prob = C(ebv=inp["ebv"], ndecn=k, decn_space=numpy.arange(n), decn_space_lower=numpy.repeat(0, k), decn_space_upper=numpy.repeat(n - 1, k),
                 nobj=nobj, obj_wt=numpy.repeat(1.0, nobj), obj_trans=positional)
        X = numpy.array(self.params["X"])

        class Res:
            pass

        def stub_minimize(problem, algorithm, termination=None, **kw):
            r = Res()
            rows = [problem.evalfn(x) for x in X]
            if problem.n_obj == 1:
                r.X, (r.F, r.G, r.H) = X[0], rows[0]
            else:
                r.X = X
                r.F = numpy.stack([q[0] for q in rows])
                r.G = numpy.stack([q[1] for q in rows])
                r.H = numpy.stack([q[2] for q in rows])
            return r
        mod = importlib.import_module(ALGO + algo)
        saved = mod.minimize
        mod.minimize = stub_minimize
        try:
            s = getattr(mod, algo)(ngen=2, pop_size=4, rng=stubs.SymRNG("garng")).minimize(prob)
        finally:
            mod.minimize = saved
        return dict(decn=s.soln_decn, obj=s.soln_obj, nsoln=s.nsoln, space=prob.decn_space)

    def check(self, P, inp, out):
        n, k, nobj = self.params["n"], self.params["k"], self.params["nobj"]
        D, F = out["decn"], out["obj"]
        P.prove(int(out["nsoln"]) == D.shape[0] == F.shape[0] and D.shape[1] == k, "solution-arrays-consistent", detail="%s %s %s" % (out["nsoln"], D.shape, F.shape))
        given = [tuple(int(v) for v in r) for r in (self.params["X"] if nobj > 1 else self.params["X"][:1])]
        got = [tuple(int(v) for v in cells(D[i])) for i in range(D.shape[0])]
        P.prove(all(all(0 <= m < n for m in r) and len(set(r)) == k for r in got), "reported-subsets-are-feasible", detail="%s" % got)
        P.prove(set(frozenset(r) for r in got) == set(frozenset(r) for r in given), "every-solution-of-the-search-is-reported (as a set of members)", detail="%s vs %s" % (got, given))
        for i, r in enumerate(got):
            ref = self._objs(inp, r, nobj)
            for j in range(nobj):
                P.prove(P.eq(cell(F, i, j), ref[j]), "reported-objective=evaluation-of-the-reported-decision-vector", detail="solution %d %s objective %d" % (i, r, j))


class GAWrapperEnc(Harness):
    """the same assembly obligation for the Real / Integer / Binary GA classes, with one inequality and one equality constraint whose
    raw (unclipped) values differ between front members: objective, inequality and equality rows must all belong to the decision row
    they are reported with"""
    name = "ga-solution-assembly-encodings"
    needs_real_run = False

    def modules(self):
        return MODS + [ALGO + a for a in ("RealGeneticAlgorithm", "NSGA2RealGeneticAlgorithm", "IntegerGeneticAlgorithm", "NSGA2IntegerGeneticAlgorithm",
                                          "BinaryGeneticAlgorithm", "NSGA2BinaryGeneticAlgorithm")]

    def inputs(self, mk):
        n = self.params["n"]
        inp = dict(ebv=mk.real("e", (n, 1)))
        if not mk.concrete:
            import z3
            sym.ctx().prefer = list(sym.ctx().prefer) + [z3.Distinct(*[c.e for c in cells(inp["ebv"])])]
        return inp

    @staticmethod
    def _vals(inp, x, nobj):
        objs = []
        for j in range(1, nobj + 1):
            tot = 0.0
            for k, v in enumerate(x):
                tot = tot + float((k + 1) ** j) * float(v) * cell(inp["ebv"], k, 0)
            objs.append(tot)
        g = sum(float(k + 2) * float(v) for k, v in enumerate(x)) - 1.0          # raw slack, may be negative
        h = sum(float((k + 1) ** 2) * float(v) for k, v in enumerate(x)) - 2.0
        return objs, g, h

    def call(self, inp, mk):
        import importlib
        enc, algo, n, nobj = self.params["enc"], self.params["algo"], self.params["n"], self.params["nobj"]
        C = getattr(importlib.import_module("pybrops.breed.prot.sel.prob.EstimatedBreedingValueSelectionProblem"), "EstimatedBreedingValue%sSelectionProblem" % enc)
        vals = self._vals

        def wrap(v):
            return symnp._sa(v) if any(isinstance(c, SV) for c in v) else numpy.array(v, dtype=float)
        z, o = (0.0, 1.0) if enc == "Real" else (0, 1)
        prob = C(ebv=inp["ebv"], ndecn=n, decn_space=numpy.stack([numpy.repeat(z, n), numpy.repeat(o if enc != "Integer" else 3, n)]), decn_space_lower=numpy.repeat(z, n),
                 decn_space_upper=numpy.repeat(o if enc != "Integer" else 3, n), nobj=nobj, obj_wt=numpy.repeat(1.0, nobj),
                 obj_trans=lambda d, l, **k: wrap(vals(inp, d, nobj)[0]),
                 nineqcv=1, ineqcv_wt=numpy.array([1.0]), ineqcv_trans=lambda d, l, **k: wrap([vals(inp, d, nobj)[1]]),
                 neqcv=1, eqcv_wt=numpy.array([1.0]), eqcv_trans=lambda d, l, **k: wrap([vals(inp, d, nobj)[2]]))
        X = numpy.array(self.params["X"], dtype=float if enc == "Real" else int)

        class Res:
            pass

        def stub_minimize(problem, algorithm, termination=None, **kw):
            r = Res()
            rows = [problem.evalfn(x) for x in X]
            if problem.n_obj == 1:
                r.X, (r.F, r.G, r.H) = X[0], rows[0]
            else:
                r.X = X
                r.F, r.G, r.H = (numpy.stack([q[i] for q in rows]) for i in range(3))
            return r
        mod = importlib.import_module(ALGO + algo)
        saved = mod.minimize
        mod.minimize = stub_minimize
        try:
            s = getattr(mod, algo)(ngen=2, pop_size=4, rng=stubs.SymRNG("garng")).minimize(prob)
        finally:
            mod.minimize = saved
        return dict(decn=s.soln_decn, obj=s.soln_obj, g=s.soln_ineqcv, h=s.soln_eqcv, nsoln=s.nsoln)

    def check(self, P, inp, out):
        nobj = self.params["nobj"]
        D = out["decn"]
        given = [tuple(float(v) for v in r) for r in (self.params["X"] if nobj > 1 else self.params["X"][:1])]
        got = [tuple(float(v) for v in cells(D[i])) for i in range(D.shape[0])]
        P.prove(int(out["nsoln"]) == len(got) and sorted(got) == sorted(given), "every-solution-of-the-search-is-reported", detail="%s vs %s" % (got, given))
        for i, r in enumerate(got):
            objs, g, h = self._vals(inp, r, nobj)
            for j in range(nobj):
                P.prove(P.eq(cell(out["obj"], i, j), objs[j]), "reported-objective=evaluation-of-the-reported-decision-vector")
            P.prove(P.eq(cell(out["g"], i, 0), g), "reported-inequality-violation-belongs-to-the-reported-decision-vector", detail="solution %d %s" % (i, r))
            P.prove(P.eq(cell(out["h"], i, 0), h), "reported-equality-violation-belongs-to-the-reported-decision-vector", detail="solution %d %s" % (i, r))


def obligations(tier):
    obs = []
    for enc, X in (("Real", [[0.5, 0.25, 0.25], [0.0, 1.0, 0.0], [0.25, 0.0, 0.5]]), ("Integer", [[2, 0, 1], [0, 3, 0], [1, 1, 1]]), ("Binary", [[1, 0, 1], [0, 1, 0], [1, 1, 0]])):
        obs.append(GAWrapperEnc(enc=enc, algo="NSGA2%sGeneticAlgorithm" % enc, n=3, nobj=2, X=X))
        obs.append(GAWrapperEnc(enc=enc, algo="%sGeneticAlgorithm" % enc, n=3, nobj=1, X=X[:1]))
    for algo, nobj, X in (("SubsetGeneticAlgorithm", 1, [[2, 0]]), ("NSGA2SubsetGeneticAlgorithm", 2, [[2, 0], [1, 3]]), ("NSGA2SubsetGeneticAlgorithm", 2, [[2, 0], [0, 2], [3, 1]]),
                          ("NSGA3SubsetGeneticAlgorithm", 2, [[3, 0], [1, 2]])):
        obs.append(GAWrapper(algo=algo, n=4, k=2, nobj=nobj, X=X))
    for n, k in ([(3, 1), (3, 2), (4, 2)] if tier == "quick" else [(3, 1), (3, 2), (4, 2), (4, 3), (5, 2)]):
        h = Sorting(n=n, k=k)
        h.weight = 10 * n ** 2
        obs.append(h)
    for algo in ("steepest", "sorting"):
        h = Climber(algo=algo, n=4, k=2, constrained=False, nonsep=True)
        h.weight = 300
        obs.append(h)
        for w, cap in (([12, 12, 6, 6], 14), ([5, 9, 3, 1], 7), ([4, 4, 4, 1], 5)):
            h = Climber(algo=algo, n=4, k=2, constrained="fixed", w=w, cap=cap)
            h.weight = 300
            obs.append(h)
        for n, k, con in ([(3, 2, False), (4, 2, False), (3, 2, True)] if tier == "quick" else [(3, 2, False), (4, 2, False), (3, 2, True), (4, 3, False)]):       # (4, 2, constrained) needs ~25 min per climber: outside the thorough budget
            h = Climber(algo=algo, n=n, k=k, constrained=con)
            h.weight = 100 * n ** 2
            h.budget_s = 1500
            obs.append(h)
    for n, k in ([(3, 2), (4, 2)] if tier == "quick" else [(3, 2), (4, 2), (4, 3), (5, 3)]):
        obs.append(Operators(op="sampling", n=n, k=k))
    for n, k in ((3, 4), (2, 3), (3, 3), (2, 1)):
        obs.append(Operators(op="tiled", n=n, k=k))
    for pa, pb in (([0, 1], [2, 3]), ([0, 1], [1, 2]), ([0, 1, 2], [3, 4, 5]), ([0, 1, 2], [2, 3, 4])):
        obs.append(Operators(op="crossover", n=max(pa + pb) + 1, k=len(pa), pa=pa, pb=pb))
        obs.append(Operators(op="mutation", n=max(pa + pb) + 1, k=len(pa), pa=pa, pb=pb))
    return obs


def replay_known(f):
    raise NotImplementedError
