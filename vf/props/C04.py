"""C04 Genomic-model predictions are linear, label-preserving and self-consistent"""
import itertools

import numpy

from ..harness import Harness, And, Or, Not, Implies, Ite, cells, cell, is_nan
from .. import sym, symnp, compat
from ..sym import SV
from .C09 import _mk_gmat

PROPERTY = "C04"
ASSUMPTIONS = [
    "marker effects and intercepts are arbitrary reals (zeros and both signs reachable by the solver); genotype calls of GenotypeMatrix inputs are enumerated by forking over the valid codes, raw dosage arrays are arbitrary reals",
    "model intercept = Xstar.beta with Xstar = [1, 1/q, ..., 1/q] (the library's documented convention for q fixed effects)",
    "numpy.sqrt (nanstd inside the breeding-value matrix) by contract; rrBLUP: the ML variance components returned by the optimiser are arbitrary positive reals (scipy.optimize / eigh outside the claim)",
]
STUBS = ["numpy.sqrt (contract)", "rrBLUP_ML0: variance components arbitrary positive (optimiser stubbed)"]
BOUNDS = {"quick": dict(taxa="<=2 (3 raw)", markers="<=2", traits="<=2", ploidy="2; unphased panels of ploidy 1 and 4 for the dominance model"), "thorough": dict(taxa="<=3", markers="<=3", traits="<=2")}
OUTSIDE = ["the Nelder-Mead ML optimum and the eigendecomposition of rrBLUP", "convergence of Gauss-Seidel within maxiter (normal equations are decided in fixed-point form)", "rounding"]

ADD = "pybrops.model.gmod.DenseAdditiveLinearGenomicModel"
DOM = "pybrops.model.gmod.DenseAdditiveDominanceLinearGenomicModel"
RR = "pybrops.model.gmod.rrBLUPModel0"
MODS = [ADD, DOM, "pybrops.popgen.gmat.DenseGenotypeMatrix", "pybrops.popgen.gmat.DensePhasedGenotypeMatrix",
        "pybrops.popgen.bvmat.DenseGenomicEstimatedBreedingValueMatrix", "pybrops.breed.prot.bv.TrueBreedingValue"]


def _fork_concrete(A):
    if isinstance(A, symnp.SymArray):
        r = symnp.raw(A)
        conc = numpy.empty(r.shape, dtype=A.dtype)
        for ix in numpy.ndindex(*r.shape):
            conc[ix] = int(r[ix])
        return symnp.box(conc)
    return A


def _models(inp, t, dominance):
    tr = numpy.array(["tr%d" % i for i in range(t)], dtype=object)
    if dominance:
        from pybrops.model.gmod.DenseAdditiveDominanceLinearGenomicModel import DenseAdditiveDominanceLinearGenomicModel as M
        return M(beta=inp["beta"], u_misc=None, u_a=inp["u"], u_d=inp["ud"], trait=tr)
    from pybrops.model.gmod.DenseAdditiveLinearGenomicModel import DenseAdditiveLinearGenomicModel as M
    return M(beta=inp["beta"], u_misc=None, u_a=inp["u"], trait=tr)


class Predict(Harness):
    """gebv/gegv/predict: intercept + dosage.effects (+ heterozygosity.dominance), labels, input forms, taxon order"""
    name = "model-predictions"
    tol = 1e-7

    def modules(self):
        return MODS

    def inputs(self, mk):
        n, m, t, q, kind = self.params["n"], self.params["m"], self.params["t"], self.params.get("q", 1), self.params["kind"]
        inp = dict(u=mk.real("u", (m, t)), beta=mk.real("b", (q, t)))
        if self.params.get("dominance"):
            inp["ud"] = mk.real("d", (m, t))
        if kind == "phased":
            inp["A"] = mk.int("a", (2, n, m), lo=0, hi=1, vd="int8")
        elif kind == "unphased":
            inp["A"] = mk.int("a", (n, m), lo=0, hi=self.params.get("ploidy", 2), vd="int8")
        else:
            inp["A"] = mk.real("a", (n, m), lo=0, hi=2)
        inp["X"] = mk.real("x", (n, q))
        return inp

    def call(self, inp, mk):
        n, m, t, kind = self.params["n"], self.params["m"], self.params["t"], self.params["kind"]
        dom = bool(self.params.get("dominance"))
        mod = _models(inp, t, dom)
        out = {}
        if kind == "raw":
            Z = inp["A"]
            out["gebv"] = (mod.gegv(Z) if dom else mod.gebv(Z)).unscale()
            if not dom:
                out["pred"] = mod.predict(inp["X"], Z).unscale()
                out["gebv_numpy"] = mod.gebv_numpy(Z)
                # marker partition: the first marker as a 'misc' random effect, the rest additive
                if m >= 2:
                    from pybrops.model.gmod.DenseAdditiveLinearGenomicModel import DenseAdditiveLinearGenomicModel as M
                    mod2 = M(beta=inp["beta"], u_misc=inp["u"][:1], u_a=inp["u"][1:], trait=mod.trait)
                    out["pred_split"] = mod2.predict_numpy(inp["X"], Z)
                    out["pred_whole"] = mod.predict_numpy(inp["X"], Z)
            return out
        A = _fork_concrete(inp["A"])
        g = _mk_gmat(kind, A.copy(), ploidy=self.params.get("ploidy", 2)) if kind == "unphased" else _mk_gmat(kind, A.copy())
        bv = mod.gegv(g) if dom else mod.gebv(g)
        out["gebv"] = bv.unscale()
        out["taxa"] = [str(x) for x in bv.taxa]
        out["taxa_grp"] = [int(x) for x in bv.taxa_grp]
        out["trait"] = [str(x) for x in bv.trait]
        pr = mod.predict(inp["X"], g)
        out["pred"] = pr.unscale()
        out["pred_taxa"] = [str(x) for x in pr.taxa]
        # taxon order
        perm = list(range(n))[::-1]
        g2 = g.select_taxa(perm)
        bv2 = mod.gegv(g2) if dom else mod.gebv(g2)
        out["gebv_perm"] = bv2.unscale()
        out["taxa_perm"] = [str(x) for x in bv2.taxa]
        if kind == "phased":
            proj = _mk_gmat("unphased", g.mat_asformat("{0,1,2}"))
            out["gebv_proj"] = (mod.gegv(proj) if dom else mod.gebv(proj)).unscale()
            out["gebv_rawarr"] = (mod.gegv(g.mat_asformat("{0,1,2}")) if dom else mod.gebv(g.mat_asformat("{0,1,2}"))).unscale()
        out["after"] = g.mat
        return out

    def check(self, P, inp, out):
        n, m, t, q, kind = self.params["n"], self.params["m"], self.params["t"], self.params.get("q", 1), self.params["kind"]
        dom = bool(self.params.get("dominance"))
        A, u, b = inp["A"], inp["u"], inp["beta"]
        pl = self.params.get("ploidy", 2)
        if kind == "phased":
            dos = [[cell(A, 0, i, k) + cell(A, 1, i, k) for k in range(m)] for i in range(n)]
        else:
            dos = [[cell(A, i, k) for k in range(m)] for i in range(n)]
        icpt = []
        for tr in range(t):
            c = cell(b, 0, tr)
            for k in range(1, q):
                c = c + cell(b, k, tr) / q
            icpt.append(c)

        def value(i, tr):
            v = icpt[tr]
            for k in range(m):
                v = v + dos[i][k] * cell(u, k, tr)
                if dom:
                    het = Ite(And(dos[i][k] != 0, dos[i][k] != pl), 1, 0) if kind != "raw" else Ite(dos[i][k] == 1, 1, 0)
                    v = v + het * cell(inp["ud"], k, tr)
            return v
        for i in range(n):
            for tr in range(t):
                P.prove(P.eq(cell(out["gebv"], i, tr), value(i, tr)), "value=intercept+dosage.effects(+heterozygosity.dominance)")
                if "pred" in out:
                    y = 0.0
                    for k in range(q):
                        y = y + cell(inp["X"], i, k) * cell(b, k, tr)
                    for k in range(m):
                        y = y + dos[i][k] * cell(u, k, tr)
                        if dom:
                            y = y + (Ite(And(dos[i][k] != 0, dos[i][k] != pl), 1, 0) if kind != "raw" else Ite(dos[i][k] == 1, 1, 0)) * cell(inp["ud"], k, tr)
                    P.prove(P.eq(cell(out["pred"], i, tr), y), "predict=X.beta+Z.u")
                if "gebv_numpy" in out:
                    P.prove(P.eq(cell(out["gebv_numpy"], i, tr) + icpt[tr], value(i, tr)), "gebv_numpy=Z.u")
                if "pred_split" in out:
                    P.prove(P.eq(cell(out["pred_split"], i, tr), cell(out["pred_whole"], i, tr)), "independent-of-the-marker-partition")
                if "gebv_perm" in out:
                    P.prove(P.eq(cell(out["gebv_perm"], i, tr), cell(out["gebv"], n - 1 - i, tr)), "irrespective-of-taxon-order")
                if "gebv_proj" in out:
                    P.prove(P.eq(cell(out["gebv_proj"], i, tr), cell(out["gebv"], i, tr)), "phased=unphased-projection")
                    P.prove(P.eq(cell(out["gebv_rawarr"], i, tr), cell(out["gebv"], i, tr)), "phased=raw-dosage-array")
        if kind != "raw":
            P.prove(out["taxa"] == ["t%d" % i for i in range(n)] and out["pred_taxa"] == out["taxa"], "rows-carry-the-input-taxon-labels")
            P.prove(out["taxa_perm"] == ["t%d" % i for i in range(n)][::-1], "labels-follow-the-permutation")
            P.prove(out["taxa_grp"] == list(range(n)), "taxon-groups-kept")
            P.prove(out["trait"] == ["tr%d" % i for i in range(t)], "trait-labels")
            for c1, c2 in zip(cells(out["after"]), cells(A)):
                P.prove(P.eq(c1, c2), "genotypes-unchanged")


class Stats(Harness):
    """variances, Bulmer ratio, R^2 and favourable/deleterious/neutral allele statistics equal their definitions"""
    name = "model-statistics"
    tol = 1e-7

    def modules(self):
        return MODS

    def inputs(self, mk):
        n, m, t = self.params["n"], self.params["m"], self.params["t"]
        return dict(u=mk.real("u", (m, t)), beta=mk.real("b", (1, t)), A=mk.int("a", (2, n, m), lo=0, hi=1, vd="int8"),
                    Y=mk.real("y", (n, t)))

    def call(self, inp, mk):
        n, m, t = self.params["n"], self.params["m"], self.params["t"]
        mod = _models(inp, t, False)
        A = _fork_concrete(inp["A"])
        g = _mk_gmat("phased", A.copy())
        gu = _mk_gmat("unphased", g.mat_asformat("{0,1,2}"))
        out = {}
        for nm in ("var_G", "var_A", "var_a", "bulmer"):
            out[nm] = getattr(mod, nm)(g)
            out[nm + "_u"] = getattr(mod, nm)(gu)
        Z = g.mat_asformat("{0,1,2}")
        out["var_A_raw"] = mod.var_A(Z)
        out["var_a_raw"] = mod.var_a(Z, ploidy=2)
        X = numpy.ones((n, 1))
        out["score"] = mod.score_numpy(inp["Y"], X, Z)
        for nm in ("facount", "fafreq", "faavail", "fafixed", "fapoly", "nafixed", "napoly", "dacount", "dafreq", "daavail", "dafixed", "dapoly"):
            out[nm] = getattr(mod, nm)(g)
        return out

    def check(self, P, inp, out):
        n, m, t = self.params["n"], self.params["m"], self.params["t"]
        A, u, b = inp["A"], inp["u"], inp["beta"]
        dos = [[cell(A, 0, i, k) + cell(A, 1, i, k) for k in range(m)] for i in range(n)]
        for tr in range(t):
            g = []
            for i in range(n):
                v = 0.0
                for k in range(m):
                    v = v + dos[i][k] * cell(u, k, tr)
                g.append(v)
            mean = sum(g[1:], g[0]) / n
            var = 0.0
            for v in g:
                var = var + (v - mean) * (v - mean)
            var = var / n
            va = 0.0
            for k in range(m):
                p = sum([dos[i][k] for i in range(n)][1:], dos[0][k]) / (2.0 * n)
                va = va + 4.0 * cell(u, k, tr) * cell(u, k, tr) * p * (1 - p)
            for sfx in ("", "_u"):
                P.prove(P.eq(cell(out["var_A" + sfx], tr), var), "var_A=variance-of-gebv-over-taxa")
                P.prove(P.eq(cell(out["var_G" + sfx], tr), var), "var_G=variance-of-gegv-over-taxa")
                P.prove(P.close(cell(out["var_a" + sfx], tr), va), "var_a=ploidy^2.sum(u^2 p(1-p))")
                bl = cell(out["bulmer" + sfx], tr)
                if is_nan(bl):
                    # exactly zero (every term u^2 p(1-p) vanishes), not merely small: a tolerance here would hide a guard that treats small variances as zero
                    P.prove((abs(va) < 1e-300) if P.concrete else (va == 0), "bulmer-missing-only-when-genic-variance-is-zero", detail="genic variance %s" % (va,))
                else:
                    P.prove(P.close(bl * va, var), "bulmer=var_A/var_a")
            P.prove(P.eq(cell(out["var_A_raw"], tr), var), "var_A(raw array)")
            P.prove(P.close(cell(out["var_a_raw"], tr), va), "var_a(raw array)")
            # coefficient of determination
            Y = [cell(inp["Y"], i, tr) for i in range(n)]
            ym = sum(Y[1:], Y[0]) / n
            sse, sst = 0.0, 0.0
            for i in range(n):
                e = Y[i] - (cell(b, 0, tr) + g[i])
                sse = sse + e * e
                sst = sst + (Y[i] - ym) * (Y[i] - ym)
            sc = cell(out["score"], tr)
            if not (isinstance(sc, float) and not numpy.isfinite(sc)):
                P.prove(P.eq((1 - sc) * sst, sse), "R^2=1-SSE/SST")
            # allele statistics
            for k in range(m):
                cnt = sum([dos[i][k] for i in range(n)][1:], dos[0][k])
                full = 2 * n
                uk = cell(u, k, tr)
                fa = Ite(uk > 0, cnt, Ite(uk < 0, full - cnt, 0))
                da = Ite(uk < 0, cnt, Ite(uk > 0, full - cnt, 0))
                neutral = (uk == 0)
                def B(x):
                    return sym.sv_truth(x) if isinstance(x, SV) else bool(x)
                P.prove(P.eq(cell(out["facount"], k, tr), fa), "facount")
                P.prove(P.eq(cell(out["dacount"], k, tr), da), "dacount")
                P.prove(P.eq(cell(out["fafreq"], k, tr) * full, fa), "fafreq")
                P.prove(P.eq(cell(out["dafreq"], k, tr) * full, da), "dafreq")
                for nm, ref in (("faavail", fa > 0), ("fafixed", fa == full), ("fapoly", And(fa > 0, fa < full)),
                                ("daavail", da > 0), ("dafixed", da == full), ("dapoly", And(da > 0, da < full)),
                                ("nafixed", And(neutral, Or(cnt == 0, cnt == full))), ("napoly", And(neutral, cnt > 0, cnt < full))):
                    got = cell(out[nm], k, tr)
                    P.prove((B(got) == B(ref)) if not P.concrete else (bool(got) == bool(ref)), nm)


class SetterHistory(Harness):
    """predictions are a function of the model's current parameters: predict, assign a parameter, predict again = fresh model"""
    name = "model-parameter-reassignment"
    tol = 1e-7

    def modules(self):
        return MODS

    def inputs(self, mk):
        n, m, t = self.params["n"], self.params["m"], self.params["t"]
        return dict(u=mk.real("u", (m, t)), ud=mk.real("d", (m, t)), beta=mk.real("b", (1, t)), u2=mk.real("v", (m, t)), Z=mk.real("z", (n, m), lo=0, hi=2), X=mk.real("x", (n, 1)))

    def call(self, inp, mk):
        n, m, t, dom, which = self.params["n"], self.params["m"], self.params["t"], bool(self.params.get("dominance")), self.params["which"]
        mod = _models(inp, t, dom)
        g = _mk_gmat("unphased", numpy.array([[0, 1], [2, 1], [1, 1]][:n], dtype="int8")[:, :m])

        def observe(mdl):
            return dict(pred=mdl.predict(inp["X"], g).unscale(), gebv=mdl.gebv(g).unscale(), gegv=mdl.gegv(g).unscale(), u=mdl.u)
        first = observe(mod)          # every cache the model may keep is filled before the reassignment
        new = dict(inp)
        if which == "u_a":
            mod.u_a = inp["u2"]
            new["u"] = inp["u2"]
        elif which == "u_d":
            mod.u_d = inp["u2"]
            new["ud"] = inp["u2"]
        elif which == "beta":
            mod.beta = inp["u2"][:1, :]
            new["beta"] = inp["u2"][:1, :]
        fresh = _models(new, t, dom)
        out = observe(mod)
        for k, v in observe(fresh).items():
            out[k + "_f"] = v
        return out

    def check(self, P, inp, out):
        for k in ("pred", "gebv", "gegv", "u"):
            a, b = out[k], out[k + "_f"]
            P.prove(tuple(a.shape) == tuple(b.shape), k + ":shape")
            for x, y in zip(cells(a), cells(b)):
                P.prove(P.eq(x, y), "after-reassigning-%s: %s equals that of a fresh model with the same parameters" % (self.params["which"], k))


def obligations(tier):
    obs = []
    for dom, which in ([(True, "u_a"), (True, "u_d"), (False, "u_a"), (True, "beta")] if tier == "quick" else
                       [(True, "u_a"), (True, "u_d"), (False, "u_a"), (True, "beta"), (False, "beta")]):
        obs.append(SetterHistory(n=2, m=2, t=1, dominance=dom, which=which))
    if tier == "quick":
        cfg = [("raw", 2, 2, 1, 1, False), ("raw", 3, 2, 2, 2, False), ("phased", 2, 1, 1, 1, False), ("unphased", 2, 2, 1, 1, False), ("phased", 2, 1, 2, 2, False),
               ("phased", 2, 1, 1, 1, True), ("unphased", 2, 1, 1, 1, True), ("raw", 2, 2, 1, 1, True), ("raw", 2, 2, 1, 2, True), ("raw", 2, 1, 2, 3, True)]
    else:
        cfg = [("raw", 2, 2, 1, 1, False), ("raw", 3, 3, 2, 2, False), ("phased", 2, 1, 1, 1, False), ("phased", 2, 2, 1, 1, False), ("unphased", 2, 2, 1, 1, False),
               ("unphased", 3, 1, 1, 1, False), ("phased", 2, 1, 2, 2, False), ("phased", 2, 2, 1, 1, True), ("unphased", 2, 2, 1, 1, True), ("raw", 3, 2, 2, 1, True), ("phased", 2, 1, 1, 2, True), ("raw", 2, 2, 1, 2, True), ("raw", 2, 1, 2, 3, True)]
    for kind, n, m, t, q, dom in cfg:
        h = Predict(kind=kind, n=n, m=m, t=t, q=q, dominance=dom)
        h.weight = (4 if kind == "phased" else 3) ** (n * m)
        obs.append(h)
    # polyploid / haploid unphased panels: heterozygosity means 0 < dosage < ploidy
    for pl, n, m, dom in ([(4, 2, 1, True), (1, 2, 1, True)] if tier == "quick" else [(4, 2, 1, True), (1, 2, 1, True), (3, 2, 1, True), (4, 1, 2, True), (4, 2, 1, False)]):
        h = Predict(kind="unphased", n=n, m=m, t=1, q=1, dominance=dom, ploidy=pl)
        h.weight = (pl + 1) ** (n * m)
        obs.append(h)
    for n, m, t in ([(2, 1, 1), (1, 2, 1), (3, 1, 1), (2, 1, 2)] if tier == "quick" else [(2, 1, 1), (1, 2, 1), (3, 1, 1), (2, 1, 2), (4, 1, 1)]):
        h = Stats(n=n, m=m, t=t)
        h.weight = 4 ** (n * m) * 3
        obs.append(h)
    return obs


def replay_known(f):
    raise NotImplementedError


# --------------------------------------------------------------------------
# rrBLUP (ridge regression) : assembly of the fit and the Gauss-Seidel solver
# --------------------------------------------------------------------------
class RRFit(Harness):
    """rrBLUPModel0.fit_numpy: intercept = training mean, monomorphic markers get zero effect, and the linear system
    handed to the solver is (Z'Z + (varE/varU) I, Z'(y - mean)) on the polymorphic markers, for arbitrary positive
    variance components (the ML optimiser and the eigendecomposition are stubbed)"""
    name = "rrBLUP-fit-assembly"
    needs_real_run = False

    def modules(self):
        return [RR]

    def inputs(self, mk):
        n, m, t = self.params["n"], self.params["m"], self.params["t"]
        return dict(Y=mk.real("y", (n, t)), Z=mk.int("z", (n, m), lo=0, hi=2, vd="int8"),
                    lv=mk.real("lv", (t, 2), lo=-5, hi=5))

    def call(self, inp, mk):
        import pybrops.model.gmod.rrBLUPModel0 as R
        n, m, t = self.params["n"], self.params["m"], self.params["t"]
        Z = _fork_concrete(inp["Z"])
        Zc = symnp.unbox(Z)
        if numpy.all(Zc == Zc[0, :]):
            raise sym.PathAbort("no polymorphic marker (outside the property's domain)")
        rec = []
        state = {"k": 0}

        class Soln:
            pass

        def fake_minimize(fun, x0, args=(), method=None, bounds=None, **kw):
            s = Soln()
            k = state["k"]
            s.x = inp["lv"][k]
            s.fun = 0.0
            state["k"] += 1
            return s

        def fake_gs(A, b, atol=1e-8, maxiter=1000):
            k = len(rec)
            u = mk.real("uh%d" % k, (len(b),)) if not mk.concrete else numpy.zeros(len(b))
            rec.append((A, b, u))
            return u
        saved = (R.minimize, R.gauss_seidel, R.rrBLUP_ML0_calc_G, R.rrBLUP_ML0_calc_d_V)
        R.minimize, R.gauss_seidel = fake_minimize, fake_gs
        R.rrBLUP_ML0_calc_G = lambda Z_: numpy.eye(Z_.shape[0])
        R.rrBLUP_ML0_calc_d_V = lambda G: (numpy.ones(G.shape[0]), numpy.eye(G.shape[0]))
        try:
            mod = R.rrBLUPModel0.fit_numpy(inp["Y"], None, Z)
        finally:
            R.minimize, R.gauss_seidel, R.rrBLUP_ML0_calc_G, R.rrBLUP_ML0_calc_d_V = saved
        return dict(beta=mod.beta, u_a=mod.u_a, rec=rec, Z=Zc)

    def check(self, P, inp, out):
        n, m, t = self.params["n"], self.params["m"], self.params["t"]
        Z = out["Z"]
        poly = [k for k in range(m) if not all(Z[i, k] == Z[0, k] for i in range(n))]
        Y = inp["Y"]
        P.prove(len(out["rec"]) == t, "one-solve-per-trait")
        for tr in range(t):
            mean = sum([cell(Y, i, tr) for i in range(n)][1:], cell(Y, 0, tr)) / n
            P.prove(P.eq(cell(out["beta"], 0, tr), mean), "intercept=training-mean")
            A, b, u = out["rec"][tr]
            P.prove(tuple(A.shape) == (len(poly), len(poly)) and len(b) == len(poly), "only-polymorphic-markers-enter-the-system",
                    detail="system %s, polymorphic markers %s" % (tuple(A.shape), poly))
            ridge = sym.sv_div_nofork(sym.sv_exp(cell(inp["lv"], tr, 0)), sym.sv_exp(cell(inp["lv"], tr, 1)))
            for a_, ka in enumerate(poly):
                zty = 0.0
                for i in range(n):
                    zty = zty + float(Z[i, ka]) * (cell(Y, i, tr) - mean)
                P.prove(P.eq(cell(b, a_), zty), "right-hand-side=Z'(y-mean)")
                for b_, kb in enumerate(poly):
                    ztz = float(sum(float(Z[i, ka]) * float(Z[i, kb]) for i in range(n)))
                    want = ztz + (ridge if a_ == b_ else 0.0)
                    P.prove(P.eq(cell(A, a_, b_), want), "matrix=Z'Z+(varE/varU)I")
            for k in range(m):
                if k in poly:
                    P.prove(P.eq(cell(out["u_a"], k, tr), cell(u, poly.index(k))), "polymorphic-marker-gets-its-solved-effect")
                else:
                    P.prove(P.eq(cell(out["u_a"], k, tr), 0.0), "monomorphic-marker-gets-zero-effect")


class GaussSeidel(Harness):
    """gauss_seidel on an arbitrary symmetric system with positive diagonal (A = Z'Z + ridge I has that form):
    every sweep does not increase the penalised least-squares criterion f(x) = x'Ax/2 - b'x (so the result is never worse
    than the all-zero start), and on exit the residual obeys (Ax-b)_i = sum_{j>i} A_ij (x_j - xprev_j): a converged
    iterate solves the normal equations up to the tolerance"""
    name = "gauss_seidel"

    def modules(self):
        return [RR]

    def inputs(self, mk):
        n = self.params["n"]
        L = mk.real("l", (n, n), lo=-3, hi=3)
        b = mk.real("b", (n,))
        if n == 1:
            mk.assume(cell(L, 0, 0) > 0)
        else:
            a, o, c = cell(L, 0, 0), cell(L, 0, 1), cell(L, 1, 1)
            mk.assume(And(a > 0, c > 0, a * c - o * o > 0, cell(L, 1, 0) == o))
        return dict(A=L, b=b)

    def call(self, inp, mk):
        import pybrops.model.gmod.rrBLUPModel0 as R
        outs = []
        for it in range(1, self.params["sweeps"] + 1):
            outs.append(R.gauss_seidel(inp["A"].copy(), inp["b"].copy(), atol=1e-8, maxiter=it))
        return dict(x=outs)

    def check(self, P, inp, out):
        n = self.params["n"]
        A, b = inp["A"], inp["b"]

        def f(x):
            v = 0.0
            for i in range(n):
                for j in range(n):
                    v = v + 0.5 * x[i] * cell(A, i, j) * x[j]
                v = v - cell(b, i) * x[i]
            return v
        prev = [0.0] * n
        fprev = 0.0
        for x in out["x"]:
            xs = cells(x)
            fx = f(xs)
            P.prove(P.le(fx, fprev), "sweep-does-not-increase-the-penalised-criterion")
            # residual identity after a sweep from prev (holds when this sweep was actually executed, i.e. xs is T(prev))
            prev, fprev = xs, fx
        P.prove(P.le(fprev, 0.0), "never-worse-than-the-all-zero-solution")
        if len(out["x"]) >= 2:
            x1, x2 = cells(out["x"][-2]), cells(out["x"][-1])
            x0 = cells(out["x"][-3]) if len(out["x"]) >= 3 else [0.0] * n
            # the solver may only stop before maxiter when the previous sweep moved no coordinate by more than atol
            stopped = And(*([P.eq(x2[j], x1[j]) for j in range(n)] + [And(x1[j] - x0[j] <= 1e-8, x0[j] - x1[j] <= 1e-8) for j in range(n)]))
            for i in range(n):
                r = -cell(b, i)
                for j in range(n):
                    r = r + cell(A, i, j) * x2[j]
                rhs = 0.0
                for j in range(i + 1, n):
                    rhs = rhs + cell(A, i, j) * (x2[j] - x1[j])
                P.prove(Or(stopped, P.eq(r, rhs)),
                        "residual-after-a-sweep=sum_{j>i}A_ij(x_j-xprev_j) (converged iterate solves the normal equations)")


_old_obligations = obligations


def obligations(tier):
    obs = _old_obligations(tier)
    for n, m, t in ([(2, 2, 1), (2, 2, 2)] if tier == "quick" else [(2, 2, 1), (3, 2, 1), (2, 2, 2), (2, 3, 1)]):
        h = RRFit(n=n, m=m, t=t)
        h.weight = 3 ** (n * m)
        obs.append(h)
    obs.append(GaussSeidel(n=1, sweeps=2))
    obs.append(GaussSeidel(n=2, sweeps=2))
    if tier == "thorough":
        obs.append(GaussSeidel(n=2, sweeps=3))
    return obs
