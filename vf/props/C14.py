"""C14 Phenotyping and breeding-value estimation preserve truth and alignment"""
import itertools

import numpy
import z3

from ..harness import Harness, And, Or, Not, Implies, Ite, cells, cell, is_nan
from .. import sym, symnp, stubs, compat, pdstub
from ..sym import SV

PROPERTY = "C14"
ASSUMPTIONS = [
    "generator contract: multivariate_normal(mean, diag(v), size) = mean + sqrt(v) * z with independent standard-normal draws z (one fresh unknown per drawn cell)",
    "marker effects, intercepts and phenotype records are arbitrary reals; genotype calls are enumerated small patterns; taxon labels are concrete strings",
    "pandas is replaced by the contract model vf.pdstub (DataFrame construction, concat, groupby(...).agg(mean) sorted by key, missing keys dropped, to_numpy); "
    "every validated path re-runs the real code with the real pandas and compares",
]
STUBS = ["SymRNG (multivariate_normal contract)", "vf.pdstub (pandas contract model)", "sqrt contract (y>=0, y*y=x)"]
BOUNDS = {"quick": dict(taxa="<=3", markers="<=2", traits="<=2", environments="<=2", replicates="<=2 per environment", records="<=6"),
          "thorough": dict(taxa="<=3", markers="<=2", traits="<=2", environments="<=3", replicates="<=3 per environment", records="<=7")}
OUTSIDE = ["distributional convergence itself (law of large numbers over the generator's normal draws): decided here is the exact additive noise structure that implies it",
           "float rounding of means (exact reals)", "phenotype tables with symbolic (unknown) taxon labels"]

PT = "pybrops.breed.prot.pt."
BV = "pybrops.breed.prot.bv."
MODS = [PT + "G_E_Phenotyping", PT + "TruePhenotyping", BV + "MeanPhenotypicBreedingValue", BV + "TrueBreedingValue", "pybrops.core.error.error_type_pandas",
        "pybrops.core.error.error_value_pandas", "pybrops.model.gmod.DenseAdditiveLinearGenomicModel", "pybrops.model.gmod.DenseAdditiveDominanceLinearGenomicModel",
        "pybrops.popgen.gmat.DensePhasedGenotypeMatrix", "pybrops.popgen.gmat.DenseGenotypeMatrix", "pybrops.popgen.bvmat.DenseEstimatedBreedingValueMatrix",
        "pybrops.popgen.bvmat.DenseGenomicEstimatedBreedingValueMatrix", "pybrops.popgen.bvmat.DenseBreedingValueMatrix"]

GENO = {  # phased genotype patterns (2, n, m)
    (2, 1): [[[0], [1]], [[1], [1]]],
    (2, 2): [[[0, 1], [1, 0]], [[1, 1], [0, 0]]],
    (3, 1): [[[0], [1], [1]], [[0], [0], [1]]],
    (3, 2): [[[0, 1], [1, 0], [1, 1]], [[1, 1], [0, 0], [1, 0]]],
}
LABELS = ["tB", "tA", "tC"]      # deliberately not in sorted order


def _pg(n, m, taxa=None, grp=True):
    from pybrops.popgen.gmat.DensePhasedGenotypeMatrix import DensePhasedGenotypeMatrix
    A = numpy.array(GENO[(n, m)], dtype="int8")
    return DensePhasedGenotypeMatrix(mat=A, taxa=numpy.array(taxa if taxa is not None else LABELS[:n], dtype=object),
                                     taxa_grp=(numpy.array([7, 3, 5][:n]) if grp else None),
                                     vrnt_chrgrp=numpy.ones(m, dtype="int64"), vrnt_phypos=numpy.arange(m) + 1)


def _model(inp, t, dom=False):
    tr = numpy.array(["y%d" % i for i in range(t)], dtype=object)
    if dom:
        from pybrops.model.gmod.DenseAdditiveDominanceLinearGenomicModel import DenseAdditiveDominanceLinearGenomicModel as M
        return M(beta=inp["beta"], u_misc=None, u_a=inp["u"], u_d=inp["ud"], trait=tr)
    from pybrops.model.gmod.DenseAdditiveLinearGenomicModel import DenseAdditiveLinearGenomicModel as M
    return M(beta=inp["beta"], u_misc=None, u_a=inp["u"], trait=tr)


def _true(inp, n, m, t, dom=False):
    A = numpy.array(GENO[(n, m)])
    out = []
    for i in range(n):
        row = []
        for tr in range(t):
            v = cell(inp["beta"], 0, tr)
            for k in range(m):
                d = int(A[0, i, k] + A[1, i, k])
                v = v + d * cell(inp["u"], k, tr)
                if dom and d == 1:
                    v = v + cell(inp["ud"], k, tr)
            row.append(v)
        out.append(row)
    return out


def _frame_out(df, traits):
    return dict(columns=[str(c) for c in df.columns], taxa=[str(x) for x in df["taxa"].to_numpy()],
                taxa_grp=[(None if x is None or (not isinstance(x, SV) and x != x) else int(x)) for x in df["taxa_grp"].to_numpy()] if "taxa_grp" in df.columns else None,
                env=[int(x) for x in df["env"].to_numpy()] if "env" in df.columns else None,
                rep=[int(x) for x in df["rep"].to_numpy()] if "rep" in df.columns else None,
                values=df[list(traits)].to_numpy())


class FieldTrial(Harness):
    """G_E_Phenotyping.phenotype: record set, labels, truth with zero noise, exact additive noise structure"""
    name = "field-trial"
    tol = 1e-7

    def modules(self):
        return MODS

    def inputs(self, mk):
        n, m, t = self.params["n"], self.params["m"], self.params["t"]
        inp = dict(u=mk.real("u", (m, t), lo=-4, hi=4), beta=mk.real("b", (1, t), lo=-4, hi=4), rng=mk.rng())
        noise = self.params["noise"]
        if noise == "symbolic":
            for k in ("env", "rep", "err"):
                inp["sd_" + k] = mk.real("sd" + k, (t,), lo=0, hi=3)
        return inp

    def _vars(self, inp, mk):
        t, noise = self.params["t"], self.params["noise"]
        if noise == "zero":
            z = numpy.zeros(t)
            return z, z, z
        if noise == "zero-default":
            return None, None, None
        if noise == "concrete":
            return numpy.array([0.25, 4.0][:t]), numpy.array([1.0, 0.0][:t]), numpy.array([2.25, 0.0625][:t])
        return tuple(inp["sd_" + k] * inp["sd_" + k] for k in ("env", "rep", "err"))

    def call(self, inp, mk):
        from pybrops.breed.prot.pt.G_E_Phenotyping import G_E_Phenotyping
        n, m, t = self.params["n"], self.params["m"], self.params["t"]
        nrep = self.params["nrep"]
        gm = _model(inp, t)
        ve, vr, verr = self._vars(inp, mk)
        pt = G_E_Phenotyping(gpmod=gm, nenv=len(nrep), nrep=(numpy.array(nrep) if self.params.get("nrep_array", True) else int(nrep[0])),
                             var_env=ve, var_rep=vr, var_err=verr, rng=inp["rng"])
        pg = _pg(n, m, grp=self.params.get("grp", True))
        df = pt.phenotype(pg)
        out = _frame_out(df, ["y%d" % i for i in range(t)])
        out["pg_after"] = pg.mat
        return out

    def _z(self, P, mk_values, name):
        if P.concrete:
            from fractions import Fraction
            v = mk_values.get(name, 0)
            return float(Fraction(v)) if isinstance(v, str) else float(v)
        return SV(z3.Real(name))

    def check(self, P, inp, out):
        n, m, t = self.params["n"], self.params["m"], self.params["t"]
        nrep, noise = self.params["nrep"], self.params["noise"]
        blocks = [(e, r) for e in range(len(nrep)) for r in range(nrep[e])]
        R = n * len(blocks)
        P.prove(out["columns"] == ["taxa", "taxa_grp", "env", "rep"] + ["y%d" % i for i in range(t)], "columns-are-labels-then-traits", detail="%s" % out["columns"])
        P.prove(len(out["taxa"]) == R and tuple(out["values"].shape) == (R, t), "one-record-per-taxon-environment-replicate:count", detail="%d records, expected %d" % (len(out["taxa"]), R))
        if len(out["taxa"]) != R:
            return
        grp = [7, 3, 5][:n] if self.params.get("grp", True) else [None] * n
        seen = set()
        for r in range(R):
            e, rp = blocks[r // n]
            i = r % n
            P.prove(out["taxa"][r] == LABELS[i] and out["taxa_grp"][r] == grp[i], "record-carries-its-taxon's-labels",
                    detail="row %d: %s/%s" % (r, out["taxa"][r], out["taxa_grp"][r]))
            P.prove(out["env"][r] == e + 1 and out["rep"][r] == rp + 1, "record-carries-its-environment-and-replicate", detail="row %d: env %s rep %s" % (r, out["env"][r], out["rep"][r]))
            seen.add((out["taxa"][r], out["env"][r], out["rep"][r]))
        P.prove(len(seen) == R, "one-record-per-taxon-environment-replicate:distinct")
        truth = _true(inp, n, m, t)
        vals = out["values"]
        # draws in call order: per environment one env draw; per replicate one rep draw then one (n x t) error draw
        if noise in ("zero", "zero-default"):
            sd = None
        elif noise == "concrete":
            sd = ([0.5, 2.0][:t], [1.0, 0.0][:t], [1.5, 0.25][:t])
        else:
            sd = tuple([cell(inp["sd_" + k], tr) for tr in range(t)] for k in ("env", "rep", "err"))
        values = getattr(self, "_mk_values", {})
        call = 0
        zmap = {}
        for e in range(len(nrep)):
            call += 1
            zmap[("env", e)] = call
            for rp in range(nrep[e]):
                call += 1
                zmap[("rep", e, rp)] = call
                call += 1
                zmap[("err", e, rp)] = call
        for r in range(R):
            e, rp = blocks[r // n]
            i = r % n
            for tr in range(t):
                v = cell(vals, r, tr)
                if sd is None:
                    P.prove(P.close(v, truth[i][tr]) if P.concrete else (v == truth[i][tr]), "zero-noise-record-equals-the-true-genotypic-value")
                    continue
                ze = self._z(P, values, "rng_%d_z_%d" % (zmap[("env", e)], tr))
                zr = self._z(P, values, "rng_%d_z_%d" % (zmap[("rep", e, rp)], tr))
                zx = self._z(P, values, "rng_%d_z_%d" % (zmap[("err", e, rp)], i * t + tr))
                ref = truth[i][tr] + sd[0][tr] * ze + sd[1][tr] * zr + sd[2][tr] * zx
                P.prove(P.close(v, ref) if P.concrete else (v == ref),
                        "record = truth + sd_env*z(env) + sd_rep*z(env,rep) + sd_err*z(record): shared within environment / replicate, fresh per record")
        for a, b in zip(cells(out["pg_after"]), numpy.array(GENO[(n, m)]).ravel()):
            P.prove(int(a) == int(b), "genotypes-unaltered")


def _concrete_values_hook(h, mk):
    h._mk_values = mk.values if mk.concrete else {}


_orig_inputs = FieldTrial.inputs


def _inputs(self, mk):
    _concrete_values_hook(self, mk)
    return _orig_inputs(self, mk)


FieldTrial.inputs = _inputs


class Heritability(Harness):
    """set_h2 / set_H2 fix the error variance so that genetic / (genetic + error) equals the target"""
    name = "heritability"
    tol = 1e-7

    def modules(self):
        return MODS

    def inputs(self, mk):
        n, m, t = self.params["n"], self.params["m"], self.params["t"]
        inp = dict(u=mk.real("u", (m, t), lo=-4, hi=4), ud=mk.real("d", (m, t), lo=-4, hi=4), beta=mk.real("b", (1, t), lo=-4, hi=4))
        # the other variance components are arbitrary (non-zero values reachable): the target concerns genetic vs error variance only
        inp["venv"] = mk.real("venv", (t,), lo=0, hi=9)
        inp["vrep"] = mk.real("vrep", (t,), lo=0, hi=9)
        if self.params.get("vector"):
            inp["h"] = mk.real("h", (t,), lo=0, hi=1, lo_open=True)
        else:
            inp["h"] = mk.real("h", (), lo=0, hi=1, lo_open=True)
        return inp

    def call(self, inp, mk):
        import importlib
        n, m, t = self.params["n"], self.params["m"], self.params["t"]
        cls = self.params.get("cls", "G_E_Phenotyping")
        C = getattr(importlib.import_module(PT + cls), cls)
        gm = _model(inp, t, dom=True)
        pt = C(gpmod=gm, nenv=1, nrep=1, var_env=inp["venv"], var_rep=inp["vrep"], var_err=numpy.repeat(0.5, t)) if cls == "G_E_Phenotyping" else C(gpmod=gm)
        pg = _pg(n, m)
        if self.params["which"] == "h2":
            pt.set_h2(inp["h"], pg)
            g = gm.var_A(pg)
        else:
            pt.set_H2(inp["h"], pg)
            g = gm.var_G(pg)
        return dict(var_err=pt.var_err, g=g, var_env=pt.var_env, var_rep=pt.var_rep)

    def check(self, P, inp, out):
        t = self.params["t"]
        for tr in range(t):
            h = cell(inp["h"], tr) if self.params.get("vector") else inp["h"]
            g, ve = cell(out["g"], tr), cell(out["var_err"], tr)
            if P.concrete:
                P.prove(ve >= -1e-12, "error-variance-is-non-negative")
                if g > 1e-9:
                    P.prove(P.close(g / (g + ve), h), "genetic/(genetic+error)=target")
            else:
                P.prove(ve >= 0, "error-variance-is-non-negative")
                P.prove(Implies(g > 0, And(g + ve > 0, g == h * (g + ve))), "genetic/(genetic+error)=target")
            P.prove(P.eq(cell(out["var_env"], tr), cell(inp["venv"], tr)), "other-variance-components-untouched")
            P.prove(P.eq(cell(out["var_rep"], tr), cell(inp["vrep"], tr)), "other-variance-components-untouched")


class MeanBV(Harness):
    """MeanPhenotypicBreedingValue.estimate on an arbitrary (unbalanced, unordered) phenotype table"""
    name = "mean-phenotype-breeding-values"
    tol = 1e-7

    def modules(self):
        return MODS

    def inputs(self, mk):
        R, t = len(self.params["rows"]), self.params["t"]
        inp = dict(y=mk.real("y", (R, t), lo=-8, hi=8))
        if not mk.concrete:
            sym.ctx().prefer = list(sym.ctx().prefer) + [z3.Distinct(*[c.e for c in cells(inp["y"])])]
        return inp

    def _frame(self, inp, mk, order):
        rows, t = self.params["rows"], self.params["t"]
        lab = self.params["labels"]
        data = {"taxa": numpy.array([lab[rows[r]] for r in order], dtype=object)}
        if self.params.get("grpcol"):
            data["taxa_grp"] = numpy.array([self.params["grpcol"][rows[r]] for r in order])
        data["env"] = numpy.array([1 + (r % 2) for r in order])
        for tr in range(t):
            data["y%d" % tr] = inp["y"][numpy.array(order), tr] if not mk.concrete else numpy.array([inp["y"][r, tr] for r in order])
        if mk.concrete:
            import pandas
            return pandas.DataFrame(data)
        return pdstub.DataFrame(data)

    def call(self, inp, mk):
        from pybrops.breed.prot.bv.MeanPhenotypicBreedingValue import MeanPhenotypicBreedingValue
        from pybrops.popgen.gmat.DenseGenotypeMatrix import DenseGenotypeMatrix
        rows, t = self.params["rows"], self.params["t"]
        R = len(rows)
        est = MeanPhenotypicBreedingValue(taxa_col="taxa", taxa_grp_col=("taxa_grp" if self.params.get("grpcol") else None), trait_cols=["y%d" % i for i in range(t)])
        outs = []
        gorders = self.params.get("gorders", [None])
        for go in gorders:
            if go is None:
                gt = None
            else:
                gt = DenseGenotypeMatrix(mat=numpy.zeros((len(go), 1), dtype="int8"), taxa=numpy.array(go, dtype=object), taxa_grp=numpy.arange(len(go)) + 20,
                                         vrnt_chrgrp=numpy.ones(1, dtype="int64"), vrnt_phypos=numpy.arange(1) + 1)
                if self.params.get("grouped_gt"):
                    gt.group_taxa()
            for order in [list(range(R))] + [list(p) for p in self.params.get("perms", [])]:
                df = self._frame(inp, mk, order)
                before = _frame_snapshot(df)
                bv = est.estimate(df, gt)
                outs.append(dict(go=go, order=order, mat=bv.unscale(), taxa=[str(x) for x in bv.taxa], taxa_grp=None if bv.taxa_grp is None else [int(x) for x in bv.taxa_grp],
                                 trait=[str(x) for x in bv.trait], frame_unchanged=_frame_same(before, _frame_snapshot(df)),
                                 grouped=(bv.is_grouped_taxa() if go is not None and self.params.get("grouped_gt") else None)))
        return dict(runs=outs)

    def check(self, P, inp, out):
        rows, t, lab = self.params["rows"], self.params["t"], self.params["labels"]
        y = inp["y"]

        def mean_of(label, tr):
            ix = [r for r in range(len(rows)) if lab[rows[r]] == label]
            if not ix:
                return None
            tot = cell(y, ix[0], tr)
            for r in ix[1:]:
                tot = tot + cell(y, r, tr)
            return tot / len(ix)
        for run in out["runs"]:
            go = run["go"]
            if go is None:
                # without a genotype matrix the row order is not prescribed: every phenotyped taxon exactly once
                P.prove(sorted(run["taxa"]) == sorted(set(lab[r] for r in rows)), "every-phenotyped-taxon-exactly-once", detail="%s" % run["taxa"])
                want = list(run["taxa"])
            else:
                want = list(go)
                P.prove(run["taxa"] == want, "rows-aligned-to-the-genotype-taxon-order", detail="%s vs %s" % (run["taxa"], want))
            P.prove(run["trait"] == ["y%d" % i for i in range(t)], "trait-labels")
            if go is not None:
                P.prove(run["taxa_grp"] == [20 + i for i in range(len(go))], "group-labels-of-the-genotype-matrix")
            elif self.params.get("grpcol"):
                g = dict((lab[i], self.params["grpcol"][i]) for i in range(len(lab)))
                P.prove(run["taxa_grp"] == [g[l] for l in want], "group-labels-from-the-table")
            P.prove(run["frame_unchanged"], "phenotype-table-unmodified")
            if tuple(run["mat"].shape) != (len(want), t):
                P.prove(False, "shape", detail="%s" % (run["mat"].shape,))
                continue
            for i, l in enumerate(want):
                for tr in range(t):
                    ref = mean_of(l, tr)
                    v = cell(run["mat"], i, tr)
                    if ref is None:
                        P.prove(is_nan(v), "unphenotyped-taxon-reported-missing", detail="taxon %s: %s" % (l, v))
                    else:
                        P.prove(Not(is_nan(v)) if not P.concrete else (v == v), "phenotyped-taxon-has-a-value", detail="taxon %s" % l)
                        P.prove(P.close(v, ref) if P.concrete else (v == ref), "value=arithmetic-mean-over-the-taxon's-records", detail="taxon %s run order %s" % (l, run["order"]))


def _frame_snapshot(df):
    return {str(c): list(df[c].to_numpy()) for c in df.columns}


def _frame_same(a, b):
    if list(a) != list(b):
        return False
    for k in a:
        if len(a[k]) != len(b[k]):
            return False
        for x, y in zip(a[k], b[k]):
            if isinstance(x, SV) or isinstance(y, SV):
                if not (isinstance(x, SV) and isinstance(y, SV) and x.e.eq(y.e)):
                    return False
            elif not (x == y or (x != x and y != y)):
                return False
    return True


class TruePheno(Harness):
    """TruePhenotyping.phenotype / TrueBreedingValue.estimate: one record per taxon with its labels and its true value"""
    name = "true-phenotyping"
    tol = 1e-7

    def modules(self):
        return MODS

    def inputs(self, mk):
        n, m, t = self.params["n"], self.params["m"], self.params["t"]
        return dict(u=mk.real("u", (m, t), lo=-4, hi=4), beta=mk.real("b", (1, t), lo=-4, hi=4))

    def call(self, inp, mk):
        from pybrops.breed.prot.pt.TruePhenotyping import TruePhenotyping
        from pybrops.breed.prot.bv.TrueBreedingValue import TrueBreedingValue
        n, m, t = self.params["n"], self.params["m"], self.params["t"]
        gm = _model(inp, t)
        pg = _pg(n, m, grp=self.params.get("grp", True))
        df = TruePhenotyping(gpmod=gm).phenotype(pg)
        out = _frame_out(df, ["y%d" % i for i in range(t)])
        bv = TrueBreedingValue(gpmod=gm).estimate(None, pg)
        out["bv"] = bv.unscale()
        out["bv_taxa"] = [str(x) for x in bv.taxa]
        return out

    def check(self, P, inp, out):
        n, m, t = self.params["n"], self.params["m"], self.params["t"]
        grp = self.params.get("grp", True)
        P.prove(out["taxa"] == LABELS[:n], "one-record-per-taxon-with-its-label", detail="%s" % out["taxa"])
        if grp:
            P.prove(out["taxa_grp"] == [7, 3, 5][:n], "group-labels")
        P.prove(out["bv_taxa"] == LABELS[:n], "true-breeding-values-aligned-to-the-genotype-matrix")
        truth = _true(inp, n, m, t)
        for i in range(n):
            for tr in range(t):
                for key in ("values", "bv"):
                    v = cell(out[key], i, tr)
                    P.prove(P.close(v, truth[i][tr]) if P.concrete else (v == truth[i][tr]), "record-equals-the-true-genotypic-value")


def obligations(tier):
    obs = []
    ft = [dict(n=2, m=1, t=1, nrep=[1], noise="zero"), dict(n=2, m=2, t=1, nrep=[2, 1], noise="zero"), dict(n=3, m=1, t=1, nrep=[1, 2], noise="zero-default"),
          dict(n=2, m=1, t=2, nrep=[2], noise="zero"), dict(n=2, m=1, t=1, nrep=[1, 2], noise="concrete"), dict(n=2, m=1, t=1, nrep=[2], noise="symbolic"),
          dict(n=2, m=1, t=1, nrep=[2, 2], noise="concrete", nrep_array=False), dict(n=2, m=1, t=1, nrep=[1], noise="zero", grp=False)]
    if tier == "thorough":
        ft += [dict(n=3, m=2, t=1, nrep=[2, 1, 3], noise="zero"), dict(n=2, m=2, t=2, nrep=[1, 2], noise="concrete"), dict(n=3, m=1, t=1, nrep=[1, 1], noise="symbolic"),
               dict(n=2, m=1, t=2, nrep=[2], noise="symbolic"), dict(n=3, m=2, t=2, nrep=[2, 2], noise="zero")]
    for p in ft:
        obs.append(FieldTrial(**p))
    for which in ("h2", "H2"):
        obs.append(Heritability(n=3, m=2, t=1, which=which))
        obs.append(Heritability(n=2, m=1, t=2, which=which, vector=True))
        if tier == "thorough":
            obs.append(Heritability(n=3, m=2, t=2, which=which))
    mb = [dict(labels=LABELS, rows=[0, 1, 0, 2], t=1, gorders=[None, ["tA", "tB", "tC"], ["tC", "tZ", "tB", "tA"]], perms=[[3, 2, 1, 0]]),
          dict(labels=LABELS, rows=[2, 0, 0], t=1, gorders=[["tB", "tA", "tC"]], perms=[[1, 2, 0]]),
          dict(labels=LABELS, rows=[1, 0, 1, 0], t=2, gorders=[None, ["tA", "tB"]], perms=[[2, 3, 0, 1]]),
          dict(labels=LABELS, rows=[0, 1, 2, 1], t=1, grpcol=[7, 3, 5], gorders=[None], perms=[[1, 0, 3, 2]]),
          # a genotype matrix that lists a phenotyped taxon more than once (a parent selected twice)
          dict(labels=LABELS, rows=[1, 0, 1], t=1, gorders=[["tA", "tB", "tA", "tZ", "tB"]], perms=[[2, 1, 0]])]
    if tier == "thorough":
        mb += [dict(labels=LABELS, rows=[0, 1, 0, 2, 1, 0], t=1, gorders=[None, ["tC", "tA", "tB"]], perms=[[5, 4, 3, 2, 1, 0], [1, 0, 3, 2, 5, 4]]),
               dict(labels=LABELS, rows=[2, 2, 1], t=2, gorders=[["tA", "tZ", "tC"]], perms=[[2, 0, 1]]),
               dict(labels=LABELS, rows=[0, 1, 2], t=1, gorders=[["tC", "tB", "tA"]], perms=[[2, 1, 0]], grouped_gt=True)]
    for p in mb:
        obs.append(MeanBV(**p))
    obs.append(TruePheno(n=2, m=1, t=1))
    obs.append(TruePheno(n=3, m=2, t=1, grp=False))
    if tier == "thorough":
        obs.append(TruePheno(n=3, m=2, t=2))
    for h in obs:
        h.budget_s = 900
    return obs


def replay_known(f):
    raise NotImplementedError
