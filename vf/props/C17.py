"""C17 Sampling utilities honour their proportionality and balance guarantees"""
import itertools
from collections import Counter

import numpy

from ..harness import Harness, And, Or, Not, Implies, Ite, cells, cell
from .. import sym, symnp
from ..sym import SV

PROPERTY = "C17"
ASSUMPTIONS = [
    "weights are reals >= 0 with positive sum (documented)",
    "generator contract: uniform(lo,hi) in [lo,hi); shuffle/permutation = arbitrary permutation; choice without replacement = distinct indices",
]
STUBS = ["SymRNG (vf/stubs.py): uniform, shuffle, choice by contract",
         "outcross_shuffle: FirstPickRNG explores, per shuffle of the exchange list, the n rotations (every exchange is tried first in one of them); sound because the scan stops at the first improving exchange, so the set of reachable tables per iteration is {apply e : e improving} and each is reached by the rotation starting with e",
         "outcross_shuffle with inductive=True (large tables): only the FIRST shuffle is symbolic, later iterations use the identity order; sound because every table is enumerated as a start table and the state after one iteration is exactly the start state of a fresh run (gbest_score = score of the current table), so step properties are covered by (all tables x all first exchanges) and the stopping clause by the order-independent full scan from every table"]
BOUNDS = {"quick": dict(options="<=3", draws="<=3", tables="2x2"),
          "thorough": dict(options="<=4", draws="<=4", tables="up to 3x2 / 2x3")}
OUTSIDE = ["more options/draws than the bounds", "float accumulation in cumsum/sum (exact reals) except the fp64 pointer-count kernel"]

M = "pybrops.core.random.sampling"


class SUS(Harness):
    name = "stochastic_universal_sampling"

    def modules(self):
        return [M]

    def inputs(self, mk):
        n = self.params["n"]
        p = mk.real("p", (n,), lo=0)
        tot = 0.0
        for c in cells(p):
            tot = tot + c
        mk.assume(tot > 0)
        return dict(p=p, rng=mk.rng())

    def call(self, inp, mk):
        from pybrops.core.random.sampling import stochastic_universal_sampling as sus
        n = self.params["n"]
        a = numpy.arange(10, 10 + n)
        out = sus(a, inp["p"], self.params["size"], inp["rng"])
        return dict(out=out)

    def check(self, P, inp, out):
        n = self.params["n"]
        size = self.params["size"]
        shape = (size,) if isinstance(size, int) else tuple(size)
        k = int(numpy.prod(shape))
        o = out["out"]
        P.prove(tuple(o.shape) == shape, "requested-shape")
        vals = [int(v) for v in cells(o)]
        P.prove(len(vals) == k, "exactly-k-draws")
        cnt = Counter(vals)
        p = cells(inp["p"])
        W = 0.0
        for c in p:
            W = W + c
        for i in range(n):
            c = cnt.get(10 + i, 0)
            # count in {floor(x), ceil(x)}, x = k*p_i/W  <=>  |count - x| < 1
            P.prove(And(W * (c - 1) < k * p[i], k * p[i] < W * (c + 1)), "count-is-floor-or-ceil-of-expectation",
                    detail="element %d chosen %d times of %d" % (i, c, k))
            if c > 0:
                P.prove(p[i] > 0, "zero-weight-never-chosen")
        P.prove(all(10 <= v < 10 + n for v in vals), "draws-are-options")


class TiledChoice(Harness):
    name = "tiled_choice"

    def modules(self):
        return [M]

    def inputs(self, mk):
        return dict(rng=mk.rng())

    def call(self, inp, mk):
        from pybrops.core.random.sampling import tiled_choice
        n = self.params["n"]
        a = numpy.arange(10, 10 + n)
        a0 = a.copy()
        # optionally a (positive) weight vector for the remainder draw: balance and "without replacement" must hold all the same
        p = None if not self.params.get("weighted") else numpy.array([0.5, 0.25, 0.125, 0.0625, 0.0625][:n]) / sum([0.5, 0.25, 0.125, 0.0625, 0.0625][:n])
        out = tiled_choice(a, self.params["size"], replace=False, p=p, rng=inp["rng"])
        return dict(out=out, a_unchanged=bool(numpy.array_equal(a, a0)))

    def check(self, P, inp, out):
        n = self.params["n"]
        size = self.params["size"]
        shape = (size,) if isinstance(size, int) else tuple(size)
        k = int(numpy.prod(shape))
        o = out["out"]
        P.prove(tuple(o.shape) == shape, "requested-shape")
        vals = [int(v) for v in cells(o)]
        cnt = Counter(vals)
        P.prove(sum(cnt.values()) == k, "exactly-k-draws")
        for i in range(n):
            c = cnt.get(10 + i, 0)
            P.prove(c in (k // n, -(-k // n)), "every-option-used-floor-or-ceil(k/n)-times",
                    detail="option %d used %d times, k=%d n=%d" % (i, c, k, n))
        P.prove(all(10 <= v < 10 + n for v in vals), "draws-are-options")
        P.prove(out["a_unchanged"], "option-array-untouched")


class AxisShuffle(Harness):
    name = "axis_shuffle"

    def modules(self):
        return [M]

    def inputs(self, mk):
        shp = tuple(self.params["shape"])
        return dict(a=mk.int("a", shp), rng=mk.rng())

    def call(self, inp, mk):
        from pybrops.core.random.sampling import axis_shuffle
        a = inp["a"].copy()
        axis = self.params["axis"]
        axis_shuffle(a, tuple(axis) if isinstance(axis, list) else axis, inp["rng"])
        return dict(a=a)

    def check(self, P, inp, out):
        from pybrops.core.util.array import sliceaxisix
        shp = tuple(self.params["shape"])
        axis = self.params["axis"]
        axt = (axis,) if isinstance(axis, int) else tuple(axis)
        before, after = inp["a"], out["a"]
        P.prove(tuple(after.shape) == shp, "shape-kept")
        # reference: each slice obtained by fixing the indices of the listed axes is permuted along
        # the first remaining axis (numpy shuffle semantics); nothing moves between slices
        free = [d for d in range(len(shp)) if d not in axt]
        for fixed in itertools.product(*[range(shp[d]) for d in axt]):
            def sl(arr):
                idx = [slice(None)] * len(shp)
                for d, v in zip(axt, fixed):
                    idx[d] = v
                return arr[tuple(idx)]
            b, a_ = sl(before), sl(after)
            if len(free) == 0:
                P.prove(P.eq(cells(b)[0], cells(a_)[0]), "fully-indexed-cell-unchanged")
                continue
            nrow = b.shape[0]
            rows_b = [cells(b[r]) for r in range(nrow)]
            rows_a = [cells(a_[r]) for r in range(nrow)]
            # some permutation of the sub-rows reproduces the result
            alts = []
            for perm in itertools.permutations(range(nrow)):
                alts.append(And(*[P.eq(x, y) for r in range(nrow) for x, y in zip(rows_a[r], rows_b[perm[r]])]))
            P.prove(Or(*alts), "slice-is-a-permutation-of-itself")


class OutcrossShuffle(Harness):
    name = "outcross_shuffle"

    def modules(self):
        return [M]

    def inputs(self, mk):
        r, c = self.params["shape"]
        x = mk.int("x", (r, c), lo=0, hi=self.params.get("nid", 3) - 1)
        for k, v in enumerate(self.params.get("prefix", [])):
            mk.assume(cell(x, k // c, k % c) == v)     # splits the table space over parallel obligations
        from ..stubs import FirstPickRNG
        rng = mk.rng(cls=FirstPickRNG)
        if self.params.get("inductive"):
            rng.symbolic_calls = 1
        return dict(x=x, rng=rng)

    def call(self, inp, mk):
        from pybrops.core.random.sampling import outcross_shuffle
        x = inp["x"]
        # the function works on concrete id tables: enumerate the table by forking
        xc = numpy.array([[int(v) for v in cells(x[i])] for i in range(x.shape[0])], dtype=int)
        before = xc.copy()
        outcross_shuffle(xc, inp["rng"])
        return dict(before=before, after=xc)

    @staticmethod
    def score(t):
        s = 0
        for row in t:
            s += len(row) - len(set(int(v) for v in row))
        return s

    def check(self, P, inp, out):
        b, a = out["before"], out["after"]
        P.prove(tuple(a.shape) == tuple(b.shape), "shape-kept")
        P.prove(sorted(int(v) for v in b.ravel()) == sorted(int(v) for v in a.ravel()), "multiset-preserved")
        P.prove(self.score(a) <= self.score(b), "within-cross-repeats-never-increase")
        fl = a.ravel().copy()
        best = self.score(a)
        ok = True
        for i in range(len(fl)):
            for j in range(i + 1, len(fl)):
                t = fl.copy()
                t[i], t[j] = t[j], t[i]
                if self.score(t.reshape(a.shape)) < best:
                    ok = False
        P.prove(ok, "no-single-exchange-reduces-repeats", detail="after=%s" % a.tolist())


def obligations(tier):
    obs = []
    sus = [(2, 1), (2, 2), (3, 2), (2, 3), (3, 3)] if tier == "quick" else \
          [(1, 1), (1, 3), (2, 1), (2, 2), (3, 2), (2, 3), (3, 3), (2, 4), (3, 4), (4, 2), (4, 3)]
    for n, k in sus:
        h = SUS(n=n, size=k)
        h.weight = n * k * k * 10
        obs.append(h)
    obs.append(SUS(n=2, size=[2, 2]) if tier == "thorough" else SUS(n=2, size=[1, 2]))
    tc = [(2, 1), (2, 3), (3, 2), (3, 4), (2, [2, 2])] if tier == "quick" else \
         [(1, 1), (1, 3), (2, 1), (2, 2), (2, 3), (2, 5), (3, 2), (3, 3), (3, 4), (3, 5), (4, 2), (4, 5), (2, [2, 2]), (3, [2, 2]), (3, [1, 2])]
    for n, k in tc:
        obs.append(TiledChoice(n=n, size=k))
    for n, k in ([(3, 5), (3, 3)] if tier == "quick" else [(3, 5), (4, 6), (3, 2), (3, 3)]):
        obs.append(TiledChoice(n=n, size=k, weighted=True))
    ax = [((2, 2), 0), ((2, 2), 1), ((2, 3), [0]), ((3, 2), 1), ((2, 2, 2), [1, 0])] if tier == "quick" else \
         [((2, 3, 2), [1, 0]), ((2, 2, 2), [2, 0]), ((2, 2, 2), [1, 0]), ((2, 2), 0), ((2, 2), 1), ((2, 3), 0), ((2, 3), 1), ((3, 2), 0), ((3, 2), 1), ((2, 2, 2), 0), ((2, 2, 2), [0, 1]), ((2, 2, 2), 1), ((2, 3, 2), 2)]
    for shp, axis in ax:
        obs.append(AxisShuffle(shape=list(shp), axis=axis))
    oc = [((2, 2), 2), ((2, 2), 3)] if tier == "quick" else [((2, 2), 2), ((2, 2), 3), ((2, 2), 4), ((3, 2), 3), ((2, 3), 3), ((1, 2), 2)]
    for shp, nid in oc:
        # tables with six cells: only the first shuffle symbolic (every table is a start table, see STUBS)
        h = OutcrossShuffle(shape=list(shp), nid=nid, **(dict(inductive=True) if shp[0] * shp[1] >= 6 else {}))
        h.weight = 50
        obs.append(h)
    if tier == "quick":
        # non-square tables with more crosses than parents: two fully fixed 4x2 start tables (thorough enumerates all of them)
        for pre in ([0, 0, 1, 1, 0, 1, 0, 1], [0, 1, 1, 1, 0, 0, 1, 0], [0, 0, 1, 0, 1, 1, 0, 1]):
            h = OutcrossShuffle(shape=[4, 2], nid=2, prefix=pre, inductive=True)
            h.weight = 100
            obs.append(h)
    # two crosses of four parents: exchanges between a late column of one cross and an early column of the next must be tried
    for pre in ([[0, 1, 2, 2, 3, 4, 0, 1]] if tier == "quick" else [[0, 1, 2, 2, 3, 4, 0, 1], [0, 0, 1, 2, 1, 2, 3, 3], [0, 1, 1, 0, 2, 2, 3, 3]]):
        h = OutcrossShuffle(shape=[2, 4], nid=5, prefix=pre, inductive=True)
        h.weight = 100
        obs.append(h)
    if tier == "thorough":
        # 4x2 tables over two ids, table space split by the first four cells
        for pre in itertools.product(range(2), repeat=4):
            h = OutcrossShuffle(shape=[4, 2], nid=2, prefix=list(pre), inductive=True)
            h.weight = 200
            h.budget_s = 1500
            obs.append(h)
    return obs


def replay_known(f):
    raise NotImplementedError
