"""C02 Realised recombination and segregation match the crossover probabilities

Decided in exact path-probability form (no sampling): all feasible paths of the real meiosis kernel are enumerated
symbolically; the solver proves that each path condition is exactly the conjunction of the literals u_ij < x_j /
not(u_ij < x_j) over pairwise distinct uniform draws (one per gamete and marker), that the paths are in bijection with
the crossover-indicator patterns, and that the transmitted copy is the running parity of the indicators.  The path
probability is then the product of x_j / (1-x_j), and the distributional clauses become polynomial identities that z3
discharges.  Convergence of empirical proportions is the law of large numbers applied to that law (not solver-checked).
"""
import itertools
import time
import traceback

import numpy
import z3

from ..harness import Harness, Mk, And, Or, Not, Implies, Ite, cells, cell
from .. import sym, symnp, stubs, compat
from ..sym import SV, Ctx
from .C01 import _founders, _is, UTIL, CORE

PROPERTY = "C02"
ASSUMPTIONS = [
    "generator contract: draws are independent and uniform on [0,1) (the real bit generator is outside the claim)",
    "crossover probabilities are reals in [0,1]",
    "transcendental functions: exp is an uninterpreted function with positivity, exp(0)=1, monotonicity and the product law instantiated on the applied arguments",
]
STUBS = ["SymRNG.uniform", "numpy.exp (axiomatised)"]
BOUNDS = {"quick": dict(kernel="markers<=3, gametes<=2 (<=6 draws)", map="<=4 markers on <=2 chromosomes"),
          "thorough": dict(kernel="markers<=5 (1 gamete), <=3 (2 gametes)", map="<=4 markers on <=2 chromosomes")}
OUTSIDE = ["law-of-large-numbers step from the per-gamete law to empirical proportions", "uniformity/independence of the real generator",
           "floating point in exp/tanh"]

HALD = "pybrops.popgen.gmap.HaldaneMapFunction"


class KernelLaw:
    """exact law of the gametes produced by the real kernel"""
    weight = 50

    def __init__(self, which, fn, n, m, k, chrom_starts=(0,)):
        self.which, self.fn, self.n, self.m, self.k = which, fn, n, m, k
        self.chrom_starts = tuple(chrom_starts)
        self.active_known = set()

    def modules(self):
        return [UTIL, CORE]

    def describe(self):
        return "kernel-law{%s.%s, individuals=%d, markers=%d, gametes=%d, chromosome starts=%s}" % (
            self.which, self.fn, self.n, self.m, self.k, list(self.chrom_starts))

    def run(self, tier):
        t0 = time.time()
        res = dict(name=self.describe(), status="ok", message="", paths=0, validated=0, labels={}, functions=[],
                   stats={}, sample=None, reached_assertions=0)
        try:
            self._run(res)
        except sym.Counterexample as ce:
            res.update(status="unconfirmed", message="%s %s" % (ce.label, ce.detail or ""))
            if ce.model is not None and getattr(self, "_mk", None) is not None:
                from ..harness import model_values, jsonable
                names = [nm for r_ in self._mk.rngs for d in r_.draws for nm in d["names"]]
                vals = jsonable(model_values(ce.model, self._mk.symbols, names))
                ok, info = self.replay(vals)
                res.update(cex=vals, replay_info=info, status="violation" if ok else "unconfirmed")
        except sym.Inconclusive as ex:
            res.update(status="inconclusive", message=str(ex))
        except Exception as ex:
            res.update(status="error", message="%s\n%s" % (ex, traceback.format_exc(limit=8)))
        res["wall_s"] = round(time.time() - t0, 2)
        return res

    def _run(self, res):
        import importlib
        compat.load(*self.modules())
        compat.symbolic_mode(True)
        mod = importlib.import_module(UTIL if self.which == "util" else CORE)
        names = dict(util=dict(meiosis="mat_meiosis", dh="mat_dh", mate="mat_mate"),
                     core=dict(meiosis="dense_meiosis", dh="dense_dh", mate="dense_cross"))[self.which]
        f = getattr(mod, names[self.fn])
        res["functions"] = ["pybrops/%s.py:%s" % ("breed/prot/mate/util" if self.which == "util" else "core/util/mate", names[self.fn])]
        n, m, k = self.n, self.m, self.k
        c = Ctx(deadline=time.time() + 1200)
        paths = []
        labels = res["labels"]

        def lab(l):
            labels[l] = labels.get(l, 0) + 1

        def body():
            mk = Mk()
            A = _founders(mk, n, m, distinct=False)
            x = mk.real("x", (m,), lo=0, hi=1)
            rng = mk.rng()
            self._mk = mk
            sel = numpy.arange(k) % n
            npc0 = len(c.pc)
            if self.fn == "mate":
                out = f(A, A, sel, sel[::-1].copy(), x, rng)
                gam = [(0, i, int(sel[i])) for i in range(k)] + [(1, i, int(sel[::-1][i])) for i in range(k)]
            elif self.fn == "dh":
                out = f(A, sel, x, rng)
                gam = [(0, i, int(sel[i])) for i in range(k)]
            else:
                out = f(A, sel, x, rng)
                gam = [(None, i, int(sel[i])) for i in range(k)]
            # draws: one uniform per (gamete, marker); a fresh call of shape (k,m) per meiosis
            ncalls = 2 if self.fn == "mate" else 1
            c.prove(len(rng.draws) == ncalls and all(tuple(d["shape"]) == (k, m) for d in rng.draws), "one-uniform-draw-per-gamete-and-marker")
            lab("one-uniform-draw-per-gamete-and-marker")
            allnames = [nm for d in rng.draws for nm in d["names"]]
            c.prove(len(set(allnames)) == len(allnames), "draws-pairwise-distinct")
            lab("draws-pairwise-distinct")
            # provenance -> copy sequence -> indicators
            lits = []
            pattern = []
            copies = []
            for gi, (side, i, s) in enumerate(gam):
                call = rng.draws[1 if (self.fn == "mate" and side == 1) else 0]
                prev = 0
                seq = []
                for j in range(m):
                    cl = cell(out, i, j) if side is None else cell(out, side, i, j)
                    src = [h for h in (0, 1) if _is(cl, cell(A, h, s, j))]
                    if not src and isinstance(cl, SV):
                        # a merged (if-then-else) cell, as a vectorised implementation produces: split the path on the merge conditions until a
                        # plain allele constant remains (no assumption on allele values: homozygous loci stay reachable)
                        e = cl.e
                        while z3.is_app_of(e, z3.Z3_OP_ITE):
                            e = e.arg(1) if c.branch(e.arg(0)) else e.arg(2)
                        src = [h for h in (0, 1) if e.eq(cell(A, h, s, j).e)]
                    c.prove(len(src) == 1, "gamete-cell-is-a-copy-of-the-selected-individual")
                    h = src[0]
                    ind = int(h != prev)
                    u = z3.Real(call["names"][i * m + j])
                    lit = u < cell(x, j).e
                    lits.append(lit if ind else z3.Not(lit))
                    pattern.append(ind)
                    seq.append(h)
                    prev = h
                copies.append(seq)
            # the path condition added by the kernel is exactly this conjunction of literals
            kernel_pc = c.pc[npc0:]
            dom = c.pc[:npc0]
            conj = z3.And(*lits)
            own = [f_ for f_ in kernel_pc if not _is_domain(f_)]
            c.prove(z3.Implies(z3.And(*own) if own else z3.BoolVal(True), conj), "path-condition=>indicator-literals")
            lab("path-condition=>indicator-literals")
            s2 = z3.Solver()
            s2.add(*dom)
            s2.add(*[f_ for f_ in kernel_pc if _is_domain(f_)])
            s2.add(conj)
            s2.add(z3.Not(z3.And(*own)) if own else z3.BoolVal(False))
            r = s2.check()
            c.stats["prove_queries"] += 1
            if r != z3.unsat:
                raise sym.Counterexample("indicator-literals=>path-condition", s2.model() if r == z3.sat else None, "path condition is stronger than its literals")
            c.stats["prove_unsat"] += 1
            lab("indicator-literals=>path-condition")
            if self.fn == "dh":
                for i in range(k):
                    for j in range(m):
                        c.prove(_is(cell(out, 0, i, j), cell(out, 1, i, j)), "dh-copies-identical")
            paths.append((tuple(pattern), copies))

        sym.explore(c, body)
        res["stats"] = {k_: (round(v, 3) if isinstance(v, float) else v) for k_, v in c.stats.items()}
        res["paths"] = c.stats["paths"]
        res["reached_assertions"] = len(paths)
        ngam = len(paths[0][1])
        nlit = ngam * m
        pats = [p for p, _ in paths]
        if len(set(pats)) != len(pats) or len(pats) != 2 ** nlit:
            res.update(status="unconfirmed", message="paths are not in bijection with the %d indicator patterns (%d paths, %d distinct)" % (2 ** nlit, len(pats), len(set(pats))))
            return
        labels["paths<->indicator-patterns-bijection"] = 1
        # polynomial identities over the path probabilities
        X = [z3.Real("x_%d" % j) for j in range(m)]
        dom = [z3.And(xx >= 0, xx <= 1) for xx in X]

        def prob(pattern):
            t = z3.RealVal(1)
            for g in range(ngam):
                for j in range(m):
                    t = t * (X[j] if pattern[g * m + j] else (1 - X[j]))
            return t

        def total(pred):
            t = z3.RealVal(0)
            for p, cp in paths:
                if pred(p, cp):
                    t = t + prob(p)
            return t
        ids = [("probabilities-sum-to-one", total(lambda p, cp: True) == 1, [])]
        for g in range(ngam):
            for j in range(1, m):
                ids.append(("P(copy changes between j-1 and j)=xoprob[j]", total(lambda p, cp, g=g, j=j: cp[g][j] != cp[g][j - 1]) == X[j], []))
            # non-adjacent markers: odd number of crossovers in between
            for a in range(m):
                for b in range(a + 1, m):
                    prod = z3.RealVal(1)
                    for j in range(a + 1, b + 1):
                        prod = prod * (1 - 2 * X[j])
                    ids.append(("P(markers a,b recombine)=(1-prod(1-2x))/2", total(lambda p, cp, g=g, a=a, b=b: cp[g][a] != cp[g][b]) == (1 - prod) / 2, []))
            # one half at chromosome starts => every locus transmits either copy with probability one half
            half = [X[s] == z3.Q(1, 2) for s in self.chrom_starts]
            for j in range(m):
                if any(s <= j for s in self.chrom_starts) and 0 in self.chrom_starts:
                    ids.append(("xoprob=1/2 at chromosome starts => P(copy 1 at locus)=1/2", total(lambda p, cp, g=g, j=j: cp[g][j] == 1) == z3.Q(1, 2), half))
            # independent assortment across chromosomes
            for s in self.chrom_starts:
                if s > 0:
                    for a in range(0, s):
                        for b in range(s, m):
                            ids.append(("markers on different chromosomes assort independently", total(lambda p, cp, g=g, a=a, b=b: cp[g][a] != cp[g][b]) == z3.Q(1, 2), half))
        if ngam >= 2:
            # independence between gametes: joint law of (copy at last marker of gamete 0, of gamete 1) factorises
            j = m - 1
            p0 = total(lambda p, cp: cp[0][j] == 1)
            p1 = total(lambda p, cp: cp[1][j] == 1)
            ids.append(("gametes-independent", total(lambda p, cp: cp[0][j] == 1 and cp[1][j] == 1) == p0 * p1, []))
            # crossovers in different intervals are independent (joint of two indicators factorises)
            if m >= 3:
                ids.append(("crossovers-in-different-intervals-independent",
                            total(lambda p, cp: p[1] == 1 and p[2] == 1) == X[1] * X[2], []))
        elif m >= 3:
            ids.append(("crossovers-in-different-intervals-independent", total(lambda p, cp: p[1] == 1 and p[2] == 1) == X[1] * X[2], []))
        nq = 0
        t1 = time.time()
        for label, ident, extra in ids:
            s3 = z3.Solver()
            s3.set("timeout", 120000)
            s3.add(*dom)
            s3.add(*extra)
            s3.add(z3.Not(ident))
            r = s3.check()
            nq += 1
            labels[label] = labels.get(label, 0) + 1
            if r == z3.sat:
                res.update(status="unconfirmed", message="identity fails: %s with %s" % (label, s3.model()))
                return
            if r != z3.unsat:
                res.update(status="inconclusive", message="solver %s on identity %s" % (r, label))
                return
        res["stats"]["prove_queries"] = res["stats"].get("prove_queries", 0) + nq
        res["stats"]["prove_unsat"] = res["stats"].get("prove_unsat", 0) + nq
        res["stats"]["solver_s"] = round(res["stats"].get("solver_s", 0.0) + time.time() - t1, 3)
        res["sample"] = dict(inputs=dict(example_path=dict(indicators=list(paths[len(paths) // 2][0]), copies=paths[len(paths) // 2][1]),
                                         identities=len(ids)))
        # translator validation: empirical check of the real kernel with a real generator against the proved law (sanity, not deciding)
        res["validated"] = self._concrete_sanity()

    def replay(self, vals):
        """real kernel on real numpy with the model's alleles, probabilities and draws vs. the reference meiosis"""
        import importlib
        from fractions import Fraction
        compat.load(*self.modules())
        compat.symbolic_mode(False)
        mod = importlib.import_module(UTIL if self.which == "util" else CORE)
        names = dict(util=dict(meiosis="mat_meiosis", dh="mat_dh", mate="mat_mate"),
                     core=dict(meiosis="dense_meiosis", dh="dense_dh", mate="dense_cross"))[self.which]
        f = getattr(mod, names[self.fn])
        n, m, k = self.n, self.m, self.k

        def val(nm, d=0):
            v = vals.get(nm, d)
            return Fraction(v) if isinstance(v, str) else v
        A = numpy.array([[[int(val("a_%d_%d_%d" % (h, i, j))) for j in range(m)] for i in range(n)] for h in range(2)], dtype="int8")
        x = numpy.array([float(val("x_%d" % j)) for j in range(m)])
        rng = stubs.ScriptedRNG(vals, "rng")
        sel = numpy.arange(k) % n
        if self.fn == "mate":
            out = f(A, A, sel, sel[::-1].copy(), x, rng)
            gam = [(0, i, int(sel[i]), 1) for i in range(k)] + [(1, i, int(sel[::-1][i]), 2) for i in range(k)]
        elif self.fn == "dh":
            out = f(A, sel, x, rng)
            gam = [(0, i, int(sel[i]), 1) for i in range(k)] + [(1, i, int(sel[i]), 1) for i in range(k)]
        else:
            out = f(A, sel, x, rng)
            gam = [(None, i, int(sel[i]), 1) for i in range(k)]
        bad = []
        for side, i, s_, callno in gam:
            ph = 0
            for j in range(m):
                u = float(val("rng_%d_u_%d" % (callno, i * m + j), 0))
                if u < x[j]:
                    ph = 1 - ph
                got = out[i, j] if side is None else out[side, i, j]
                if int(got) != int(A[ph, s_, j]):
                    bad.append("gamete %d marker %d: got allele %d, reference meiosis with the same draws gives %d" % (i, j, got, A[ph, s_, j]))
        return (len(bad) > 0), ("real %s with scripted draws: %s" % (names[self.fn], "; ".join(bad[:3]) if bad else "equals the reference meiosis"))

    def _concrete_sanity(self):
        import importlib
        compat.symbolic_mode(False)
        mod = importlib.import_module(UTIL if self.which == "util" else CORE)
        f = getattr(mod, dict(util="mat_meiosis", core="dense_meiosis")[self.which])
        m = self.m
        A = numpy.zeros((2, 1, m), dtype="int8")
        A[1] = 1
        x = numpy.array([0.5] + [0.25] * (m - 1))
        rng = numpy.random.RandomState(12345)
        g = f(A, numpy.zeros(4000, dtype=int), x, rng)
        ok = 0
        if abs(g[:, 0].mean() - 0.5) < 0.05:
            ok += 1
        for j in range(1, m):
            if abs((g[:, j] != g[:, j - 1]).mean() - 0.25) < 0.05:
                ok += 1
        if ok != m:
            raise RuntimeError("real kernel with a real generator disagrees grossly with the proved law")
        return ok


def _is_domain(f_):
    """assumption literals of the stubs/inputs (bounds on draws and probabilities, distinctness) vs. decisions of the kernel"""
    s = str(f_)
    if s.startswith("Distinct") or s.startswith("And(Distinct"):
        return True
    # bounds: single-variable comparisons with numerals
    ch = f_.children() if z3.is_app(f_) else []
    def numeral_bound(g):
        if z3.is_app(g) and g.decl().kind() in (z3.Z3_OP_LE, z3.Z3_OP_GE, z3.Z3_OP_LT, z3.Z3_OP_GT):
            a, b = g.children()
            return z3.is_rational_value(a) or z3.is_rational_value(b) or z3.is_int_value(a) or z3.is_int_value(b)
        if z3.is_app(g) and g.decl().kind() == z3.Z3_OP_NOT:
            return numeral_bound(g.children()[0])
        if z3.is_app(g) and g.decl().kind() == z3.Z3_OP_AND:
            return all(numeral_bound(h) for h in g.children())
        return False
    return numeral_bound(f_)


class HaldaneComposition(Harness):
    """r(d1+d2) = r1 + r2 - 2 r1 r2 from the source expression of HaldaneMapFunction.mapfn: independent crossovers in
    adjacent intervals compose to the map function of the summed distance"""
    name = "haldane-composition"
    needs_real_run = True
    validate_compare = False
    tol = 1e-9

    def modules(self):
        return [HALD]

    def inputs(self, mk):
        k = self.params["k"]
        return dict(d=mk.real("d", (k,), lo=0))

    def call(self, inp, mk):
        from pybrops.popgen.gmap.HaldaneMapFunction import HaldaneMapFunction
        f = HaldaneMapFunction()
        d = inp["d"]
        k = self.params["k"]
        tot = d[0]
        for i in range(1, k):
            tot = tot + d[i]
        import pybrops.popgen.gmap.HaldaneMapFunction as HM
        r = f.mapfn(d)
        if isinstance(tot, SV):
            arr = symnp.SymArray(symnp.mkobj([tot]), "float64")
        else:
            arr = numpy.array([tot], dtype=float)
        rt = f.mapfn(arr)
        return dict(r=r, rt=rt)

    def check(self, P, inp, out):
        k = self.params["k"]
        r = cells(out["r"])
        prod = 1.0
        for i in range(k):
            prod = prod * (1 - 2 * r[i])
            P.prove(And(r[i] >= 0, P.le(r[i], 0.5)), "mapfn-range-[0,1/2]")
        P.prove(P.eq(cell(out["rt"], 0), (1 - prod) / 2), "haldane(sum d) = (1 - prod(1-2 r_i))/2")


def obligations(tier):
    obs = []
    if tier == "quick":
        cfg = [("util", "meiosis", 1, 2, 1, (0,)), ("util", "meiosis", 1, 3, 1, (0,)), ("util", "meiosis", 2, 3, 2, (0,)), ("util", "meiosis", 1, 3, 1, (0, 2)),
               ("util", "mate", 2, 2, 1, (0,)), ("util", "dh", 1, 3, 1, (0,)), ("core", "meiosis", 1, 3, 1, (0,)), ("core", "meiosis", 1, 3, 1, (0, 1)),
               ("core", "dh", 1, 2, 2, (0,)), ("core", "mate", 2, 2, 1, (0,))]
    else:
        cfg = []
        for which in ("util", "core"):
            cfg += [(which, "meiosis", 1, 2, 1, (0,)), (which, "meiosis", 1, 3, 1, (0,)), (which, "meiosis", 2, 3, 2, (0,)), (which, "meiosis", 1, 3, 1, (0, 2)),
                    (which, "meiosis", 1, 4, 1, (0, 2)), (which, "meiosis", 1, 5, 1, (0, 3)), (which, "meiosis", 1, 4, 1, (0,)),
                    (which, "mate", 2, 2, 1, (0,)), (which, "mate", 2, 3, 1, (0,)), (which, "dh", 1, 3, 1, (0,)), (which, "dh", 2, 3, 2, (0, 1)), (which, "meiosis", 1, 3, 1, (0, 1))]
    for which, fn, n, m, k, cs in cfg:
        h = KernelLaw(which, fn, n, m, k, cs)
        h.weight = 2 ** (m * k * (2 if fn == "mate" else 1))
        obs.append(h)
    for k in (2,):      # three intervals at once are not decided by the instantiated exp axioms; longer chains follow by repeated composition
        obs.append(HaldaneComposition(k=k))
    # the crossover probabilities the kernels above consume are assigned from a genetic map: mapfn(consecutive distance), 1/2 at every
    # chromosome start, for both map functions (harness shared with C11)
    from .C11 import XoProb
    for kind in ("haldane", "kosambi"):
        obs.append(XoProb(kind=kind, sizes=[2, 2], msizes=[2, 1]))
        obs.append(XoProb(kind=kind, sizes=[2, 2], msizes=[3, 1]))
        if tier == "thorough":
            obs.append(XoProb(kind=kind, sizes=[2, 2], msizes=[1, 3]))
            obs.append(XoProb(kind=kind, sizes=[3], msizes=[3]))
    return obs


def replay_known(f):
    raise NotImplementedError
