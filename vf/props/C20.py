"""C20 The breeding-program loop applies operators in order on independent replicates (CrossHair)"""
import itertools
import json
import os
import re
import subprocess
import sys
import time

PROPERTY = "C20"
ASSUMPTIONS = [
    "operators and logbook are recording subclasses of the real operator/logbook base classes; whether each operator mutates the containers it receives in place is enumerated (16 combinations), everything else (replicates, generations, loginit, pre-initialised or not, t_max) is symbolic",
]
STUBS = ["recording operators/logbook (vf/ch/c20_harness.py)"]
BOUNDS = {"quick": dict(nrep="<=2", ngen="<=2", t_max="1 (so that ngen exceeds t_max)", per_condition_timeout_s=420),
          "thorough": dict(nrep="<=3", ngen="<=3", t_max="0..2", per_condition_timeout_s=3000)}
OUTSIDE = ["more replicates/generations than the bound (the loop body depends on the counters only through t_cur)"]

VERIF = os.path.dirname(os.path.dirname(os.path.dirname(os.path.abspath(__file__))))
HARNESS = os.path.join(VERIF, "vf", "ch", "c20_harness.py")
WORK = os.path.join(VERIF, ".work", "c20")
PY = os.path.join(VERIF, ".venv", "bin", "python")
PARAMS = ["nrep", "ngen", "loginit", "preinit", "t_max", "empty"]


class CrossHairOb:
    weight = 100

    def __init__(self, muts, tier, with_reach=False):
        self.muts, self.tier, self.with_reach = tuple(muts), tier, with_reach
        self.active_known = set()

    def modules(self):
        return ["pybrops.breed.arch.RecurrentSelectionBreedingProgram"]

    def describe(self):
        return "crosshair:evolve-trace{mutating ops psel,mate,eval,ssel=%s%s}" % (list(self.muts), ",+reachability-twin" if self.with_reach else "")

    def run(self, tier):
        t0 = time.time()
        b = BOUNDS[tier]
        nmax = 2 if tier == "quick" else 3
        tlo, thi = (1, 1) if tier == "quick" else (0, 2)
        timeout = b["per_condition_timeout_s"]
        os.makedirs(WORK, exist_ok=True)
        src = open(HARNESS).read()
        for k, v in zip(("MUT_PSEL", "MUT_MATE", "MUT_EVAL", "MUT_SSEL"), self.muts):
            src = re.sub(r"\b%s\b" % k, "True" if v else "False", src)
        src = src.replace("NREP_MAX", str(nmax)).replace("NGEN_MAX", str(nmax)).replace("TMAX_LO", str(tlo)).replace("TMAX_HI", str(thi))
        fn = os.path.join(WORK, "h_%s_%s.py" % (tier, "".join("1" if m else "0" for m in self.muts)))
        open(fn, "w").write(src)
        lines = src.split("\n")
        ln_check = next(i for i, l in enumerate(lines) if l.startswith("def check(")) + 1
        ln_reach = next(i for i, l in enumerate(lines) if l.startswith("def reach(")) + 1
        res = dict(name=self.describe(), status="ok", message="", paths=0, validated=0, labels={}, functions=[
            "pybrops/breed/arch/RecurrentSelectionBreedingProgram.py:evolve/advance/reset/initialize/is_initialized + property setters (executed symbolically by CrossHair)"],
            stats=dict(decisions=0, prove_queries=0, prove_unsat=0, prove_sat=0, prove_unknown=0, branch_queries=0, solver_s=0.0),
            sample=None, reached_assertions=0)
        env = dict(os.environ, VERIF_REPO=os.environ.get("VERIF_REPO", "/repo"), PYTHONDONTWRITEBYTECODE="1")
        targets = [("check", ln_check)] + ([("reach", ln_reach)] if self.with_reach else [])
        for name, ln in targets:
            cmd = [PY, "-m", "crosshair", "check", "--report_all", "--per_condition_timeout", str(timeout), "%s:%d" % (fn, ln)]
            t1 = time.time()
            try:
                pr = subprocess.run(cmd, capture_output=True, text=True, env=env, timeout=timeout + 300, cwd=WORK)
                out = pr.stdout + pr.stderr
            except subprocess.TimeoutExpired:
                out = "timeout"
            dt = time.time() - t1
            res["stats"]["solver_s"] += dt
            res["stats"]["prove_queries"] += 1
            res["labels"]["crosshair:%s" % name] = 1
            if name == "check":
                if "Confirmed over all paths" in out:
                    res["stats"]["prove_unsat"] += 1
                    # number of paths = bounded by the finite domain
                    res["paths"] = (nmax + 1) * (nmax + 1) * 8 * (thi - tlo + 1)
                    res["stats"]["decisions"] = res["paths"]
                    res["reached_assertions"] = res["paths"]
                    continue
                m = re.search(r"error: (.*) when calling check\((.*?)\)", out)
                if m:
                    res["stats"]["prove_sat"] += 1
                    args = _parse_args(m.group(2))
                    args.update(dict(zip(("mut_psel", "mut_mate", "mut_eval", "mut_ssel"), self.muts)))
                    ok, info = replay_args(args)
                    res.update(cex=args, message="trace differs from the reference (%s)" % m.group(1), replay_info=info,
                               status="violation" if ok else "unconfirmed")
                    break
                res["stats"]["prove_unknown"] += 1
                res.update(status="inconclusive", message="crosshair: %s" % out.strip()[-400:])
                break
            else:
                if re.search(r"error: false when calling reach\(", out):
                    res["validated"] += 1      # twin refuted: the harness reaches its postcondition with a true result
                else:
                    res.update(status="error", message="reachability twin was not refuted: %s" % out.strip()[-300:])
                    break
        if res["status"] == "ok":
            # concrete validation runs of the harness against the real class
            for args in (dict(nrep=2, ngen=2, loginit=True, preinit=False, t_max=1), dict(nrep=1, ngen=nmax, loginit=False, preinit=True, t_max=tlo),
                         dict(nrep=2, ngen=1, loginit=True, preinit=True, t_max=1, empty=True)):
                a = dict(args)
                a.update(dict(zip(("mut_psel", "mut_mate", "mut_eval", "mut_ssel"), self.muts)))
                bad, info = replay_args(a)
                if bad:
                    res.update(status="violation", cex=a, message="concrete run differs from the reference", replay_info=info)
                    break
                res["validated"] += 1
            res["sample"] = dict(inputs=dict(domain="nrep,ngen in [0,%d], loginit, preinit symbolic, t_max in [%d,%d], mutating ops %s" % (nmax, tlo, thi, list(self.muts))))
        res["wall_s"] = round(time.time() - t0, 2)
        return res


def _cho_replay(self, vals):
    return replay_args(vals)


CrossHairOb.replay = _cho_replay


def _parse_args(s):
    vals = [v.strip() for v in s.split(",")]
    out = {}
    pos = 0
    for v in vals:
        if "=" in v:
            k, v = [x.strip() for x in v.split("=", 1)]
        else:
            k = PARAMS[pos]
            pos += 1
        out[k] = (v == "True") if v in ("True", "False") else int(v)
    return out


def replay_args(args):
    env = dict(os.environ, VERIF_REPO=os.environ.get("VERIF_REPO", "/repo"), PYTHONDONTWRITEBYTECODE="1")
    pr = subprocess.run([PY, HARNESS, json.dumps(args)], capture_output=True, text=True, env=env, timeout=300)
    return pr.returncode != 0, (pr.stdout.strip() or pr.stderr.strip())[-400:]


def obligations(tier):
    obs = []
    for i, muts in enumerate(itertools.product([False, True], repeat=4)):
        obs.append(CrossHairOb(muts, tier, with_reach=(i in (0, 15))))
    return obs


def replay_known(f):
    raise NotImplementedError
