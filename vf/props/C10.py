"""C10 Selection limits bound every attainable value and only ever tighten"""
import ast
import time
import traceback

import numpy
import z3

from ..harness import Harness, And, Or, Not, Implies, Ite, cells, cell
from .. import sym, symnp, fpkernel, compat
from ..fpkernel import Kernel, Iv, FPv, Bv, F64, BVW
from .C09 import _mk_gmat, _fp_value

PROPERTY = "C10"
ASSUMPTIONS = [
    "closed population step: every allele of the descendant population P' at locus j equals some allele present at locus j in P "
    "(this is exactly what C01 establishes for every mating protocol; selection only removes individuals)",
    "marker effects and intercepts are arbitrary reals (zeros and both signs reachable); allele calls in {0,1}",
    "fp64 kernels: |marker effect| <= 1e150 (ploidy*u must not overflow to infinity)",
]
STUBS = []
BOUNDS = {"quick": dict(real_mode="|P|<=2, |P'|<=2, markers<=2, traits<=2; in-place histories of one operation; ploidy 3/4 panels of 2 taxa; one real two-way cross of 2 markers", fp64="n in [1,64]: p>0.0 / p>=1.0 comparators of usl/lsl on afreq() and on the ndarray branch"),
          "thorough": dict(real_mode="|P|<=3, |P'|<=3, markers<=3, traits<=2", fp64="n in [1,256]")}
OUTSIDE = ["populations larger than the bounds in the real-mode inductive step", "rounding in the sums of effects (exact reals)"]

GMOD = "pybrops.model.gmod.DenseAdditiveLinearGenomicModel"
PGM = "pybrops.popgen.gmat.DensePhasedGenotypeMatrix"
GM = "pybrops.popgen.gmat.DenseGenotypeMatrix"


def _model(beta, u_a, t):
    from pybrops.model.gmod.DenseAdditiveLinearGenomicModel import DenseAdditiveLinearGenomicModel
    return DenseAdditiveLinearGenomicModel(beta=beta, u_misc=None, u_a=u_a,
                                           trait=numpy.array(["tr%d" % i for i in range(t)], dtype=object))


class LimitsStep(Harness):
    """one closed-population step from an arbitrary population P to an arbitrary derived P'"""
    name = "usl/lsl-inductive-step"

    def modules(self):
        return [GMOD, PGM, GM]

    def inputs(self, mk):
        n, n2, m, t = self.params["n"], self.params["n2"], self.params["m"], self.params["t"]
        A = mk.int("a", (2, n, m), lo=0, hi=1, vd="int8")
        B = mk.int("b", (2, n2, m), lo=0, hi=1, vd="int8")
        u = mk.real("u", (m, t))
        beta = mk.real("beta", (1, t))
        # closure: each allele of P' at locus j is present in P at locus j
        for j in range(m):
            pres = [cell(A, h, i, j) for h in range(2) for i in range(n)]
            for h in range(2):
                for i in range(n2):
                    mk.assume(Or(*[cell(B, h, i, j) == c for c in pres]))
        if self.params.get("fixed"):
            for j in range(m):
                pres = [cell(A, h, i, j) for h in range(2) for i in range(n)]
                mk.assume(And(*[c == pres[0] for c in pres[1:]]))
        return dict(A=A, B=B, u=u, beta=beta)

    def call(self, inp, mk):
        n, n2, m, t = self.params["n"], self.params["n2"], self.params["m"], self.params["t"]
        unscale = bool(self.params.get("unscale", False))
        mod = _model(inp["beta"], inp["u"], t)
        out = {}
        for tag, G in (("P", inp["A"]), ("Q", inp["B"])):
            g = _mk_gmat("phased", G.copy())
            out["usl" + tag] = mod.usl(g, unscale=unscale)
            out["lsl" + tag] = mod.lsl(g, unscale=unscale)
            Z = g.mat_asformat("{0,1,2}")
            gv = mod.gebv_numpy(Z)
            if unscale:
                gv = gv + inp["beta"][0][None, :]
            out["gebv" + tag] = gv
            if self.params.get("unphased_too"):
                gu = _mk_gmat("unphased", Z)
                out["uslU" + tag] = mod.usl(gu, unscale=unscale)
                out["lslU" + tag] = mod.lsl(gu, unscale=unscale)
                out["uslN" + tag] = mod.usl(Z, ploidy=2, unscale=unscale)
                out["lslN" + tag] = mod.lsl(Z, ploidy=2, unscale=unscale)
        return out

    def check(self, P, inp, out):
        n, n2, m, t = self.params["n"], self.params["n2"], self.params["m"], self.params["t"]
        for tr in range(t):
            uP, lP = cell(out["uslP"], tr), cell(out["lslP"], tr)
            uQ, lQ = cell(out["uslQ"], tr), cell(out["lslQ"], tr)
            P.prove(P.le(lP, uP), "lsl<=usl")
            for tag, cnt in (("P", n), ("Q", n2)):
                for i in range(cnt):
                    g = cell(out["gebv" + tag], i, tr)
                    P.prove(And(P.le(lP, g), P.le(g, uP)), "limits-of-P-bracket-gebv-of-" + ("members" if tag == "P" else "descendants"))
            P.prove(P.le(uQ, uP), "upper-limit-never-increases")
            P.prove(P.le(lP, lQ), "lower-limit-never-decreases")
            if self.params.get("fixed"):
                g0 = cell(out["gebvP"], 0, tr)
                P.prove(And(P.eq(uP, g0), P.eq(lP, g0)), "all-fixed=>lsl=usl=common-value")
            if self.params.get("unphased_too"):
                for tag in ("P", "Q"):
                    for k in ("usl", "lsl"):
                        ref = cell(out[k + tag], tr)
                        P.prove(P.eq(cell(out[k + "U" + tag], tr), ref), "unphased-matrix-gives-same-limit")
                        P.prove(P.eq(cell(out[k + "N" + tag], tr), ref), "raw-dosage-array-gives-same-limit")
        # independent definition of the limits: ploidy * sum of effects of alleles that can/must be carried
        A = inp["A"]
        for tr in range(t):
            up, lo = 0.0, 0.0
            for j in range(m):
                pres = [cell(A, h, i, j) for h in range(2) for i in range(n)]
                has1 = Or(*[c == 1 for c in pres])
                has0 = Or(*[c == 0 for c in pres])
                u = cell(inp["u"], j, tr)
                # best/worst attainable dosage contribution at this locus
                hi = Ite(And(has1, has0), Ite(u > 0, 2 * u, 0.0), Ite(has1, 2 * u, 0.0))
                lw = Ite(And(has1, has0), Ite(u > 0, 0.0, 2 * u), Ite(has1, 2 * u, 0.0))
                up = up + hi
                lo = lo + lw
            if self.params.get("unscale"):
                up = up + cell(inp["beta"], 0, tr)
                lo = lo + cell(inp["beta"], 0, tr)
            P.prove(P.eq(cell(out["uslP"], tr), up), "usl=definition")
            P.prove(P.eq(cell(out["lslP"], tr), lo), "lsl=definition")


class SameObject(Harness):
    """limits are a function of the object's current content: query, change the population in place, query again"""
    name = "limits-after-in-place-change"

    def modules(self):
        return [GMOD, PGM, GM]

    def inputs(self, mk):
        n, m, t = self.params["n"], self.params["m"], self.params["t"]
        return dict(A=mk.int("a", (2, n, m), lo=0, hi=1, vd="int8"), E=mk.int("e", (2, 1, m), lo=0, hi=1, vd="int8"), u=mk.real("u", (m, t)), beta=mk.real("beta", (1, t)))

    def _obs(self, mod, g):
        return dict(usl=mod.usl(g), lsl=mod.lsl(g), afreq=g.afreq(), acount=g.acount(), apoly=g.apoly())

    def call(self, inp, mk):
        n, m, t = self.params["n"], self.params["m"], self.params["t"]
        mod = _model(inp["beta"], inp["u"], t)
        g = _mk_gmat("phased", inp["A"].copy())
        first = self._obs(mod, g)
        op = self.params["op"]
        if op == "remove":
            g.remove_taxa(self.params["idx"])
        elif op == "append":
            g.append_taxa(inp["E"].copy(), taxa=numpy.array(["new"], dtype=object), taxa_grp=numpy.array([9]))
        elif op == "incorp":
            g.incorp_taxa(0, inp["E"].copy(), taxa=numpy.array(["new"], dtype=object), taxa_grp=numpy.array([9]))
        elif op == "setmat":
            g.mat = numpy.concatenate([inp["A"][:, 1:, :], inp["E"]], axis=1) if n > 1 else inp["E"].copy()
        after = self._obs(mod, g)
        fresh = self._obs(mod, _mk_gmat("phased", g.mat.copy()))
        return dict(first=first, after=after, fresh=fresh)

    def check(self, P, inp, out):
        t, op = self.params["t"], self.params["op"]
        for k in ("usl", "lsl", "afreq", "acount", "apoly"):
            a, f = out["after"][k], out["fresh"][k]
            P.prove(tuple(a.shape) == tuple(f.shape), "same-shape:" + k)
            for x, y in zip(cells(a), cells(f)):
                P.prove(P.eq(x, y), "after-an-in-place-change-%s-equals-that-of-a-fresh-object-with-the-same-content" % k)
        if op == "remove":
            for tr in range(t):
                P.prove(P.le(cell(out["after"]["usl"], tr), cell(out["first"]["usl"], tr)), "culling-never-raises-the-upper-limit")
                P.prove(P.le(cell(out["first"]["lsl"], tr), cell(out["after"]["lsl"], tr)), "culling-never-lowers-the-lower-limit")


class Polyploid(Harness):
    """unphased panel of ploidy k: limits of a sub-selection bracket its members, tighten, and equal those of a fresh panel"""
    name = "limits-polyploid-subselection"

    def modules(self):
        return [GMOD, PGM, GM]

    def inputs(self, mk):
        n, m, t, k = self.params["n"], self.params["m"], self.params["t"], self.params["ploidy"]
        return dict(Z=mk.int("z", (n, m), lo=0, hi=k, vd="int8"), u=mk.real("u", (m, t)), beta=mk.real("beta", (1, t)))

    def call(self, inp, mk):
        n, m, t, k = self.params["n"], self.params["m"], self.params["t"], self.params["ploidy"]
        mod = _model(inp["beta"], inp["u"], t)
        g = _mk_gmat("unphased", inp["Z"].copy(), ploidy=k)
        sel = g.select_taxa(self.params["sel"])
        fresh = _mk_gmat("unphased", inp["Z"][numpy.array(self.params["sel"])].copy(), ploidy=k)
        return dict(uslP=mod.usl(g), lslP=mod.lsl(g), uslS=mod.usl(sel), lslS=mod.lsl(sel), uslF=mod.usl(fresh), lslF=mod.lsl(fresh),
                    gebv=mod.gebv_numpy(inp["Z"]), ploidy_sel=sel.ploidy, afreqS=sel.afreq(), afreqF=fresh.afreq())

    def check(self, P, inp, out):
        n, m, t, k = self.params["n"], self.params["m"], self.params["t"], self.params["ploidy"]
        P.prove(int(out["ploidy_sel"]) == k, "sub-selection-keeps-the-ploidy", detail="%s" % out["ploidy_sel"])
        for x, y in zip(cells(out["afreqS"]), cells(out["afreqF"])):
            P.prove(P.eq(x, y), "sub-selection-frequencies=fresh-panel")
        Z = inp["Z"]
        for tr in range(t):
            uP, lP, uS, lS = (cell(out[q], tr) for q in ("uslP", "lslP", "uslS", "lslS"))
            P.prove(And(P.eq(uS, cell(out["uslF"], tr)), P.eq(lS, cell(out["lslF"], tr))), "sub-selection-limits=fresh-panel-limits")
            P.prove(And(P.le(uS, uP), P.le(lP, lS)), "limits-of-a-sub-selection-are-tighter")
            for i in range(n):
                P.prove(And(P.le(lP, cell(out["gebv"], i, tr)), P.le(cell(out["gebv"], i, tr), uP)), "limits-bracket-members")
            up, lo = 0.0, 0.0
            for j in range(m):
                pres1 = Or(*[cell(Z, i, j) > 0 for i in range(n)])
                pres0 = Or(*[cell(Z, i, j) < k for i in range(n)])
                u = cell(inp["u"], j, tr)
                up = up + Ite(And(pres1, pres0), Ite(u > 0, k * u, 0.0), Ite(pres1, k * u, 0.0))
                lo = lo + Ite(And(pres1, pres0), Ite(u > 0, 0.0, k * u), Ite(pres1, k * u, 0.0))
            P.prove(P.eq(uP, up), "usl=definition(ploidy)")
            P.prove(P.eq(lP, lo), "lsl=definition(ploidy)")


class ThroughMating(Harness):
    """end to end: progeny of a real two-way cross of parents whose variants are stored ungrouped and out of order stay inside the parental limits"""
    name = "limits-bracket-real-progeny"

    def modules(self):
        return [GMOD, PGM, GM, "pybrops.breed.prot.mate.TwoWayCross", "pybrops.breed.prot.mate.util"]

    def inputs(self, mk):
        m, t = self.params["m"], self.params["t"]
        return dict(A=mk.int("a", (2, 2, m), lo=0, hi=1, vd="int8"), u=mk.real("u", (m, t)), beta=mk.real("beta", (1, t)), rng=mk.rng())

    def call(self, inp, mk):
        from pybrops.popgen.gmat.DensePhasedGenotypeMatrix import DensePhasedGenotypeMatrix
        from pybrops.breed.prot.mate.TwoWayCross import TwoWayCross
        m, t = self.params["m"], self.params["t"]
        mod = _model(inp["beta"], inp["u"], t)
        chr_ = numpy.array(self.params["chrgrp"])
        pos = numpy.array(self.params["phypos"])
        pg = DensePhasedGenotypeMatrix(mat=inp["A"].copy(), taxa=numpy.array(["p0", "p1"], dtype=object), taxa_grp=numpy.array([1, 2]), vrnt_chrgrp=chr_, vrnt_phypos=pos,
                                       vrnt_name=numpy.array(["s%d" % j for j in range(m)], dtype=object), vrnt_genpos=pos * 0.01,
                                       vrnt_xoprob=numpy.array([0.5, 0.25, 0.5][:m]))
        if self.params.get("grouped"):
            pg.group_vrnt()
        prog = TwoWayCross(rng=inp["rng"]).mate(pg, numpy.array([[0, 1]]), 1, 1, nself=0)
        return dict(uslP=mod.usl(pg), lslP=mod.lsl(pg), uslQ=mod.usl(prog), lslQ=mod.lsl(prog), gebvQ=mod.gebv(prog).unscale(),
                    names_parent=[str(x) for x in pg.vrnt_name], names_prog=[str(x) for x in prog.vrnt_name])

    def check(self, P, inp, out):
        t = self.params["t"]
        for tr in range(t):
            g = cell(out["gebvQ"], 0, tr) - cell(inp["beta"], 0, tr)
            P.prove(And(P.le(cell(out["lslP"], tr), g), P.le(g, cell(out["uslP"], tr))), "parental-limits-bracket-the-progeny-value")
            P.prove(P.le(cell(out["uslQ"], tr), cell(out["uslP"], tr)), "upper-limit-never-increases-through-mating")
            P.prove(P.le(cell(out["lslP"], tr), cell(out["lslQ"], tr)), "lower-limit-never-decreases-through-mating")


class LimitsFP:
    """fp64: the comparators p > 0.0 / p >= 1.0 of usl_numpy/lsl_numpy applied to the frequency expressions feeding them
    (GenotypeMatrix.afreq and the ndarray branch of usl/lsl) agree with the count predicates for every n <= nmax"""
    weight = 1000

    def __init__(self, source, nmax, timeout_s=900):
        self.source, self.nmax, self.timeout_s = source, nmax, timeout_s
        self.active_known = set()

    def modules(self):
        return [GMOD, PGM, GM]

    def describe(self):
        return "fp64:usl/lsl-comparators{p from %s, n<=%d}" % (self.source, self.nmax)

    def encode(self):
        from pybrops.model.gmod.DenseAdditiveLinearGenomicModel import DenseAdditiveLinearGenomicModel as M
        n = z3.BitVec("n", BVW)
        c = z3.BitVec("count", BVW)
        u = z3.FP("u", F64)
        two = Iv(z3.BitVecVal(2, BVW))
        if self.source in ("phased", "unphased"):
            if self.source == "phased":
                from pybrops.popgen.gmat.DensePhasedGenotypeMatrix import DensePhasedGenotypeMatrix as C
            else:
                from pybrops.popgen.gmat.DenseGenotypeMatrix import DenseGenotypeMatrix as C

            def hook(node, key):
                if isinstance(node, ast.Call) and isinstance(node.func, ast.Attribute) and node.func.attr == "sum" \
                        and ast.unparse(node.func.value) in ("self._mat", "self.mat"):
                    return Iv(c)
                return None
            p = Kernel(C.afreq, call_env={"self.ploidy": two, "self.ntaxa": Iv(n), "self._ploidy": two},
                       consts=dict(dtype=None), hook=hook).run()
        else:
            # the ndarray branch of usl()/lsl(): take the frequency expression from the source of usl
            cap = {}

            def hook(node, key):
                if isinstance(node, ast.Call):
                    f = ast.unparse(node.func)
                    if f == "isinstance":
                        return Bv(z3.BoolVal(ast.unparse(node.args[1]).endswith("ndarray")))
                    if f in ("self.usl_numpy", "self.lsl_numpy"):
                        cap["p"] = k.env["p"]
                        return FPv(z3.FPVal(0.0, F64))
                    if f == "gtobj.sum":
                        return Iv(c)
                if key == "gtobj.shape[0]":
                    return Iv(n)
                return None
            k = Kernel(getattr(M, self.source.split(":")[1]), env=dict(ploidy=two), consts=dict(unscale=False), hook=hook)
            k.run()
            p = cap["p"]
        outs = {}
        for fn in ("usl_numpy", "lsl_numpy"):
            def hook2(node, key):
                if isinstance(node, ast.Subscript) and ast.unparse(node.value) == "p":
                    return p
                if key == "self.u_a":
                    return FPv(u)
                if isinstance(node, ast.Call) and isinstance(node.func, ast.Attribute) and node.func.attr == "sum":
                    return kk.ev(node.func.value)
                return None
            kk = Kernel(getattr(M, fn), env=dict(p=p, ploidy=two), consts=dict(unscale=False), hook=hook2)
            kk.run()
            incl = kk.env["uslgeno" if fn == "usl_numpy" else "lslgeno"]
            outs[fn] = (incl, kk.result)
        return n, c, u, p, outs

    def run(self, tier):
        t0 = time.time()
        res = dict(name=self.describe(), status="ok", message="", paths=1, validated=0, labels={}, functions=[],
                   stats=dict(decisions=1, prove_queries=0, prove_unsat=0, prove_sat=0, prove_unknown=0, branch_queries=0, solver_s=0.0),
                   sample=None, reached_assertions=1)
        try:
            compat.load(*self.modules())
            n, c, u, p, outs = self.encode()
            res["functions"] = ["pybrops/model/gmod/DenseAdditiveLinearGenomicModel.py:usl_numpy/lsl_numpy (fp64 AST translation)",
                                "frequency expression from %s (fp64 AST translation)" % self.source]
            zero = z3.FPVal(0.0, F64)
            full = 2 * n
            upos = z3.fpGT(u, zero)
            # usl includes the locus iff the allele that raises the value can still be carried
            usl_ref = z3.If(upos, c != 0, c == full)
            lsl_ref = z3.If(upos, c == full, c != 0)
            dom = [z3.ULE(1, n), z3.ULE(n, self.nmax), z3.ULE(c, full), z3.Not(z3.fpIsNaN(u)), z3.Not(z3.fpIsInf(u)),
                   z3.fpLEQ(z3.fpAbs(u), z3.FPVal(1e150, F64))]
            r0, m0, _ = fpkernel.solve(dom, 60)
            if r0 != "sat":
                raise RuntimeError("vacuous domain")
            twou = z3.fpMul(fpkernel.RNE, z3.FPVal(2.0, F64), u)
            def differs(val, ref_incl):
                return z3.Not(z3.fpEQ(fpkernel.to_fp(val), z3.If(ref_incl, twou, zero)))
            for label, b in (("usl contribution of a locus = ploidy*u iff favourable allele present / unfavourable allele fixed", differs(outs["usl_numpy"][1], usl_ref)),
                             ("lsl contribution of a locus = ploidy*u iff favourable allele fixed / unfavourable allele present", differs(outs["lsl_numpy"][1], lsl_ref))):
                res["labels"][label] = 1
                r, mdl, dt = fpkernel.solve(dom + [b], self.timeout_s)
                res["stats"]["prove_queries"] += 1
                res["stats"]["solver_s"] += dt
                if r == "unsat":
                    res["stats"]["prove_unsat"] += 1
                    continue
                if r == "sat":
                    res["stats"]["prove_sat"] += 1
                    vals = dict(n=mdl.eval(n, True).as_long(), count=mdl.eval(c, True).as_long(),
                                u=_fp_value(mdl.eval(u, True)), source=self.source)
                    ok, info = replay_limits(vals)
                    res.update(cex=vals, message=label, replay_info=info, status="violation" if ok else "unconfirmed")
                    break
                res["stats"]["prove_unknown"] += 1
                res.update(status="inconclusive", message="solver %s on %s" % (r, label))
                break
            if res["status"] == "ok":
                res["sample"] = dict(inputs=dict(domain="n in [1,%d], count in [0,2n], u any finite double" % self.nmax))
                nv = 0
                for (nn, cc, uu) in [(1, 0, 1.0), (1, 2, -1.0), (49, 98, -0.5), (49, 98, 0.5), (50, 1, 2.0), (3, 0, -1.0)]:
                    if nn > self.nmax:
                        continue
                    ok, info = replay_limits(dict(n=nn, count=cc, u=uu, source=self.source))
                    if ok:
                        raise RuntimeError("real code violates the comparator predicate at n=%d count=%d: %s" % (nn, cc, info))
                    nv += 1
                res["validated"] = nv
        except fpkernel.KernelUnsupported as ex:
            res.update(status="error", message="fp64 translator: %s" % ex)
        except Exception as ex:
            res.update(status="error", message="%s\n%s" % (ex, traceback.format_exc(limit=6)))
        res["wall_s"] = round(time.time() - t0, 2)
        return res


class ComparatorFP:
    """fp64: for an ARBITRARY double p in [0,1] the per-locus contribution computed by usl_numpy / lsl_numpy is
    ploidy*u exactly when (u>0 ? p != 0 : p == 1) (resp. the mirrored predicate) -- composes with the afreq lemma of C09"""
    weight = 500

    def __init__(self, timeout_s=600):
        self.timeout_s = timeout_s
        self.active_known = set()

    def modules(self):
        return [GMOD]

    def describe(self):
        return "fp64:usl_numpy/lsl_numpy-comparators{p any double in [0,1]}"

    def run(self, tier):
        t0 = time.time()
        res = dict(name=self.describe(), status="ok", message="", paths=1, validated=0, labels={}, functions=[],
                   stats=dict(decisions=1, prove_queries=0, prove_unsat=0, prove_sat=0, prove_unknown=0, branch_queries=0, solver_s=0.0),
                   sample=None, reached_assertions=1)
        try:
            compat.load(*self.modules())
            from pybrops.model.gmod.DenseAdditiveLinearGenomicModel import DenseAdditiveLinearGenomicModel as M
            pf = z3.FP("p", F64)
            u = z3.FP("u", F64)
            two = Iv(z3.BitVecVal(2, BVW))
            zero, one = z3.FPVal(0.0, F64), z3.FPVal(1.0, F64)
            dom = [z3.fpGEQ(pf, zero), z3.fpLEQ(pf, one), z3.Not(z3.fpIsNaN(u)), z3.fpLEQ(z3.fpAbs(u), z3.FPVal(1e150, F64))]
            twou = z3.fpMul(fpkernel.RNE, z3.FPVal(2.0, F64), u)
            upos = z3.fpGT(u, zero)
            refs = dict(usl_numpy=z3.If(upos, z3.Not(z3.fpEQ(pf, zero)), z3.fpEQ(pf, one)),
                        lsl_numpy=z3.If(upos, z3.fpEQ(pf, one), z3.Not(z3.fpEQ(pf, zero))))
            res["functions"] = ["pybrops/model/gmod/DenseAdditiveLinearGenomicModel.py:%s (fp64 AST translation)" % f for f in refs]
            for fn, ref in refs.items():
                def hook2(node, key):
                    if isinstance(node, ast.Subscript) and ast.unparse(node.value) == "p":
                        return FPv(pf)
                    if key == "self.u_a":
                        return FPv(u)
                    if isinstance(node, ast.Call) and isinstance(node.func, ast.Attribute) and node.func.attr == "sum":
                        return kk.ev(node.func.value)
                    return None
                kk = Kernel(getattr(M, fn), env=dict(p=FPv(pf), ploidy=two), consts=dict(unscale=False), hook=hook2)
                kk.run()
                label = "%s contribution = ploidy*u iff its count-level predicate on p" % fn
                res["labels"][label] = 1
                b = z3.Not(z3.fpEQ(fpkernel.to_fp(kk.result), z3.If(ref, twou, zero)))
                r, mdl, dt = fpkernel.solve(dom + [b], self.timeout_s)
                res["stats"]["prove_queries"] += 1
                res["stats"]["solver_s"] += dt
                if r == "unsat":
                    res["stats"]["prove_unsat"] += 1
                    continue
                if r == "sat":
                    res["stats"]["prove_sat"] += 1
                    vals = dict(p=_fp_value(mdl.eval(pf, True)), u=_fp_value(mdl.eval(u, True)), fn=fn)
                    ok, info = replay_comparator(vals)
                    res.update(cex=vals, message=label, replay_info=info, status="violation" if ok else "unconfirmed")
                    break
                res["stats"]["prove_unknown"] += 1
                res.update(status="inconclusive", message="solver %s on %s" % (r, label))
                break
            if res["status"] == "ok":
                res["sample"] = dict(inputs=dict(domain="p any double in [0,1], |u| <= 1e150"))
                nv = 0
                for pv, uv in [(0.0, 1.0), (1.0, -1.0), (0.9999999999999999, -1.0), (5e-324, 1.0), (0.5, 0.0)]:
                    for fn in refs:
                        ok, info = replay_comparator(dict(p=pv, u=uv, fn=fn))
                        if ok:
                            raise RuntimeError("real code disagrees with the predicate: %s" % info)
                        nv += 1
                res["validated"] = nv
        except fpkernel.KernelUnsupported as ex:
            res.update(status="error", message="fp64 translator: %s" % ex)
        except Exception as ex:
            res.update(status="error", message="%s\n%s" % (ex, traceback.format_exc(limit=6)))
        res["wall_s"] = round(time.time() - t0, 2)
        return res


def replay_comparator(vals):
    p, u, fn = float(vals["p"]), float(vals["u"]), vals["fn"]
    compat.load(GMOD)
    compat.symbolic_mode(False)
    mod = _model(numpy.zeros((1, 1)), numpy.array([[u]], dtype=float), 1)
    got = float(getattr(mod, fn)(numpy.array([p]), 2)[0])
    if fn == "usl_numpy":
        incl = (p != 0.0) if u > 0 else (p == 1.0)
    else:
        incl = (p == 1.0) if u > 0 else (p != 0.0)
    exp = 2 * u if incl else 0.0
    return (got != exp), "real %s(p=%r, u=%r) = %r, expected %r" % (fn, p, u, got, exp)


def replay_limits(vals):
    """real model + real one-locus population with the given allele count"""
    n, c, u, source = vals["n"], vals["count"], float(vals["u"]), vals["source"]
    compat.load(GMOD, PGM, GM)
    compat.symbolic_mode(False)
    mod = _model(numpy.zeros((1, 1)), numpy.array([[u]], dtype=float), 1)
    if source == "phased":
        flat = numpy.zeros(2 * n, dtype="int8")
        flat[:c] = 1
        g = _mk_gmat("phased", flat.reshape(n, 2, 1).transpose(1, 0, 2).copy())
    else:
        mat = numpy.zeros((n, 1), dtype="int8")
        full, rem = divmod(c, 2)
        mat[:full, 0] = 2
        if rem:
            mat[full, 0] = 1
        g = _mk_gmat("unphased", mat) if source == "unphased" else mat
    usl = float(mod.usl(g, ploidy=2)[0]) if not hasattr(g, "afreq") else float(mod.usl(g)[0])
    lsl = float(mod.lsl(g, ploidy=2)[0]) if not hasattr(g, "afreq") else float(mod.lsl(g)[0])
    # exact reference by counting
    if u > 0:
        ru, rl = (2 * u if c != 0 else 0.0), (2 * u if c == 2 * n else 0.0)
    else:
        ru, rl = (2 * u if c == 2 * n else 0.0), (2 * u if c != 0 else 0.0)
    bad = (usl != ru) or (lsl != rl)
    return bad, "real model on n=%d, count=%d, u=%r (%s): usl=%r (expected %r), lsl=%r (expected %r)" % (n, c, u, source, usl, ru, lsl, rl)


LimitsFP.replay = lambda self, vals: replay_limits(vals)
ComparatorFP.replay = lambda self, vals: replay_comparator(vals)


def obligations(tier):
    obs = []
    if tier == "quick":
        cfg = [(1, 1, 1, 1, {}), (2, 1, 1, 1, {}), (2, 2, 2, 1, {}), (2, 2, 1, 2, {"unscale": True}), (2, 1, 2, 1, {"fixed": True}),
               (1, 2, 2, 1, {"unphased_too": True})]
    else:
        cfg = [(1, 1, 1, 1, {}), (2, 1, 1, 1, {}), (2, 2, 2, 1, {}), (2, 2, 1, 2, {"unscale": True}), (2, 1, 2, 1, {"fixed": True}),
               (1, 2, 2, 1, {"unphased_too": True}), (3, 2, 2, 1, {}), (2, 3, 2, 1, {}), (3, 3, 1, 2, {"unscale": True}), (2, 2, 3, 1, {}),
               (3, 2, 2, 2, {"fixed": True, "unscale": True}), (2, 2, 2, 2, {"unphased_too": True})]
    for n, n2, m, t, extra in cfg:
        h = LimitsStep(n=n, n2=n2, m=m, t=t, **extra)
        h.weight = 4 ** ((n + n2) * m)
        obs.append(h)
    ops = [dict(n=2, m=2, t=1, op="remove", idx=[0]), dict(n=2, m=1, t=1, op="append"), dict(n=2, m=1, t=1, op="setmat")]
    if tier == "thorough":
        ops += [dict(n=3, m=2, t=1, op="remove", idx=[0, 2]), dict(n=2, m=2, t=2, op="incorp"), dict(n=2, m=2, t=1, op="append"), dict(n=3, m=1, t=1, op="remove", idx=[1])]
    for o in ops:
        obs.append(SameObject(**o))
    poly = [dict(n=2, m=1, t=1, ploidy=4, sel=[1]), dict(n=2, m=2, t=1, ploidy=3, sel=[0])]
    if tier == "thorough":
        poly += [dict(n=3, m=1, t=1, ploidy=4, sel=[0, 2]), dict(n=2, m=2, t=2, ploidy=4, sel=[1, 0]), dict(n=2, m=1, t=1, ploidy=1, sel=[0])]
    for o in poly:
        obs.append(Polyploid(**o))
    tm = [dict(m=2, t=1, chrgrp=[2, 1], phypos=[5, 7]), dict(m=2, t=1, chrgrp=[1, 1], phypos=[9, 3])]
    if tier == "thorough":
        tm += [dict(m=3, t=1, chrgrp=[2, 1, 2], phypos=[5, 7, 1]), dict(m=2, t=2, chrgrp=[1, 2], phypos=[5, 7], grouped=True)]
    for o in tm:
        obs.append(ThroughMating(**o))
    nmax = 64 if tier == "quick" else 256
    for src in ("phased", "unphased", "ndarray:usl", "ndarray:lsl"):
        obs.append(LimitsFP(src, nmax))
    obs.append(ComparatorFP())
    return obs


def replay_known(f):
    raise NotImplementedError
