"""C05 Selection objectives mean what they say in every decision encoding"""
import importlib
import itertools

import numpy

from ..harness import Harness, And, Or, Not, Implies, Ite, cells, cell, is_nan
from .. import sym, symnp, compat
from ..sym import SV

PROPERTY = "C05"
ASSUMPTIONS = [
    "criterion data (breeding-value tables, kinship factors, haplotype/usefulness/EMBV tables, family indices) and weights are arbitrary reals; decision vectors range over the declared decision space: subsets of distinct candidates (enumerated), integer counts in [0,3], binary indicators, real contributions in [0,1], with contribution sum >= 1e-10 (the library's own guard) so that the contribution vector is defined",
    "numpy.sqrt inside numpy.linalg.norm by contract; numpy.linalg.cholesky by contract (lower-triangular L, positive diagonal, L.L' = K) with the kinship assumed positive definite (eigvals stub: no jitter)",
]
STUBS = ["numpy.sqrt (contract)", "numpy.linalg.cholesky (contract)", "numpy.linalg.eigvals inside apply_jitter (positive definite by assumption)"]
BOUNDS = {"quick": dict(candidates="<=3", subset_size="<=2", traits="<=2", families="13 criterion families x 4 encodings"),
          "thorough": dict(candidates="<=4", subset_size="<=3", traits="<=2")}
OUTSIDE = ["L1-norm, allele-frequency-distance/unavailability, multi-objective-genomic, optimal-population-value and genotype-builder latent functions (not encoded in this version)",
           "EMBV/UC/OHV tables are taken as given data here (their construction is C12/C18)", "candidate sets larger than the bounds"]

PKG = "pybrops.breed.prot.sel.prob."
TRANS = PKG + "trans"

# family -> (module, class-name stem, data spec [(ctor arg, kind)], criterion kind, uses cross map)
FAMILIES = {
    "EBV": ("EstimatedBreedingValueSelectionProblem", "EstimatedBreedingValue", [("ebv", "table")], "mean", False),
    "GEBV": ("GenomicEstimatedBreedingValueSelectionProblem", "GenomicEstimatedBreedingValue", [("gebv", "table")], "mean", False),
    "WGEBV": ("WeightedGenomicSelectionProblem", "WeightedGenomic", [("wgebv", "table")], "mean", False),
    "GWGEBV": ("GeneralizedWeightedGenomicEstimatedBreedingValueSelectionProblem", "GeneralizedWeightedGenomicEstimatedBreedingValue", [("gwgebv", "table")], "mean", False),
    "EMBV": ("ExpectedMaximumBreedingValueSelectionProblem", "ExpectedMaximumBreedingValue", [("embv", "table")], "mean", True),
    "RANDOM": ("RandomSelectionProblem", "Random", [("rbv", "table")], "mean", False),
    "OHV": ("OptimalHaploidValueSelectionProblem", "OptimalHaploidValue", [("ohvmat", "table")], "mean", True),
    "UC": ("UsefulnessCriterionSelectionProblem", "UsefulnessCriterion", [("ucmat", "table")], "mean", True),
    "FAMILY": ("FamilyEstimatedBreedingValueSelectionProblem", "FamilyEstimatedBreedingValue", [("ebv", "table"), ("familyid", "family")], "family", False),
    "OCS": ("OptimalContributionSelectionProblem", "OptimalContribution", [("ebv", "table"), ("C", "factor")], "ocs", False),
    "MGR": ("MeanGenomicRelationshipSelectionProblem", "MeanGenomicRelationship", [("C", "factor")], "mgr", False),
    "MEH": ("MeanExpectedHeterozygositySelectionProblem", "MeanExpectedHeterozygosity", [("C", "factor")], "meh", False),
    "L2": ("L2NormGenomicSelectionProblem", "L2NormGenomic", [("C", "factor3")], "l2", False),
}
ENC = ["Subset", "Integer", "Binary", "Real"]
MODS = sorted({PKG + v[0] for v in FAMILIES.values()}) + [TRANS, PKG + "SelectionProblem"]


def _cls(fam, enc):
    mod, stem, _, _, mate = FAMILIES[fam]
    name = stem + enc + ("Mate" if fam == "UC" else "") + "SelectionProblem"
    return getattr(importlib.import_module(PKG + mod), name)


def _data(mk, fam, n, t):
    d = {}
    for arg, kind in FAMILIES[fam][2]:
        if kind == "table":
            d[arg] = mk.real(arg, (n, t))
        elif kind == "family":
            d[arg] = numpy.array([0, 1, 0, 1][:n], dtype="int64")
        elif kind in ("factor", "factor3"):
            # upper-triangular kinship factor(s), as the problem classes require
            shp = (n, n) if kind == "factor" else (t, n, n)
            a = mk.real(arg, shp)
            if isinstance(a, symnp.SymArray):
                r = symnp.raw(a)
                for ix in numpy.ndindex(*shp):
                    if ix[-2] > ix[-1]:
                        r[ix] = 0.0
            else:
                for ix in numpy.ndindex(*shp):
                    if ix[-2] > ix[-1]:
                        a[ix] = 0.0
            d[arg] = a
    return d


def _nlatent(fam, n, t, data):
    k = FAMILIES[fam][3]
    if k == "mean":
        return t
    if k == "family":
        return t + len(set(int(v) for v in data["familyid"]))
    if k == "ocs":
        return 1 + t
    if k in ("mgr", "meh"):
        return 1
    return t


def make_problem(fam, enc, data, n, t, ndecn, obj_wt=None, extra=None):
    import pybrops.breed.prot.sel.prob.trans as T
    C = _cls(fam, enc)
    nlat = _nlatent(fam, n, t, data)
    kw = dict(data)
    if FAMILIES[fam][4]:
        kw["decn_space_xmap"] = numpy.array([[i, i] for i in range(n)])
    if enc == "Subset":
        kw.update(ndecn=ndecn, decn_space=numpy.arange(n), decn_space_lower=numpy.repeat(0, ndecn), decn_space_upper=numpy.repeat(n - 1, ndecn))
    else:
        hi = dict(Integer=3, Binary=1, Real=1.0)[enc]
        lo = 0.0 if enc == "Real" else 0
        kw.update(ndecn=n, decn_space=numpy.stack([numpy.repeat(lo, n), numpy.repeat(hi, n)]), decn_space_lower=numpy.repeat(lo, n), decn_space_upper=numpy.repeat(hi, n))
    kw.update(nobj=nlat, obj_wt=(obj_wt if obj_wt is not None else numpy.repeat(1.0, nlat)), obj_trans=T.trans_identity)
    if extra:
        kw.update(extra)
    return C(**kw)


def reference(fam, data, contrib, n, t, sqrt_sq=False):
    """independent definition of the latent vector from the contribution vector c (sums to one).
    norms are returned squared-tagged as ('norm', squared value) so that the caller compares squares"""
    k = FAMILIES[fam][3]
    out = []

    def mean_of(tab):
        return [-sum([contrib[i] * cell(tab, i, tr) for i in range(n)][1:], contrib[0] * cell(tab, 0, tr)) for tr in range(t)]

    def quad(C2):
        # || C c ||^2
        tot = 0.0
        for r in range(n):
            s = 0.0
            for i in range(n):
                s = s + C2(r, i) * contrib[i]
            tot = tot + s * s
        return tot
    if k == "mean":
        return [("val", v) for v in mean_of(data[FAMILIES[fam][2][0][0]])]
    if k == "family":
        fam_ids = [int(v) for v in data["familyid"]]
        uniq = sorted(set(fam_ids))
        res = [("val", v) for v in mean_of(data["ebv"])]
        for f in uniq:
            s = 0.0
            for i in range(n):
                if fam_ids[i] == f:
                    s = s + contrib[i]
            res.append(("val", -s))
        return res
    if k == "ocs":
        return [("norm", quad(lambda r, i: cell(data["C"], r, i)))] + [("val", v) for v in mean_of(data["ebv"])]
    if k == "mgr":
        return [("norm", quad(lambda r, i: cell(data["C"], r, i)))]
    if k == "meh":
        return [("negoneminusnorm", quad(lambda r, i: cell(data["C"], r, i)))]
    if k == "l2":
        return [("norm", quad(lambda r, i, tr=tr: cell(data["C"], tr, r, i))) for tr in range(t)]
    raise KeyError(k)


def _sq(v):
    """square of a cell; for a symbolic sqrt result (possibly wrapped in linear arithmetic that simplifies away) its radicand"""
    if isinstance(v, SV):
        import z3
        return sym.square_of(SV(z3.simplify(v.e)))
    return v * v


def same_latent(P, fam, x, y):
    """equality of two latent cells; norm-valued cells are compared through their squares (both are non-negative)"""
    k = FAMILIES[fam][3]
    if P.concrete or not (isinstance(x, SV) and isinstance(y, SV)):
        return P.eq(x, y, 1e-6)
    if k in ("mgr", "l2", "ocs"):
        return P.eq(_sq(x), _sq(y))
    if k == "meh":
        return P.eq(_sq(1.0 + x), _sq(1.0 + y))
    return P.eq(x, y)


def compare(P, got, ref, label):
    g = list(cells(got))
    P.prove(len(g) == len(ref), label + ":latent-length", detail="%d vs %d" % (len(g), len(ref)))
    if len(g) != len(ref):
        return
    for x, (kind, r) in zip(g, ref):
        if kind == "val":
            P.prove(P.eq(x, r), label + ":latent=criterion-definition")
        elif kind == "norm":
            P.prove(And(x >= 0, P.eq(sym.square_of(x) if not P.concrete else x * x, r, 1e-7)), label + ":latent=sqrt(c'Kc)")
        else:
            y = 1.0 + x          # x = -(1 - norm)
            P.prove(And(y >= 0, P.eq(sym.square_of(y) if (not P.concrete and isinstance(y, SV)) else y * y, r, 1e-7)) if P.concrete else And(y >= 0, y * y == r),
                    label + ":latent=-(1-sqrt(c'Kc))")


class Latent(Harness):
    """latent vector of every encoding equals the criterion's definition; encodings agree; order/rescaling invariance"""
    name = "latent-objective"
    tol = 1e-7

    def modules(self):
        return MODS

    def inputs(self, mk):
        fam, n, t = self.params["fam"], self.params["n"], self.params["t"]
        d = _data(mk, fam, n, t)
        inp = dict(data=d)
        inp["xi"] = mk.int("xi", (n,), lo=0, hi=3)
        inp["xb"] = mk.int("xb", (n,), lo=0, hi=1)
        inp["xr"] = mk.real("xr", (n,), lo=0, hi=1)
        # positive rescaling factor: symbolic for the linear criteria, the concrete factor 3 for the norm-valued ones
        # (a symbolic factor inside the quadratic forms made the n=3 identities time out)
        inp["lam"] = mk.real("lam", (), lo=0.25, hi=4) if FAMILIES[fam][3] in ("mean", "family") else 3.0
        si = sum(cells(inp["xi"])[1:], cells(inp["xi"])[0])
        sb = sum(cells(inp["xb"])[1:], cells(inp["xb"])[0])
        sr = sum(cells(inp["xr"])[1:], cells(inp["xr"])[0])
        mk.assume(si >= 1)
        mk.assume(sb >= 1)
        mk.assume(sr >= 1e-3)
        return inp

    def call(self, inp, mk):
        fam, n, t = self.params["fam"], self.params["n"], self.params["t"]
        S = list(self.params["subset"])
        d = inp["data"]
        out = {}
        before = {k: list(cells(inp[k])) for k in ("xi", "xb", "xr")}
        ps = make_problem(fam, "Subset", d, n, t, len(S))
        out["sub"] = ps.latentfn(numpy.array(S))
        out["sub_perm"] = ps.latentfn(numpy.array(S[::-1]))
        counts = numpy.array([S.count(i) for i in range(n)])
        pi = make_problem(fam, "Integer", d, n, t, n)
        out["int_of_S"] = pi.latentfn(counts)
        out["int"] = pi.latentfn(inp["xi"])
        pb = make_problem(fam, "Binary", d, n, t, n)
        out["bin_of_S"] = pb.latentfn((counts > 0).astype(int))
        out["bin"] = pb.latentfn(inp["xb"])
        pr = make_problem(fam, "Real", d, n, t, n)
        out["real_of_S"] = pr.latentfn(counts / float(len(S)))
        out["real"] = pr.latentfn(inp["xr"])
        out["real_scaled"] = pr.latentfn(inp["xr"] * inp["lam"])

        def same(a, b):
            if isinstance(a, SV) and isinstance(b, SV):
                return a.e.eq(b.e)
            return (not isinstance(a, SV)) and (not isinstance(b, SV)) and a == b
        out["x_unchanged"] = {k: all(same(a, b) for a, b in zip(before[k], cells(inp[k]))) for k in before}
        out["x_before"] = before
        return out

    def check(self, P, inp, out):
        fam, n, t = self.params["fam"], self.params["n"], self.params["t"]
        S = list(self.params["subset"])
        d = inp["data"]
        cS = [S.count(i) / float(len(S)) for i in range(n)]
        compare(P, out["sub"], reference(fam, d, cS, n, t), "subset")
        for a in ("sub_perm", "int_of_S", "bin_of_S", "real_of_S"):
            for pos, (x, y) in enumerate(zip(cells(out[a]), cells(out["sub"]))):
                P.prove(same_latent(P, fam, x, y) if not (fam == "OCS" and pos > 0) else P.eq(x, y), "encodings-of-the-same-contributions-agree:" + a)
        for k, ok in out["x_unchanged"].items():
            P.prove(ok, "evaluating-the-latent-function-leaves-the-decision-vector-untouched", detail=k)
        for key, xs in (("int", out["x_before"]["xi"]), ("bin", out["x_before"]["xb"]), ("real", out["x_before"]["xr"])):
            tot = sum(xs[1:], xs[0])
            c = [sym.sv_div_nofork(x, tot) if isinstance(tot, SV) or isinstance(x, SV) else x / float(tot) for x in xs]
            compare(P, out[key], reference(fam, d, c, n, t), key)
        for pos, (x, y) in enumerate(zip(cells(out["real_scaled"]), cells(out["real"]))):
            P.prove(same_latent(P, fam, x, y) if not (fam == "OCS" and pos > 0) else P.eq(x, y, 1e-6), "invariant-under-positive-rescaling-of-the-contribution-vector")


class DataReassign(Harness):
    """the latent vector is a function of the data the problem currently holds: construct, replace the data, evaluate"""
    name = "latent-after-data-reassignment"
    tol = 1e-7

    def modules(self):
        return MODS

    def inputs(self, mk):
        fam, n, t = self.params["fam"], self.params["n"], self.params["t"]
        d0 = _data(mk, fam, n, t)
        d1 = {}
        for arg, kind in FAMILIES[fam][2]:
            if kind == "family":
                d1[arg] = d0[arg]
                continue
            a = mk.real(arg + "_new", numpy.shape(d0[arg]))
            if kind in ("factor", "factor3"):
                r = symnp.raw(a) if isinstance(a, symnp.SymArray) else a
                for ix in numpy.ndindex(*r.shape):
                    if ix[-2] > ix[-1]:
                        r[ix] = 0.0
            d1[arg] = a
        return dict(d0=d0, d1=d1, xr=mk.real("xr", (n,), lo=0, hi=1))

    def call(self, inp, mk):
        fam, n, t = self.params["fam"], self.params["n"], self.params["t"]
        mk.assume(sum(cells(inp["xr"])[1:], cells(inp["xr"])[0]) >= 1e-3)
        S = list(self.params["subset"])
        out = {}
        for enc in ("Subset", "Real"):
            p = make_problem(fam, enc, inp["d0"], n, t, len(S) if enc == "Subset" else n)
            x = numpy.array(S) if enc == "Subset" else inp["xr"]
            first = p.latentfn(x)                      # evaluate once before the reassignment (caches must not go stale)
            for arg, kind in FAMILIES[fam][2]:
                if kind != "family":
                    attr = {"wgebv": "gwgebv"}.get(arg, arg)     # the weighted-GEBV classes store their table as gwgebv
                    if not isinstance(getattr(type(p), attr, None), property):
                        raise AssertionError("no data property %s on %s" % (attr, type(p).__name__))
                    setattr(p, attr, inp["d1"][arg])
            out[enc] = p.latentfn(x)
        return out

    def check(self, P, inp, out):
        fam, n, t = self.params["fam"], self.params["n"], self.params["t"]
        S = list(self.params["subset"])
        cS = [S.count(i) / float(len(S)) for i in range(n)]
        compare(P, out["Subset"], reference(fam, inp["d1"], cS, n, t), "subset-after-reassignment")
        xs = cells(inp["xr"])
        tot = sum(xs[1:], xs[0])
        c = [sym.sv_div_nofork(x, tot) if isinstance(tot, SV) or isinstance(x, SV) else x / float(tot) for x in xs]
        compare(P, out["Real"], reference(fam, inp["d1"], c, n, t), "real-after-reassignment")


class EvalFn(Harness):
    """reported objectives / constraint violations = declared weights x declared transformations of the latent vector"""
    name = "evalfn=weights*transformations"

    def modules(self):
        return MODS

    def inputs(self, mk):
        n, t = self.params["n"], self.params["t"]
        return dict(data=_data(mk, "EBV", n, t), ow=mk.real("ow", (1,)), iw=mk.real("iw", (1,)), ew=mk.real("ew", (1,)),
                    lw=mk.real("lw", (t,)), x=mk.real("x", (n,), lo=0, hi=1), s1=mk.real("s1", ()), s2=mk.real("s2", ()))

    def call(self, inp, mk):
        import pybrops.breed.prot.sel.prob.trans as T
        n, t = self.params["n"], self.params["t"]
        mk.assume(sum(cells(inp["x"])[1:], cells(inp["x"])[0]) >= 1e-3)
        extra = dict(nobj=1, obj_wt=inp["ow"], obj_trans=T.trans_dot, obj_trans_kwargs=dict(latentvec_wt=inp["lw"]),
                     nineqcv=1, ineqcv_wt=inp["iw"], ineqcv_trans=T.trans_decnvec_sum_eq, ineqcv_trans_kwargs=dict(decnvec_sum=inp["s1"]),
                     neqcv=1, eqcv_wt=inp["ew"], eqcv_trans=T.trans_decnvec_sum_eq, eqcv_trans_kwargs=dict(decnvec_sum=inp["s2"]))
        p = make_problem("EBV", self.params["enc"], inp["data"], n, t, n, extra=extra)
        x = inp["x"]
        obj, ineq, eq = p.evalfn(x)
        lat = p.latentfn(x)
        res = {}
        p._evaluate(x, res)
        return dict(obj=obj, ineq=ineq, eq=eq, lat=lat, F=res.get("F"), G=res.get("G"), H=res.get("H"))

    def check(self, P, inp, out):
        n, t = self.params["n"], self.params["t"]
        lat = cells(out["lat"])
        dot = sum([cell(inp["lw"], k) * lat[k] for k in range(t)][1:], cell(inp["lw"], 0) * lat[0])
        xs = cells(inp["x"])
        tot = sum(xs[1:], xs[0])

        def absv(v):
            return Ite(v >= 0, v, -v) if isinstance(v, SV) else abs(v)
        P.prove(P.eq(cell(out["obj"], 0), cell(inp["ow"], 0) * dot), "objective=weight*transformation(latent)")
        P.prove(P.eq(cell(out["ineq"], 0), cell(inp["iw"], 0) * absv(tot - inp["s1"])), "inequality-violation=weight*its-own-transformation")
        P.prove(P.eq(cell(out["eq"], 0), cell(inp["ew"], 0) * absv(tot - inp["s2"])), "equality-violation=weight*its-own-transformation")
        for k, key in (("F", "obj"), ("G", "ineq"), ("H", "eq")):
            P.prove(out[k] is not None and P.eq(cell(out[k], 0), cell(out[key], 0)), "pymoo-output-%s=evalfn" % k)


class Factory(Harness):
    """problems built from a population hold that population's data in its taxon order"""
    name = "factory-data"

    def modules(self):
        return MODS + ["pybrops.popgen.bvmat.DenseBreedingValueMatrix", "pybrops.popgen.gmat.DenseGenotypeMatrix", "pybrops.popgen.cmat.fcty.DenseMolecularCoancestryMatrixFactory"]

    def inputs(self, mk):
        n, t = self.params["n"], self.params["t"]
        return dict(raw=mk.real("raw", (n, t)))

    def call(self, inp, mk):
        import pybrops.breed.prot.sel.prob.trans as T
        from pybrops.popgen.bvmat.DenseBreedingValueMatrix import DenseBreedingValueMatrix
        fam, enc, n, t = self.params["fam"], self.params["enc"], self.params["n"], self.params["t"]
        bv = DenseBreedingValueMatrix.from_numpy(inp["raw"].copy(), taxa=numpy.array(["t%d" % i for i in range(n)], dtype=object), taxa_grp=numpy.arange(n))
        C = _cls(fam, enc)
        z, o = (0.0, 1.0) if enc == "Real" else (0, 1)
        common = dict(ndecn=n, decn_space=numpy.arange(n) if enc == "Subset" else numpy.stack([numpy.repeat(z, n), numpy.repeat(o, n)]),
                      decn_space_lower=numpy.repeat(z, n), decn_space_upper=numpy.repeat(n - 1 if enc == "Subset" else o, n), nobj=t)
        p = C.from_bvmat(bv, unscale=self.params["unscale"], **common)
        attr = FAMILIES[fam][2][0][0]
        return dict(tab=getattr(p, attr), bvmat=bv.mat)

    def check(self, P, inp, out):
        n, t = self.params["n"], self.params["t"]
        for i in range(n):
            for tr in range(t):
                want = cell(inp["raw"], i, tr) if self.params["unscale"] else cell(out["bvmat"], i, tr)
                P.prove(P.eq(cell(out["tab"], i, tr), want), "factory-holds-the-population's-values-in-taxon-order")


class CholeskyFactory(Harness):
    """kinship factor C = cholesky(K)' so that ||C c|| = sqrt(c'Kc)"""
    name = "factory-kinship-factor"
    needs_real_run = False

    def modules(self):
        return MODS + ["pybrops.popgen.gmat.DenseGenotypeMatrix", "pybrops.popgen.cmat.fcty.DenseMolecularCoancestryMatrixFactory", "pybrops.popgen.cmat.DenseMolecularCoancestryMatrix"]

    def inputs(self, mk):
        return dict(c=mk.real("c", (2,), lo=0, hi=1))

    def call(self, inp, mk):
        from pybrops.popgen.cmat.fcty.DenseMolecularCoancestryMatrixFactory import DenseMolecularCoancestryMatrixFactory
        from pybrops.popgen.cmat.DenseMolecularCoancestryMatrix import DenseMolecularCoancestryMatrix
        from .C09 import _mk_gmat
        fam = self.params["fam"]
        n = 2
        # symbolic positive definite coancestry handed to the factory through a stub coancestry factory
        K = mk.real("k", (2, 2), lo=-2, hi=2)
        a, b, c = cell(K, 0, 0), cell(K, 0, 1), cell(K, 1, 1)
        mk.assume(And(a > 0, c > 0, a * c - b * b > 0, cell(K, 1, 0) == b))
        g = _mk_gmat("unphased", numpy.array([[0, 1], [2, 1]], dtype="int8"))

        class StubFcty(DenseMolecularCoancestryMatrixFactory):
            def from_gmat(self_, gmat, **kw):
                return DenseMolecularCoancestryMatrix(mat=K.copy(), taxa=gmat.taxa, taxa_grp=gmat.taxa_grp)
        C = _cls(fam, "Real")
        common = dict(ndecn=n, decn_space=numpy.stack([numpy.repeat(0.0, n), numpy.repeat(1.0, n)]), decn_space_lower=numpy.repeat(0.0, n),
                      decn_space_upper=numpy.repeat(1.0, n), nobj=1)
        p = C.from_gmat(g, StubFcty(), **common)
        return dict(C=p.C, K=K)

    def check(self, P, inp, out):
        Cm, K = out["C"], out["K"]
        # C'C must equal the kinship (half the coancestry handed in)
        for i in range(2):
            for j in range(2):
                s = 0.0
                for r in range(2):
                    s = s + cell(Cm, r, i) * cell(Cm, r, j)
                P.prove(P.eq(s, 0.5 * cell(K, i, j)), "C'C=kinship (so that ||Cc||=sqrt(c'Kc))")


class GWFactory(Harness):
    """generalised weighted GEBV problems built from raw arrays: table = Z.(u * w), w = p^-alpha for a favourable-allele frequency p > 0
    and 1 where the favourable allele is absent; identical for the four encodings; inputs untouched"""
    name = "factory-generalised-weights"

    def modules(self):
        return MODS

    def inputs(self, mk):
        n, m, t = self.params["n"], self.params["m"], self.params["t"]
        return dict(Z=mk.real("z", (n, m), lo=0, hi=2), u=mk.real("u", (m, t), lo=-4, hi=4))

    def call(self, inp, mk):
        n, m, t = self.params["n"], self.params["m"], self.params["t"]
        p = numpy.array(self.params["fafreq"], dtype=float).reshape(m, t)
        alpha = self.params["alpha"]
        tabs = {}
        for enc in ENC:
            C = _cls("GWGEBV", enc)
            z, o = (0.0, 1.0) if enc == "Real" else (0, 1)
            common = dict(ndecn=n, decn_space=numpy.arange(n) if enc == "Subset" else numpy.stack([numpy.repeat(z, n), numpy.repeat(o, n)]),
                          decn_space_lower=numpy.repeat(z, n), decn_space_upper=numpy.repeat(n - 1 if enc == "Subset" else o, n), nobj=t)
            pp = p.copy()
            prob = C.from_numpy(inp["Z"], inp["u"], pp, alpha, **common)
            tabs[enc] = prob.gwgebv
            tabs[enc + ":p_unchanged"] = bool(numpy.array_equal(pp, p))
        return tabs

    def check(self, P, inp, out):
        n, m, t = self.params["n"], self.params["m"], self.params["t"]
        p = numpy.array(self.params["fafreq"], dtype=float).reshape(m, t)
        alpha = self.params["alpha"]
        for enc in ENC:
            P.prove(out[enc + ":p_unchanged"], "frequency-argument-untouched")
            for i in range(n):
                for tr in range(t):
                    ref = 0.0
                    for k in range(m):
                        w = float(p[k, tr]) ** (-alpha) if p[k, tr] > 0 else 1.0
                        ref = ref + cell(inp["Z"], i, k) * cell(inp["u"], k, tr) * w
                    P.prove(P.close(cell(out[enc], i, tr), ref), "table=Z.(u*w) with w=p^-alpha (1 where the favourable allele is absent)", detail="%s encoding" % enc)


class L1Factory(Harness):
    """L1-norm genomic selection problems built from raw arrays: latent[t] = sum_p | sum_n c_n * w[p,t] * (f[n,p] - target[p,t]) |
    (distance of the selection's allele frequencies from the target, weighted per marker and trait), identical for the four encodings"""
    name = "factory-l1-norm"
    tol = 1e-7

    def modules(self):
        return MODS + [PKG + "L1NormGenomicSelectionProblem"]

    def inputs(self, mk):
        n, p, t = self.params["n"], self.params["p"], self.params["t"]
        return dict(w=mk.real("w", (p, t), lo=0, hi=4), f=mk.real("f", (n, p), lo=0, hi=1), tg=mk.real("g", (p, t), lo=0, hi=1))

    def call(self, inp, mk):
        n, p, t = self.params["n"], self.params["p"], self.params["t"]
        S = list(self.params["subset"])
        counts = numpy.array([S.count(i) for i in range(n)])
        mod = importlib.import_module(PKG + "L1NormGenomicSelectionProblem")
        out = {}
        for enc in ENC:
            C = getattr(mod, "L1NormGenomic%sSelectionProblem" % enc)
            k = len(S) if enc == "Subset" else n
            z, o = (0.0, 1.0) if enc == "Real" else (0, 1)
            common = dict(ndecn=k, decn_space=numpy.arange(n) if enc == "Subset" else numpy.stack([numpy.repeat(z, n), numpy.repeat(o, n)]),
                          decn_space_lower=numpy.repeat(z, k), decn_space_upper=numpy.repeat(n - 1 if enc == "Subset" else o, k), nobj=t)
            prob = C.from_numpy(inp["w"], inp["f"], inp["tg"], **common)
            x = {"Subset": numpy.array(S), "Integer": counts, "Binary": (counts > 0).astype(int), "Real": counts / float(len(S))}[enc]
            out[enc] = prob.latentfn(x)
        return out

    def check(self, P, inp, out):
        n, p, t = self.params["n"], self.params["p"], self.params["t"]
        S = list(self.params["subset"])
        for enc in ENC:
            if enc == "Binary":
                present = [1.0 if i in S else 0.0 for i in range(n)]
                c = [v / sum(present) for v in present]
            else:
                c = [S.count(i) / float(len(S)) for i in range(n)]
            for tr in range(t):
                tot = 0.0
                for k in range(p):
                    inner = 0.0
                    for i in range(n):
                        inner = inner + c[i] * cell(inp["w"], k, tr) * (cell(inp["f"], i, k) - cell(inp["tg"], k, tr))
                    tot = tot + (Ite(inner >= 0, inner, -inner) if isinstance(inner, SV) else abs(inner))
                P.prove(P.eq(cell(out[enc], tr), tot, 1e-7), "latent=weighted-L1-distance-of-selection-frequencies-from-the-target", detail="%s encoding, trait %d" % (enc, tr))


def obligations(tier):
    obs = []
    obs.append(L1Factory(n=2, p=2, t=2, subset=[1, 0]))
    if tier == "thorough":
        obs.append(L1Factory(n=3, p=2, t=2, subset=[2, 0]))
        obs.append(L1Factory(n=2, p=1, t=1, subset=[0]))
    for fafreq, alpha in ([([0.0, 0.25], 1), ([1.0, 0.0], 0.5)] if tier == "quick" else [([0.0, 0.25], 1), ([1.0, 0.0], 0.5), ([0.0, 0.0], 0), ([0.5, 1.0], 2)]):
        obs.append(GWFactory(n=2, m=2, t=1, fafreq=fafreq, alpha=alpha))
    for fam in FAMILIES:
        for n, t, S in ([(3, 1, [2, 0]), (2, 2, [1])] if tier == "quick" else [(3, 1, [2, 0]), (2, 2, [1]), (3, 2, [0, 1]), (4, 1, [3, 0, 1]), (3, 1, [1, 2])]):
            if FAMILIES[fam][3] in ("ocs", "mgr", "meh", "l2") and (n > 3 or (tier == "quick" and t > 1) or (n == 3 and S != [2, 0])):
                continue      # norm-valued criteria: the rescaling identity times out beyond these sizes
            h = Latent(fam=fam, n=n, t=t, subset=S)
            h.weight = 20 * n * t
            obs.append(h)
    for fam in FAMILIES:
        obs.append(DataReassign(fam=fam, n=2, t=1, subset=[1, 0]))
    for enc in ("Real", "Integer", "Binary"):
        obs.append(EvalFn(enc=enc, n=2, t=2))
    for fam in ("EBV", "GEBV"):
        for enc in (ENC if tier == "thorough" else ["Subset", "Real"]):
            for unscale in (True, False):
                obs.append(Factory(fam=fam, enc=enc, n=2, t=1, unscale=unscale))
    for fam in ("MGR", "MEH"):
        obs.append(CholeskyFactory(fam=fam))
    # optimal haploid / population value problems (harnesses shared with C18): table filled for a partial last memory chunk, OPV definition
    from .C18 import OHVMat, OPVLatent
    obs.append(OHVMat(sizes=[2], nblk=2, n=3, nparent=2, t=1, mem=2))
    obs.append(OPVLatent(n=3, h=2, t=1, sel=[2, 0]))
    obs.append(OPVLatent(n=3, h=2, t=1, sel=[1]))
    return obs


def replay_known(f):
    raise NotImplementedError
