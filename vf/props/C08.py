"""C08 Seeded runs are reproducible and explicit generators are isolated"""
import itertools

import numpy

from ..harness import Harness, And, Or, Not, Implies, Ite, cells, cell
from .. import sym, symnp, stubs, compat, entropy
from ..sym import SV

PROPERTY = "C08"
ASSUMPTIONS = [
    "stream contract: the k-th value drawn from a generator depends only on the value it was last seeded with and on k; "
    "generators created without a seed, clocks and OS entropy are unknown and different on every creation",
    "arbitrary prior interpreter history = both global streams start every run in unknown, run-specific states",
    "pymoo.optimize.minimize applies the algorithm's sampling, crossover and mutation operators (contract stub, one application each)",
]
STUBS = ["vf.entropy.EntropyEnv: python `random` module, numpy.random namespace, global_prng, PCG64/Generator/default_rng/SeedSequence/RandomState constructors, time/os entropy reads",
         "pymoo minimize stub (GA components)", "linalg eigenvalue contract (jitter component)"]
BOUNDS = {"quick": dict(program_length="<=2", components=18, taxa=2, markers=2, seeds="symbolic in [0,2^32) plus 0, 1, 2^32-1", shuffles="rotation classes"),
          "thorough": dict(program_length="<=3", components=32, taxa="2-3", markers=2, seeds="symbolic in [0,2^32) plus 0, 1, 2^32-1", shuffles="rotation classes")}
OUTSIDE = ["bit-level identity of the real Mersenne-Twister / PCG streams (numpy's and CPython's contract)", "pymoo's internal randomness and its own seeding of numpy.random",
           "hash-order or thread-scheduling dependent behaviour", "G_E_Phenotyping (pandas data frames: see C14)"]

MODS = ["pybrops.breed.prot.pt.G_E_Phenotyping", "pybrops.core.error.error_type_pandas", "pybrops.core.error.error_value_pandas", "pybrops.core.random.prng", "pybrops.core.random.sampling", "pybrops.core.util.array", "pybrops.popgen.gmat.DensePhasedGenotypeMatrix",
        "pybrops.breed.prot.mate.TwoWayCross", "pybrops.breed.prot.mate.TwoWayDHCross", "pybrops.breed.prot.mate.SelfCross", "pybrops.breed.prot.mate.ThreeWayCross",
        "pybrops.breed.prot.mate.ThreeWayDHCross", "pybrops.breed.prot.mate.FourWayCross", "pybrops.breed.prot.mate.FourWayDHCross", "pybrops.breed.prot.mate.util",
        "pybrops.breed.prot.sel.cfg.SubsetSelectionConfiguration", "pybrops.breed.prot.sel.cfg.RealSelectionConfiguration", "pybrops.breed.prot.sel.cfg.IntegerSelectionConfiguration",
        "pybrops.breed.prot.sel.cfg.BinarySelectionConfiguration", "pybrops.breed.prot.sel.cfg.SubsetMateSelectionConfiguration", "pybrops.breed.prot.sel.cfg.SampledSelectionConfigurationMixin",
        "pybrops.opt.algo.SteepestDescentSubsetHillClimber", "pybrops.opt.algo.SubsetGeneticAlgorithm", "pybrops.opt.algo.NSGA2SubsetGeneticAlgorithm", "pybrops.opt.algo.pymoo_addon",
        "pybrops.breed.prot.sel.prob.EstimatedBreedingValueSelectionProblem", "pybrops.breed.prot.sel.prob.trans", "pybrops.opt.soln.SubsetSolution",
        "pybrops.breed.prot.sel.EstimatedBreedingValueSelection", "pybrops.opt.algo.SortingSubsetOptimizationAlgorithm", "pybrops.opt.algo.RealOptimizationAlgorithm",
        "pybrops.opt.algo.IntegerOptimizationAlgorithm", "pybrops.opt.algo.BinaryOptimizationAlgorithm", "pybrops.opt.soln.RealSolution", "pybrops.opt.soln.IntegerSolution", "pybrops.opt.soln.BinarySolution", "pybrops.popgen.bvmat.DenseBreedingValueMatrix",
        "pybrops.popgen.cmat.DenseMolecularCoancestryMatrix", "pybrops.model.embvmat.DenseExpectedMaximumBreedingValueMatrix", "pybrops.model.gmod.DenseAdditiveLinearGenomicModel"]


# ----------------------------------------------------------------------------------------------------------------
# components: each takes (R, sy) with R the generator to pass (None = library default) and sy = symbolic mode flag
# ----------------------------------------------------------------------------------------------------------------
def _box(a, sy):
    return symnp.box(a) if sy else a


def _pgmat(n=2, m=2):
    from pybrops.popgen.gmat.DensePhasedGenotypeMatrix import DensePhasedGenotypeMatrix
    A = numpy.zeros((2, n, m), dtype="int8")
    for i in range(n):
        for j in range(m):
            A[0, i, j] = (i + j) % 2
            A[1, i, j] = (i + j + 1 + (i == 0)) % 2
    pg = DensePhasedGenotypeMatrix(mat=A, taxa=numpy.array(["p%d" % i for i in range(n)], dtype=object), taxa_grp=numpy.arange(n),
                                   vrnt_chrgrp=numpy.ones(m, dtype="int64"), vrnt_phypos=numpy.arange(m) + 1,
                                   vrnt_name=numpy.array(["s%d" % j for j in range(m)], dtype=object),
                                   vrnt_genpos=numpy.arange(m) * 0.25, vrnt_xoprob=numpy.array([0.5, 0.25, 0.125][:m]))
    pg.group_vrnt()
    return pg


def c_spawn(R, sy):
    import pybrops.core.random.prng as prng
    g = prng.spawn(2)
    h = prng.spawn()
    return [g[0].uniform(), g[1].uniform(), h.uniform()]


def c_wrappers(R, sy):
    import pybrops.core.random.prng as prng
    return [prng.uniform(0.0, 1.0, 2), prng.choice(3), prng.normal(), prng.random(), prng.permutation(3)]


def c_tiled(R, sy):
    import pybrops.core.random.sampling as S
    return S.tiled_choice(numpy.arange(3), 4, replace=False, rng=R)


def c_sus(R, sy):
    import pybrops.core.random.sampling as S
    return S.stochastic_universal_sampling(_box(numpy.arange(3), sy), numpy.array([0.5, 0.25, 0.25]), 3, rng=R)


def c_axis(R, sy):
    import pybrops.core.random.sampling as S
    a = numpy.arange(6).reshape(2, 3)
    S.axis_shuffle(a, 1, rng=R)
    return a


def c_outcross(R, sy):
    import pybrops.core.random.sampling as S
    a = numpy.array([[0, 0], [1, 2]])
    S.outcross_shuffle(a, rng=R)
    return a


def _cfg(cls, decn, sy, R, **kw):
    import importlib
    C = getattr(importlib.import_module("pybrops.breed.prot.sel.cfg." + cls), cls)
    return C(ncross=2, nparent=2, nmating=1, nprogeny=1, pgmat=_pgmat(4, 1), xconfig_decn=decn, rng=R, **kw).xconfig


def c_cfg_subset(R, sy):
    return _cfg("SubsetSelectionConfiguration", numpy.array([0, 1, 2]), sy, R)


def c_cfg_integer(R, sy):
    return _cfg("IntegerSelectionConfiguration", numpy.array([2, 0, 1]), sy, R)


def c_cfg_binary(R, sy):
    return _cfg("BinarySelectionConfiguration", numpy.array([1, 0, 1]), sy, R)


def c_cfg_real(R, sy):
    return _cfg("RealSelectionConfiguration", numpy.array([0.5, 0.25, 0.25]), sy, R)


def c_cfg_mate(R, sy):
    from pybrops.core.util.array import xmapix
    xmap = numpy.array(list(xmapix(4, 2, True)))
    return _cfg("SubsetMateSelectionConfiguration", numpy.array([1, 2, 3]), sy, R, xconfig_xmap=_box(xmap, sy))


def _mate(prot, npar, nself=0):
    def f(R, sy):
        import importlib
        mod = importlib.import_module("pybrops.breed.prot.mate." + prot)
        p = getattr(mod, prot)(rng=R)
        # (selfing generations: one marker, the meioses of every generation must draw from the protocol's own stream)
        pg = _pgmat(3 if npar >= 3 else 2, 2 if nself == 0 else 1)
        xc = numpy.array([[i % pg.ntaxa for i in range(npar)]])
        prog = p.mate(pg, xc, 1, 1, nself=nself)
        return prog.mat
    f.__name__ = "c_" + prot + ("_self%d" % nself if nself else "")
    return f


def _problem(n, k, nobj=1):
    import pybrops.breed.prot.sel.prob.trans as T
    from pybrops.breed.prot.sel.prob.EstimatedBreedingValueSelectionProblem import EstimatedBreedingValueSubsetSelectionProblem as C
    if nobj == 1:
        return C(ebv=numpy.array([[0.5], [2.0], [1.0], [1.5]][:n]), ndecn=k, decn_space=numpy.arange(n), decn_space_lower=numpy.repeat(0, k), decn_space_upper=numpy.repeat(n - 1, k),
                 nobj=1, obj_wt=numpy.array([1.0]), obj_trans=T.trans_sum)
    return C(ebv=numpy.array([[0.5, 1.0], [2.0, 0.25], [1.0, 3.0], [1.5, 0.5]][:n]), ndecn=k, decn_space=numpy.arange(n), decn_space_lower=numpy.repeat(0, k),
             decn_space_upper=numpy.repeat(n - 1, k), nobj=2, obj_wt=numpy.array([1.0, 1.0]))


def c_hillclimb(R, sy):
    from pybrops.opt.algo.SteepestDescentSubsetHillClimber import SteepestDescentSubsetHillClimber
    s = SteepestDescentSubsetHillClimber(rng=R).minimize(_problem(3, 2))
    return [s.soln_decn, s.soln_obj]


class _Res:
    pass


def _stub_minimize(problem, algorithm, termination=None, seed=None, **kw):
    """contract stub of pymoo.optimize.minimize (pymoo 0.6.2, core/algorithm.py:setup): the algorithm's own random state is
    numpy.random.default_rng(seed) -- OS entropy when no seed is passed -- and pymoo's built-in operators (parent selection) draw
    from it; the sampling, crossover and mutation operators supplied by the caller are applied once each"""
    rs = symnp.PROXY.random.default_rng(seed)
    samp = algorithm.initialization.sampling
    X = samp._do(problem, 2)
    X = X[rs.permutation(2)]            # pymoo's tournament selection: random_permutations(..., random_state=algorithm.random_state)
    Xc = X
    if set(int(v) for v in cells(X[0])) != set(int(v) for v in cells(X[1])):
        Xc = algorithm.mating.crossover._do(problem, numpy.stack([X[0][None, :], X[1][None, :]]))
    Xm = algorithm.mating.mutation._do(problem, Xc.reshape(-1, problem.n_var))
    r = _Res()
    r.X, r.F, r.G, r.H = Xm[0], numpy.zeros(problem.n_obj), numpy.zeros(0), numpy.zeros(0)
    r.pop = Xm
    if problem.n_obj > 1:
        r.X, r.F, r.G, r.H = Xm, numpy.zeros((len(Xm), problem.n_obj)), numpy.zeros((len(Xm), 0)), numpy.zeros((len(Xm), 0))
    return r


def _ga(cls):
    def f(R, sy):
        import importlib
        mod = importlib.import_module("pybrops.opt.algo." + cls)
        saved = mod.minimize
        if sy:
            mod.minimize = _stub_minimize
        try:
            kw = dict(ngen=2, pop_size=4)
            if R is not None:
                kw["rng"] = R
            s = getattr(mod, cls)(**kw).minimize(_problem(4, 2, nobj=(2 if cls.startswith("NSGA") else 1)))
        finally:
            mod.minimize = saved
        return [s.soln_decn]
    f.__name__ = "c_" + cls
    return f


def c_jitter(R, sy):
    from pybrops.popgen.cmat.DenseMolecularCoancestryMatrix import DenseMolecularCoancestryMatrix
    K = DenseMolecularCoancestryMatrix(mat=_box(numpy.array([[1.0, 2.0], [2.0, 1.0]]), sy), taxa=None, taxa_grp=None)
    K.apply_jitter(eigvaltol=2e-14, minjitter=1.5, maxjitter=2.5, nattempt=3)
    return K.mat


def c_embv(R, sy):
    from pybrops.model.embvmat.DenseExpectedMaximumBreedingValueMatrix import DenseExpectedMaximumBreedingValueMatrix as E
    from pybrops.model.gmod.DenseAdditiveLinearGenomicModel import DenseAdditiveLinearGenomicModel as G
    g = G(beta=numpy.array([[1.0]]), u_misc=None, u_a=numpy.array([[1.0], [-0.5]]), trait=numpy.array(["y"], dtype=object))
    e = E.from_gmod(g, _pgmat(2, 2), nprogeny=2, nrep=1)
    return e.mat


def c_select(R, sy):
    from pybrops.breed.prot.sel.EstimatedBreedingValueSelection import EstimatedBreedingValueSubsetSelection
    from pybrops.opt.algo.SortingSubsetOptimizationAlgorithm import SortingSubsetOptimizationAlgorithm
    from pybrops.popgen.bvmat.DenseBreedingValueMatrix import DenseBreedingValueMatrix
    import pybrops.breed.prot.sel.prob.trans as T
    n = 3
    bv = DenseBreedingValueMatrix(mat=_box(numpy.array([[0.5], [2.0], [1.0]]), sy), location=0.0, scale=1.0, taxa=numpy.array(["a", "b", "c"], dtype=object), taxa_grp=numpy.arange(n))
    kw = dict(rng=R) if R is not None else {}
    prot = EstimatedBreedingValueSubsetSelection(ntrait=1, unscale=True, ncross=1, nparent=2, nmating=1, nprogeny=1, nobj=1, obj_trans=T.trans_sum,
                                                 soalgo=SortingSubsetOptimizationAlgorithm(), **kw)
    cfg = prot.select(pgmat=_pgmat(n, 1), gmat=None, ptdf=None, bvmat=bv, gpmod=None, t_cur=0, t_max=1)
    return cfg.xconfig


# ---- components split into construction and use: objects may be built before the generator is (re)seeded
def _gpmod():
    from pybrops.model.gmod.DenseAdditiveLinearGenomicModel import DenseAdditiveLinearGenomicModel as G
    return G(beta=numpy.array([[1.0]]), u_misc=None, u_a=numpy.array([[1.0], [-0.5]]), trait=numpy.array(["y"], dtype=object))


def _b_pheno(how):
    def build(R, sy):
        import copy
        from pybrops.breed.prot.pt.G_E_Phenotyping import G_E_Phenotyping
        p = G_E_Phenotyping(gpmod=_gpmod(), nenv=1, nrep=1, var_env=0.25, var_rep=0.0, var_err=1.0, rng=R)
        if how == "deepcopy":
            p = copy.deepcopy(p)
        elif how == "copy":
            p = copy.copy(p)
        elif how == "method-deepcopy":
            p = p.deepcopy()
        return p
    return build


def _u_pheno(p, sy):
    df = p.phenotype(_pgmat(2, 2))
    return df["y"].to_numpy()


def _b_mate(R, sy):
    from pybrops.breed.prot.mate.TwoWayCross import TwoWayCross
    return TwoWayCross(rng=R)


def _u_mate(p, sy):
    return p.mate(_pgmat(2, 2), numpy.array([[0, 1]]), 1, 1, nself=0).mat


def _b_hill(R, sy):
    from pybrops.opt.algo.SteepestDescentSubsetHillClimber import SteepestDescentSubsetHillClimber
    return SteepestDescentSubsetHillClimber(rng=R)


def _u_hill(a, sy):
    s = a.minimize(_problem(3, 2))
    return [s.soln_decn, s.soln_obj]


def _b_ga(R, sy):
    from pybrops.opt.algo.SubsetGeneticAlgorithm import SubsetGeneticAlgorithm
    kw = dict(ngen=2, pop_size=4)
    if R is not None:
        kw["rng"] = R
    return SubsetGeneticAlgorithm(**kw)


def _u_ga(a, sy):
    import pybrops.opt.algo.SubsetGeneticAlgorithm as mod
    saved = mod.minimize
    if sy:
        mod.minimize = _stub_minimize
    try:
        s = a.minimize(_problem(4, 2))
    finally:
        mod.minimize = saved
    return [s.soln_decn]


def _b_cfg(R, sy):
    from pybrops.breed.prot.sel.cfg.SubsetSelectionConfiguration import SubsetSelectionConfiguration as C
    # exactly one full set of the chosen individuals per sampling (no remainder)
    return C(ncross=2, nparent=2, nmating=1, nprogeny=1, pgmat=_pgmat(4, 1), xconfig_decn=numpy.array([2, 0, 3, 1]), rng=R)


def _u_cfg(c, sy):
    c.sample_xconfig()
    return [c.xconfig, c.xconfig_decn]


OBJ = dict(pheno=(_b_pheno("plain"), _u_pheno), pheno_deepcopy=(_b_pheno("deepcopy"), _u_pheno), pheno_copy=(_b_pheno("copy"), _u_pheno),
           pheno_mdeepcopy=(_b_pheno("method-deepcopy"), _u_pheno), mate_obj=(_b_mate, _u_mate), hill_obj=(_b_hill, _u_hill), ga_obj=(_b_ga, _u_ga), cfg_obj=(_b_cfg, _u_cfg))


def _objcomp(name):
    b, u = OBJ[name]

    def f(R, sy):
        return u(b(R, sy), sy)
    f.__name__ = "c_" + name
    return f


def _select_enc(enc):
    """select() of the Real/Integer/Binary EBV protocols around an optimiser stub that returns a fixed decision vector"""
    def f(R, sy):
        import importlib
        from .C07 import _stub_algo
        from pybrops.popgen.bvmat.DenseBreedingValueMatrix import DenseBreedingValueMatrix
        import pybrops.breed.prot.sel.prob.trans as T
        n = 3
        Prot = getattr(importlib.import_module("pybrops.breed.prot.sel.EstimatedBreedingValueSelection"), "EstimatedBreedingValue%sSelection" % enc)
        decn = {"Real": numpy.array([[0.5, 0.25, 0.25]]), "Integer": numpy.array([[2, 0, 1]]), "Binary": numpy.array([[1, 0, 1]])}[enc]
        algo = _stub_algo(enc, decn, numpy.zeros((1, 1)))
        kw = dict(rng=R) if R is not None else {}
        prot = Prot(ntrait=1, unscale=True, ncross=2, nparent=2, nmating=1, nprogeny=1, nobj=1, obj_trans=T.trans_sum, soalgo=algo, **kw)
        bv = DenseBreedingValueMatrix(mat=_box(numpy.array([[0.5], [2.0], [1.0]]), sy), location=0.0, scale=1.0, taxa=numpy.array(["a", "b", "c"], dtype=object), taxa_grp=numpy.arange(n))
        return prot.select(pgmat=_pgmat(n, 1), gmat=None, ptdf=None, bvmat=bv, gpmod=None, t_cur=0, t_max=1).xconfig
    f.__name__ = "c_select_" + enc
    return f


COMP = dict(spawn=c_spawn, wrappers=c_wrappers, tiled=c_tiled, sus=c_sus, axis=c_axis, outcross=c_outcross, cfg_subset=c_cfg_subset, cfg_integer=c_cfg_integer,
            cfg_binary=c_cfg_binary, cfg_real=c_cfg_real, cfg_mate=c_cfg_mate, twoway=_mate("TwoWayCross", 2), twowaydh=_mate("TwoWayDHCross", 2), selfc=_mate("SelfCross", 1),
            threeway=_mate("ThreeWayCross", 3), threewaydh=_mate("ThreeWayDHCross", 3), fourway=_mate("FourWayCross", 4), fourwaydh=_mate("FourWayDHCross", 4),
            hillclimb=c_hillclimb, ga=_ga("SubsetGeneticAlgorithm"), nsga2=_ga("NSGA2SubsetGeneticAlgorithm"), jitter=c_jitter, embv=c_embv, select=c_select)
for _nm in OBJ:
    COMP[_nm] = _objcomp(_nm)
for _enc in ("Real", "Integer", "Binary"):
    COMP["select_" + _enc.lower()] = _select_enc(_enc)
# components that accept a caller-supplied generator
TAKES_RNG = ["tiled", "sus", "axis", "outcross", "cfg_subset", "cfg_integer", "cfg_binary", "cfg_real", "cfg_mate", "twoway", "twowaydh", "selfc", "threeway", "threewaydh",
             "fourway", "fourwaydh", "hillclimb", "ga", "nsga2", "select", "pheno", "pheno_copy", "select_real", "select_integer", "select_binary"]


def frozen(x):
    """snapshot of an output structure (arrays copied): later runs must not be able to change what an earlier run returned"""
    if isinstance(x, numpy.ndarray):
        return x.copy()
    if isinstance(x, (list, tuple)):
        return [frozen(e) for e in x]
    if isinstance(x, dict):
        return {k: frozen(v) for k, v in x.items()}
    return x


def flat(x, acc=None):
    acc = [] if acc is None else acc
    if isinstance(x, symnp.SymArray):
        acc.extend(symnp.raw(x).ravel().tolist())
    elif isinstance(x, numpy.ndarray):
        acc.extend(x.ravel().tolist())
    elif isinstance(x, (list, tuple)):
        for e in x:
            flat(e, acc)
    elif isinstance(x, dict):
        for k in sorted(x):
            flat(x[k], acc)
    else:
        acc.append(x)
    return acc


def struct_equal(a, b):
    """solver condition (or python bool) for two output structures being equal"""
    fa, fb = flat(a), flat(b)
    if len(fa) != len(fb):
        return False
    conds = []
    for x, y in zip(fa, fb):
        if isinstance(x, SV) or isinstance(y, SV):
            conds.append(x == y)
        else:
            if isinstance(x, float) and isinstance(y, float) and x != x and y != y:
                continue
            if not (x == y):
                return False
    return And(*conds) if conds else True


def bit_equal(a, b):
    fa, fb = flat(a), flat(b)
    if len(fa) != len(fb):
        return False
    for x, y in zip(fa, fb):
        if isinstance(x, float) and isinstance(y, float):
            if numpy.float64(x).tobytes() != numpy.float64(y).tobytes():
                return False
        elif not (x == y):
            return False
    return True


class _EnvHarness(Harness):
    needs_real_run = False      # the stream abstraction has no concrete counterpart; counterexamples are replayed on the real generators

    def modules(self):
        return MODS

    def _prog(self, R, sy):
        return [COMP[c](R, sy) for c in self.params["prog"]]


class Repro(_EnvHarness):
    """seed(s); program  -- executed twice from arbitrary different prior stream states"""
    name = "seeded-rerun"

    def inputs(self, mk):
        if self.params.get("seedval") is not None:
            return dict(seed=int(self.params["seedval"]))         # boundary seeds as concrete values (0, 2**32-1, ...)
        return dict(seed=mk.int("seed", lo=0, hi=2 ** 32 - 1))

    def call(self, inp, mk):
        import pybrops.core.random.prng as prng
        outs, snaps, traps = [], [], []
        pre = bool(self.params.get("prebuilt"))
        with entropy.EntropyEnv() as env:
            if pre:
                # objects constructed (and copied) before the generator is re-seeded, in an arbitrary earlier stream state
                env.new_run("pre")
                env.npglobal.symbolic_calls = 0        # construction phase: one fixed (identity) order per shuffle; the data flow is what matters here
                objs = [OBJ[c][0](None, True) for c in self.params["prog"]]
                env.npglobal.symbolic_calls = None
                env.npglobal._nperm = 0
            for label in ("A", "B"):
                env.new_run(label)
                if self.params.get("twin") == "unseeded" and label == "B":
                    pass                # reachability twin: second run is not re-seeded
                else:
                    prng.seed(inp["seed"])
                outs.append(frozen([OBJ[c][1](o, True) for c, o in zip(self.params["prog"], objs)] if pre else self._prog(None, True)))
                snaps.append(env.snapshot())
                traps.append([l for l in env.log if l[0] == "trap"])
            self._draws = env.draw_names()
        return dict(outs=outs, snaps=snaps, traps=traps)

    def check(self, P, inp, out):
        a, b = out["outs"]
        P.prove(struct_equal(a, b), "same-seed-same-calls-give-identical-outputs",
                detail="entropy not derived from the seed: %s" % (out["traps"][0][:3],) if out["traps"][0] else "outputs depend on the state before seeding")
        P.prove(out["snaps"][0] == out["snaps"][1], "global-streams-end-in-the-same-state", detail="%s vs %s" % (out["snaps"][0], out["snaps"][1]))

    def custom_replay(self, vals):
        """real generators: two executions after seed(s), the second one preceded by unrelated draws"""
        import random
        compat.load(*self.modules())
        compat.symbolic_mode(False)
        import importlib
        import pybrops.core.random.prng as prng
        importlib.reload(prng)          # module-level state the symbolic runs may have left behind must not leak into the real replay
        s = int(self.params["seedval"]) if self.params.get("seedval") is not None else int(vals.get("seed", 0))
        res = []
        pre = bool(self.params.get("prebuilt"))
        if pre:
            numpy.random.standard_normal(2)
            objs = [OBJ[c][0](None, False) for c in self.params["prog"]]
        for hist in range(3):
            if hist == 1:
                random.random()
                numpy.random.standard_normal(3)
                numpy.random.seed(12345)
            if hist == 2:
                random.seed(99)
                random.getrandbits(70)
                numpy.random.uniform(size=2)
            prng.seed(s)
            o = frozen([OBJ[c][1](ob, False) for c, ob in zip(self.params["prog"], objs)] if pre else self._prog(None, False))
            res.append((o, random.getstate(), numpy.random.get_state()))
        for k in (1, 2):
            if not bit_equal(res[0][0], res[k][0]):
                return True, "seed %d: outputs of two seeded executions differ: %s vs %s" % (s, _short(res[0][0]), _short(res[k][0]))
            if res[0][1] != res[k][1] or not _npstate_eq(res[0][2], res[k][2]):
                return True, "seed %d: global stream states differ after two seeded executions" % s
        return False, "three seeded executions bit-identical"


def _short(x):
    return str([(_v.tolist() if isinstance(_v, numpy.ndarray) else _v) for _v in (x if isinstance(x, list) else [x])])[:300]


def _npstate_eq(a, b):
    return a[0] == b[0] and numpy.array_equal(a[1], b[1]) and tuple(a[2:]) == tuple(b[2:])


class Isolated(_EnvHarness):
    """component called with a caller-supplied generator under two different states of the global streams"""
    name = "explicit-generator"

    def inputs(self, mk):
        return dict()

    def call(self, inp, mk):
        outs, counts, snaps0, snaps1 = [], [], [], []
        with entropy.EntropyEnv() as env:
            for label in (("A",) if self._excluded() else ("A", "B")):
                env.new_run(label)
                g = entropy.StreamRNG("g", env, "explicit")
                snaps0.append(env.snapshot())
                outs.append(frozen(self._prog(g, True)))
                snaps1.append(env.snapshot())
                counts.append((dict(env.count), dict(env.reseeds), [l for l in env.log if l[0] != "explicit"][:4], g.ncall))
        return dict(outs=outs, counts=counts, snaps0=snaps0, snaps1=snaps1)

    def _excluded(self):
        return KNOWN_GA in getattr(self, "active_known", ()) and any(c in GA_COMPONENTS for c in self.params["prog"])

    def check(self, P, inp, out):
        if self._excluded():
            # known finding: the numpy-global clause is not asserted for this call site; what remains is asserted
            cnt, rs, log, ncall = out["counts"][0]
            P.prove(cnt.get("py", 0) == 0 and "py" not in rs, "global-python-stream-left-untouched")
            P.prove(ncall > 0, "the-supplied-generator-is-the-one-consumed")
            return
        for k in (0, 1):
            cnt, rs, log, ncall = out["counts"][k]
            P.prove(cnt.get("np", 0) == 0 and cnt.get("py", 0) == 0 and out["snaps0"][k] == out["snaps1"][k] and not rs,
                    "global-python-and-numpy-streams-left-untouched", detail="draws/reseeds outside the supplied generator: %s" % (log,))
        a, b = out["outs"]
        P.prove(struct_equal(a, b), "result-depends-only-on-the-supplied-generator")
        names = entropy.term_vars(a)
        P.prove(all(nm.startswith("g_") for nm in names), "outputs-mention-only-draws-of-the-supplied-generator", detail="%s" % sorted(n for n in names if not n.startswith("g_"))[:4])
        if self.params.get("must_draw", True):
            P.prove(out["counts"][0][3] > 0, "the-supplied-generator-is-the-one-consumed")

    def custom_replay(self, vals):
        import random
        compat.load(*self.modules())
        compat.symbolic_mode(False)
        res = []
        for gs in (1, 2):
            random.seed(gs)
            numpy.random.seed(gs)
            for mkgen in (lambda: numpy.random.default_rng(7), lambda: numpy.random.RandomState(7)):
                g = mkgen()
                st0 = (random.getstate(), numpy.random.get_state())
                try:
                    o = self._prog(g, False)
                except (AttributeError, TypeError) as ex:
                    last = ex
                    continue
                st1 = (random.getstate(), numpy.random.get_state())
                if st0[0] != st1[0] or not _npstate_eq(st0[1], st1[1]):
                    return True, "global %s stream consumed although generator %s was supplied" % ("python" if st0[0] != st1[0] else "numpy", type(g).__name__)
                res.append(o)
                break
            else:
                return False, "component does not run with a real generator: %r" % (last,)
        if not bit_equal(res[0], res[1]):
            return True, "same supplied generator, different global seeds: %s vs %s" % (_short(res[0]), _short(res[1]))
        return False, "global streams untouched, outputs identical under two global seeds"


class ExpectRefuted:
    """vacuity guard: a deliberately broken twin whose assertion the solver must refute"""

    def __init__(self, h):
        self.h = h
        self.params = h.params

    def describe(self):
        return "twin-must-be-refuted:" + self.h.describe()

    def modules(self):
        return self.h.modules()

    def run(self, tier):
        from .. import harness as H
        res = H.run_symbolic(self.h, budget_s=300.0)
        res["name"] = self.describe()
        if res["status"] == "counterexample":
            res["status"], res["message"] = "ok", "refuted as expected (%s)" % res["message"]
            res.pop("cex", None)
        elif res["status"] == "ok":
            res["status"], res["message"] = "error", "vacuity guard: the broken twin was not refuted"
        return res

    def replay(self, vals):
        return False, "twin"


def c_twin_ignores_rng(R, sy):
    import pybrops.core.random.sampling as S
    R.random()
    return S.tiled_choice(numpy.arange(3), 4, replace=False, rng=None)


COMP["twin_ignores_rng"] = c_twin_ignores_rng
SELFED = dict(twoway_self=("TwoWayCross", 2), selfc_self=("SelfCross", 1), threeway_self=("ThreeWayCross", 3), fourway_self=("FourWayCross", 4),
              twowaydh_self=("TwoWayDHCross", 2), threewaydh_self=("ThreeWayDHCross", 3))
for _k, (_p, _n) in SELFED.items():
    COMP[_k] = _mate(_p, _n, nself=1)
    TAKES_RNG.append(_k)
KNOWN_GA = "C08-genetic-algorithms-ignore-the-supplied-generator"
GA_COMPONENTS = ("ga", "nsga2")


def obligations(tier):
    obs = []
    quick_single = ["select_real", "select_integer", "select_binary", "pheno", "pheno_copy", "spawn", "wrappers", "tiled", "sus", "axis", "outcross", "cfg_subset", "cfg_real", "cfg_integer", "cfg_mate", "twoway", "twowaydh", "hillclimb", "ga", "select", "jitter", "twoway_self", "threeway_self"]
    # (the four-way DH cross with two markers exceeds the path budget when executed twice)
    all_single = [c for c in COMP if not c.startswith("twin") and (c not in OBJ or c.startswith("pheno")) and c != "fourwaydh"]
    singles = quick_single if tier == "quick" else all_single
    for c in singles:
        obs.append(Repro(prog=[c]))
    pairs = [["spawn", "tiled"], ["wrappers", "spawn"], ["twowaydh", "tiled"], ["sus", "wrappers"]]
    if tier == "thorough":
        base = ["spawn", "wrappers", "tiled", "sus", "twoway", "cfg_subset", "hillclimb", "ga"]
        heavy = {"cfg_subset", "ga", "twoway", "tiled"}       # two path-heavy components in one program exceed the budget
        pairs = [[a, b] for a in base for b in base if a != b and not ({a, b} <= heavy and "cfg_subset" in (a, b))]
        pairs += [["spawn", "twoway", "wrappers"], ["tiled", "spawn", "sus"], ["ga", "spawn", "tiled"], ["wrappers", "hillclimb", "spawn"]]
    for p in pairs:
        obs.append(Repro(prog=p))
    for sv in (0, 2 ** 32 - 1, 1):
        obs.append(Repro(prog=["wrappers", "spawn"], seedval=sv))
    obs.append(Repro(prog=["twoway"], seedval=0))
    for c in (["pheno", "pheno_deepcopy", "pheno_copy", "pheno_mdeepcopy", "mate_obj", "hill_obj", "ga_obj", "cfg_obj"]):
        obs.append(Repro(prog=[c], prebuilt=True))
    obs.append(Repro(prog=["pheno_deepcopy", "mate_obj"], prebuilt=True))
    obs.append(ExpectRefuted(Repro(prog=["wrappers"], twin="unseeded")))
    obs.append(ExpectRefuted(Isolated(prog=["twin_ignores_rng"])))
    iso = [c for c in TAKES_RNG if (tier == "thorough" or c in quick_single)]
    for c in iso:
        obs.append(Isolated(prog=[c]))
    for h in obs:
        h.budget_s = 600
    return obs


def replay_known(f):
    h = Isolated(prog=[f["components"][0]])
    return h.custom_replay({})
