"""C07 Selection protocols turn criteria into valid, correct cross configurations"""
import itertools
from collections import Counter

import numpy

from ..harness import Harness, And, Or, Not, Implies, Ite, cells, cell, is_nan
from .. import sym, symnp, stubs, compat
from ..sym import SV
from .C09 import _mk_gmat

PROPERTY = "C07"
ASSUMPTIONS = [
    "generator contract (arbitrary permutations / choices / offsets); shuffles of exchange lists explore the rotations (every exchange first once, see C17) and row shuffles the rotations of the rows (row order is not part of any asserted clause)",
    "breeding values arbitrary reals; chosen decision vectors enumerated (subsets, integer counts, binary indicators) or symbolic reals (contributions with positive sum)",
    "exact optimiser: the library's SortingSubsetOptimizationAlgorithm injected as soalgo; multi-objective: a stub moalgo returning an arbitrary symbolic front (the pymoo NSGA-II run itself is outside)",
]
STUBS = ["FirstPickRNG (rotations) as rng / global_prng of the configuration classes", "stub moalgo (arbitrary front)"]
BOUNDS = {"quick": dict(ncross="<=2", nparent="<=3 (one 1x5 table)", candidates="<=4", shuffles="rotation classes + 1 enumerated start arrangement of the 2x3 table"),
          "thorough": dict(ncross="<=3", nparent="<=3 (one 1x5 table)", candidates="<=4", shuffles="rotation classes + 30 enumerated start arrangements of the 2x3 table")}
OUTSIDE = ["protocols whose problem() needs pandas phenotypes or the GA optimisers", "row order of the configuration", "OCS/UC/OHV protocols' problem construction (their criteria are C05/C12/C18)"]

CFG = "pybrops.breed.prot.sel.cfg."
MODS = [CFG + "SubsetSelectionConfiguration", CFG + "RealSelectionConfiguration", CFG + "IntegerSelectionConfiguration", CFG + "BinarySelectionConfiguration",
        CFG + "SubsetMateSelectionConfiguration", CFG + "SampledSelectionConfigurationMixin", "pybrops.core.random.sampling", "pybrops.core.util.array",
        "pybrops.breed.prot.sel.EstimatedBreedingValueSelection", "pybrops.breed.prot.sel.GenomicEstimatedBreedingValueSelection",
        "pybrops.opt.algo.SortingSubsetOptimizationAlgorithm", "pybrops.popgen.bvmat.DenseBreedingValueMatrix", "pybrops.popgen.gmat.DensePhasedGenotypeMatrix",
        "pybrops.breed.prot.sel.SubsetSelectionProtocol", "pybrops.breed.prot.sel.prob.trans", "pybrops.opt.soln.SubsetSolution"]


def _pgmat(n):
    return _mk_gmat("phased", numpy.zeros((2, n, 1), dtype="int8"))


def selfpairs(t):
    return sum(len(r) - len(set(int(v) for v in r)) for r in t)


def check_config(P, xc, ncross, nparent, allowed_counts, label):
    """xc: concrete integer table; allowed_counts: member -> (lo, hi) multiplicity bounds"""
    t = numpy.array([[int(v) for v in cells(r)] for r in xc]) if not isinstance(xc, numpy.ndarray) or xc.dtype == object else xc
    P.prove(tuple(t.shape) == (ncross, nparent), label + ":requested-number-of-crosses-and-parents", detail="%s" % (t.shape,))
    cnt = Counter(int(v) for v in t.ravel())
    P.prove(all(m in allowed_counts for m in cnt), label + ":refers-only-to-members-of-the-chosen-solution", detail="%s" % dict(cnt))
    for m, (lo, hi) in allowed_counts.items():
        c = cnt.get(m, 0)
        P.prove(lo <= c <= hi, label + ":multiplicities-follow-the-solution", detail="member %s used %d times, allowed [%s,%s]" % (m, c, lo, hi))
    fl = t.ravel()
    best = selfpairs(t)
    ok = True
    for i in range(len(fl)):
        for j in range(i + 1, len(fl)):
            u = fl.copy()
            u[i], u[j] = u[j], u[i]
            if selfpairs(u.reshape(t.shape)) < best:
                ok = False
    P.prove(ok, label + ":no-single-exchange-reduces-the-self-pairings", detail="%s" % t.tolist())


class ConfigSampling(Harness):
    name = "sample_xconfig"

    def modules(self):
        return MODS

    def inputs(self, mk):
        kind, n = self.params["kind"], self.params["n"]
        inp = dict(rng=mk.rng(cls=stubs.FirstPickRNG))
        if self.params.get("start") is not None and not mk.concrete:
            inp["rng"].scripted_first = list(self.params["start"])
        if self.params.get("symbolic_shuffles") is not None and not mk.concrete:
            inp["rng"].symbolic_calls = int(self.params["symbolic_shuffles"])     # later shuffles use the identity order (bound, see C17's inductive variant)
        if kind == "real":
            x = mk.real("x", (n,), lo=0, hi=1)
            mk.assume(sum(cells(x)[1:], cells(x)[0]) >= 1e-3)
            inp["x"] = x
        return inp

    def call(self, inp, mk):
        import importlib
        kind, n = self.params["kind"], self.params["n"]
        ncross, nparent = self.params["ncross"], self.params["nparent"]
        cls = dict(subset="SubsetSelectionConfiguration", real="RealSelectionConfiguration", integer="IntegerSelectionConfiguration",
                   binary="BinarySelectionConfiguration", mate="SubsetMateSelectionConfiguration")[kind]
        C = getattr(importlib.import_module(CFG + cls), cls)
        pg = _pgmat(max(n, 4))
        if kind == "real":
            decn = inp["x"]
        else:
            decn = numpy.array(self.params["decn"])
        kw = dict(ncross=ncross, nparent=nparent, nmating=1, nprogeny=1, pgmat=pg, xconfig_decn=decn, rng=inp["rng"])
        if kind == "mate":
            from pybrops.core.util.array import xmapix
            xmap = numpy.array(list(xmapix(4, nparent, self.params.get("unique", True))))
            kw["xconfig_xmap"] = xmap if mk.concrete else symnp.box(xmap)
        cfg = C(**kw)
        out = dict(xc=cfg.xconfig, decn_after=cfg.xconfig_decn)
        if kind == "mate":
            out["xmap"] = xmap
        return out

    def check(self, P, inp, out):
        kind, n = self.params["kind"], self.params["n"]
        ncross, nparent = self.params["ncross"], self.params["nparent"]
        N = ncross * nparent
        xc = out["xc"]
        if kind == "mate":
            decn = [int(v) for v in self.params["decn"]]
            xmap = out["xmap"]
            t = numpy.array([[int(v) for v in cells(r)] for r in xc])
            P.prove(tuple(t.shape) == (ncross, nparent), "mate:requested-number-of-crosses-and-parents")
            rows = [tuple(r) for r in t.tolist()]
            allowed = [tuple(int(v) for v in xmap[d]) for d in decn]
            P.prove(all(r in allowed for r in rows), "mate:every-cross-is-a-candidate-cross-of-the-chosen-solution", detail="%s not in %s" % (rows, allowed))
            cnt = Counter(rows)
            lo, hi = ncross // len(decn), -(-ncross // len(decn))
            c2 = Counter(allowed)
            for a in set(allowed):
                P.prove(lo * c2[a] <= cnt.get(a, 0) <= hi * c2[a], "mate:candidate-crosses-used-evenly")
            # the cross map itself: all nparent-tuples over 4 taxa in upper-triangular order
            uniq = self.params.get("unique", True)
            ref = [tuple(c) for c in (itertools.combinations(range(4), nparent) if uniq else itertools.combinations_with_replacement(range(4), nparent))]
            P.prove([tuple(int(v) for v in r) for r in xmap] == ref, "mate:cross-map-enumerates-the-upper-triangle")
            return
        if kind == "subset":
            decn = [int(v) for v in self.params["decn"]]
            lo, hi = N // len(decn), -(-N // len(decn))
            c2 = Counter(decn)
            allowed = {m: (lo * c2[m], hi * c2[m]) for m in set(decn)}
        elif kind in ("integer", "binary"):
            w = [int(v) for v in self.params["decn"]]
            W = sum(w)
            lo, hi = N // W, -(-N // W)
            allowed = {i: (lo * w[i], hi * w[i]) for i in range(len(w)) if w[i] > 0}
        else:
            t = numpy.array([[int(v) for v in cells(r)] for r in xc])
            cnt = Counter(int(v) for v in t.ravel())
            xs = cells(inp["x"])
            W = sum(xs[1:], xs[0])
            P.prove(tuple(t.shape) == (ncross, nparent), "real:requested-number-of-crosses-and-parents")
            for i in range(n):
                c = cnt.get(i, 0)
                P.prove(And(W * (c - 1) < N * xs[i], N * xs[i] < W * (c + 1)), "real:multiplicity-within-one-of-the-proportional-share",
                        detail="member %d used %d of %d" % (i, c, N))
            P.prove(all(0 <= m < n for m in cnt), "real:refers-only-to-candidates")
            check_config(P, t, ncross, nparent, {m: (0, N) for m in range(n)}, "real")
            return
        check_config(P, xc, ncross, nparent, allowed, kind)
        P.prove([int(v) for v in cells(out["decn_after"])] == [int(v) for v in self.params["decn"]], kind + ":chosen-decision-unchanged")


def _stub_mo(front_obj, front_decn):
    from pybrops.opt.algo.SubsetOptimizationAlgorithm import SubsetOptimizationAlgorithm

    class StubMO(SubsetOptimizationAlgorithm):
        """multi-objective optimiser stub: returns an arbitrary (symbolic) front of enumerated subsets"""

        def __init__(self):
            self.front_obj, self.front_decn = front_obj, front_decn

        def minimize(self, prob, miscout=None, **kw):
            return _StubMinimize(self, prob)
    return StubMO()


class _Unused:
    def __init__(self, front_obj, front_decn):
        self.front_obj, self.front_decn = front_obj, front_decn

    def minimize(self, prob, miscout=None, **kw):
        return _StubMinimize(self, prob)


def _StubMinimize(self, prob):
        from pybrops.opt.soln.SubsetSolution import SubsetSolution
        return SubsetSolution(ndecn=prob.ndecn, decn_space=prob.decn_space, decn_space_lower=prob.decn_space_lower, decn_space_upper=prob.decn_space_upper,
                              nobj=prob.nobj, obj_wt=prob.obj_wt, nineqcv=prob.nineqcv, ineqcv_wt=prob.ineqcv_wt, neqcv=prob.neqcv, eqcv_wt=prob.eqcv_wt,
                              nsoln=len(self.front_decn), soln_decn=self.front_decn, soln_obj=self.front_obj,
                              soln_ineqcv=numpy.zeros((len(self.front_decn), 0)), soln_eqcv=numpy.zeros((len(self.front_decn), 0)))


class Select(Harness):
    """EBV / GEBV subset selection with the exact optimiser: top-k by criterion, valid configuration, equivariance;
    multi-objective: configuration derived from the front member maximising the declared preference transformation"""
    name = "select"
    tol = 1e-7

    def modules(self):
        return MODS

    def inputs(self, mk):
        n, t = self.params["n"], self.params.get("t", 1)
        inp = dict(raw=mk.real("raw", (n, t)), rng=mk.rng(cls=stubs.FirstPickRNG))
        if self.params.get("mo"):
            inp["front"] = mk.real("f", (2, 2))
            inp["ndwt"] = float(self.params.get("ndwt", 1.0))
        if not mk.concrete:
            import z3
            sym.ctx().prefer = list(sym.ctx().prefer) + [z3.Distinct(*[c.e for c in cells(inp["raw"])])]
        return inp

    def _protocol(self, inp, mk, mo):
        from pybrops.breed.prot.sel.EstimatedBreedingValueSelection import EstimatedBreedingValueSubsetSelection
        from pybrops.opt.algo.SortingSubsetOptimizationAlgorithm import SortingSubsetOptimizationAlgorithm
        import pybrops.breed.prot.sel.prob.trans as T
        n, k = self.params["n"], self.params["ncross"] * self.params["nparent"]
        if mo:
            def pref(mat, **kw):
                return mat[:, 0] - mat[:, 1]      # declared preference transformation: first objective minus second
            return EstimatedBreedingValueSubsetSelection(ntrait=2, unscale=True, ncross=self.params["ncross"], nparent=self.params["nparent"], nmating=1, nprogeny=1,
                                                         nobj=2, ndset_wt=inp["ndwt"], ndset_trans=pref, ndset_trans_kwargs={}, rng=inp["rng"],
                                                         moalgo=_stub_mo(inp["front"], numpy.array(self.params["front_decn"])))
        return EstimatedBreedingValueSubsetSelection(ntrait=1, unscale=True, ncross=self.params["ncross"], nparent=self.params["nparent"], nmating=1, nprogeny=1,
                                                     nobj=1, obj_trans=T.trans_sum, soalgo=SortingSubsetOptimizationAlgorithm(), rng=inp["rng"])

    def call(self, inp, mk):
        from pybrops.popgen.bvmat.DenseBreedingValueMatrix import DenseBreedingValueMatrix
        import pybrops.breed.prot.sel.cfg.SampledSelectionConfigurationMixin as MX
        n = self.params["n"]
        mo = bool(self.params.get("mo"))
        perm = list(self.params.get("perm", range(n)))
        raw = inp["raw"]
        saved = MX.global_prng
        MX.global_prng = inp["rng"]          # belt and braces: the configuration must use the protocol's generator (passed explicitly above)
        try:
            outs = []
            for p_ in ([list(range(n))] if mo else [list(range(n)), perm]):
                # stored unscaled (location 0, scale 1): the scaling round trip is C15's subject and would only add
                # square roots to every comparison of the sorting optimiser here
                bv = DenseBreedingValueMatrix(mat=(raw[p_, :].copy() if not mo else raw.copy()), location=0.0, scale=1.0,
                                              taxa=numpy.array(["t%d" % i for i in p_], dtype=object), taxa_grp=numpy.arange(n))
                prot = self._protocol(inp, mk, mo)
                misc = {}
                cfg = prot.select(pgmat=_pgmat(n), gmat=None, ptdf=None, bvmat=bv, gpmod=None, t_cur=0, t_max=1, miscout=misc)
                outs.append(dict(xc=cfg.xconfig, decn=cfg.xconfig_decn, sol=misc.get("sosoln") or misc.get("mosoln")))
        finally:
            MX.global_prng = saved
        return dict(runs=outs)

    def check(self, P, inp, out):
        n, ncross, nparent = self.params["n"], self.params["ncross"], self.params["nparent"]
        k = ncross * nparent
        mo = bool(self.params.get("mo"))
        raw = inp["raw"]
        r0 = out["runs"][0]
        decn0 = [int(v) for v in cells(r0["decn"])]
        if mo:
            fd = [list(map(int, d)) for d in self.params["front_decn"]]
            sc = [inp["ndwt"] * (cell(inp["front"], i, 0) - cell(inp["front"], i, 1)) for i in range(len(fd))]
            P.prove(decn0 in fd, "mo:configuration-derived-from-a-front-member")
            i0 = fd.index(decn0) if decn0 in fd else 0
            P.prove(And(*[sc[i0] >= s for s in sc]), "mo:the-chosen-front-member-maximises-the-declared-preference-transformation")
        else:
            P.prove(len(set(decn0)) == k and all(0 <= d < n for d in decn0), "so:chosen-solution-is-a-k-subset-of-the-candidates", detail="%s" % decn0)
            for a in decn0:
                for b in range(n):
                    if b not in decn0:
                        P.prove(P.le(cell(raw, b, 0), cell(raw, a, 0)), "so:truncation-picks-the-best-candidates-by-their-breeding-value", detail="chosen %s over %d" % (decn0, b))
            perm = list(self.params.get("perm", range(n)))
            decn1 = [int(v) for v in cells(out["runs"][1]["decn"])]
            # candidate j of run 2 is original candidate perm[j]
            mapped = sorted(perm[j] for j in decn1)
            vals0 = sorted(decn0)
            # equal as sets unless ties allow another maximiser: compare the selected value multisets
            P.prove(And(*[P.eq(x, y) for x, y in zip(sorted_vals(P, raw, vals0), sorted_vals(P, raw, mapped))]) if False else
                    Or(mapped == vals0, ties_possible(raw, vals0, mapped)), "so:permuting-the-candidates-permutes-the-choice")
        c2 = Counter(decn0)
        lo, hi = (k // len(decn0)), -(-k // len(decn0))
        check_config(P, r0["xc"], ncross, nparent, {m: (lo * c2[m], hi * c2[m]) for m in set(decn0)}, "select")


def _stub_algo(enc, decisions, objs):
    """optimiser stub for any encoding: returns the given decision vectors with the given (symbolic) objective values"""
    import importlib
    base = getattr(importlib.import_module("pybrops.opt.algo.%sOptimizationAlgorithm" % enc), "%sOptimizationAlgorithm" % enc)
    Soln = getattr(importlib.import_module("pybrops.opt.soln.%sSolution" % enc), "%sSolution" % enc)

    class Stub(base):
        def __init__(self):
            self.seen = []

        def minimize(self, prob, miscout=None, **kw):
            self.seen.append(prob)
            k = len(decisions)
            return Soln(ndecn=prob.ndecn, decn_space=prob.decn_space, decn_space_lower=prob.decn_space_lower, decn_space_upper=prob.decn_space_upper,
                        nobj=prob.nobj, obj_wt=prob.obj_wt, nineqcv=prob.nineqcv, ineqcv_wt=prob.ineqcv_wt, neqcv=prob.neqcv, eqcv_wt=prob.eqcv_wt,
                        nsoln=k, soln_decn=decisions, soln_obj=objs, soln_ineqcv=numpy.zeros((k, 0)), soln_eqcv=numpy.zeros((k, 0)))
    return Stub()


class SelectEncodings(Harness):
    """select() of the Subset/Real/Integer/Binary EBV protocols around an optimiser stub: the configuration is sampled from the decision
    vector the optimiser returned (single objective) or from the front member maximising ndset_wt*ndset_trans (multi-objective), with the
    multiplicities that encoding prescribes, locally optimal for self-pairings, through the protocol's own generator"""
    name = "select-encodings"
    tol = 1e-7

    def modules(self):
        return MODS + ["pybrops.breed.prot.sel.RealSelectionProtocol", "pybrops.breed.prot.sel.IntegerSelectionProtocol", "pybrops.breed.prot.sel.BinarySelectionProtocol",
                       "pybrops.opt.soln.RealSolution", "pybrops.opt.soln.IntegerSolution", "pybrops.opt.soln.BinarySolution",
                       "pybrops.opt.algo.RealOptimizationAlgorithm", "pybrops.opt.algo.IntegerOptimizationAlgorithm", "pybrops.opt.algo.BinaryOptimizationAlgorithm",
                       "pybrops.opt.algo.SubsetOptimizationAlgorithm"]

    def inputs(self, mk):
        n, enc = self.params["n"], self.params["enc"]
        inp = dict(raw=mk.real("raw", (n, 2 if self.params.get("mo") else 1)), rng=mk.rng(cls=stubs.FirstPickRNG))
        if enc == "Real":
            x = mk.real("x", (n,), lo=0, hi=1)
            mk.assume(sum(cells(x)[1:], cells(x)[0]) >= 1e-3)
            inp["x"] = x
        if self.params.get("mo"):
            inp["front"] = mk.real("f", (2, 2))
        return inp

    def call(self, inp, mk):
        import importlib
        from pybrops.popgen.bvmat.DenseBreedingValueMatrix import DenseBreedingValueMatrix
        import pybrops.breed.prot.sel.prob.trans as T
        n, enc, mo = self.params["n"], self.params["enc"], bool(self.params.get("mo"))
        ncross, nparent = self.params["ncross"], self.params["nparent"]
        Prot = getattr(importlib.import_module("pybrops.breed.prot.sel.EstimatedBreedingValueSelection"), "EstimatedBreedingValue%sSelection" % enc)
        if enc == "Real":
            d0 = inp["x"]
            alt = numpy.repeat(1.0 / n, n)
            decisions = symnp._sa([list(cells(d0)), list(alt)]) if not mk.concrete else numpy.stack([d0, alt])
        else:
            decisions = numpy.array([self.params["decn"], self.params["alt"]])
        if mo:
            def pref(mat, **kw):
                return mat[:, 0] - mat[:, 1]
            algo = _stub_algo(enc, decisions, inp["front"])
            prot = Prot(ntrait=2, unscale=True, ncross=ncross, nparent=nparent, nmating=1, nprogeny=1, nobj=2, ndset_wt=float(self.params.get("ndwt", 1.0)),
                        ndset_trans=pref, ndset_trans_kwargs={}, moalgo=algo, rng=inp["rng"])
        else:
            algo = _stub_algo(enc, decisions[:1], inp["raw"][:1, :1] * 0.0)
            prot = Prot(ntrait=1, unscale=True, ncross=ncross, nparent=nparent, nmating=1, nprogeny=1, nobj=1, obj_trans=T.trans_sum, soalgo=algo, rng=inp["rng"])
        bv = DenseBreedingValueMatrix(mat=inp["raw"].copy(), location=0.0, scale=1.0, taxa=numpy.array(["t%d" % i for i in range(n)], dtype=object), taxa_grp=numpy.arange(n))
        cfg = prot.select(pgmat=_pgmat(n), gmat=None, ptdf=None, bvmat=bv, gpmod=None, t_cur=0, t_max=1)
        prob = algo.seen[0]
        return dict(xc=cfg.xconfig, decn=cfg.xconfig_decn, ndecn=prob.ndecn, nobj=prob.nobj, nsolve=len(algo.seen))

    def check(self, P, inp, out):
        n, enc, mo = self.params["n"], self.params["enc"], bool(self.params.get("mo"))
        ncross, nparent = self.params["ncross"], self.params["nparent"]
        N = ncross * nparent
        P.prove(out["nsolve"] == 1 and int(out["nobj"]) == (2 if mo else 1), "one-optimisation-of-the-declared-problem")
        if enc == "Real":
            cand = [list(cells(inp["x"])), [1.0 / n] * n]
        else:
            cand = [[int(v) for v in self.params["decn"]], [int(v) for v in self.params["alt"]]]
        got = list(cells(out["decn"]))
        if mo:
            sc = [float(self.params.get("ndwt", 1.0)) * (cell(inp["front"], i, 0) - cell(inp["front"], i, 1)) for i in range(2)]
            # some front member both equals the configuration's decision vector and maximises the score (members may coincide)
            alts = []
            for i in range(2):
                same = And(*[P.eq(a, b) for a, b in zip(got, cand[i])]) if enc == "Real" else ([int(v) for v in got] == cand[i])
                alts.append(And(same, *[sc[i] >= s_ for s_ in sc]))
            P.prove(Or(*alts), "configuration-derived-from-the-front-member-maximising-the-declared-preference-transformation")
            if enc == "Real":
                chosen = got
            else:
                if [int(v) for v in got] not in cand:
                    return
                chosen = [int(v) for v in got]
        else:
            chosen = cand[0]
            P.prove(And(*[P.eq(a, b) for a, b in zip(got, chosen)]) if enc == "Real" else ([int(v) for v in got] == chosen), "configuration-built-from-the-optimiser's-solution")
        xc = out["xc"]
        t = numpy.array([[int(v) for v in cells(r)] for r in xc])
        cnt = Counter(int(v) for v in t.ravel())
        if enc == "Subset":
            lo, hi = N // len(chosen), -(-N // len(chosen))
            c2 = Counter(chosen)
            check_config(P, t, ncross, nparent, {m: (lo * c2[m], hi * c2[m]) for m in set(chosen)}, "subset")
        elif enc in ("Integer", "Binary"):
            W = sum(chosen)
            lo, hi = N // W, -(-N // W)
            check_config(P, t, ncross, nparent, {i: (lo * chosen[i], hi * chosen[i]) for i in range(n) if chosen[i] > 0}, enc.lower())
        else:
            W = sum(chosen[1:], chosen[0])
            for i in range(n):
                c = cnt.get(i, 0)
                P.prove(And(W * (c - 1) < N * chosen[i], N * chosen[i] < W * (c + 1)), "real:multiplicity-within-one-of-the-proportional-share")
            check_config(P, t, ncross, nparent, {m: (0, N) for m in range(n)}, "real")


def sorted_vals(P, raw, idx):
    return [cell(raw, i, 0) for i in idx]


def ties_possible(raw, a, b):
    """two different selections are both maximisers only if the swapped members have equal values"""
    da = [i for i in a if i not in b]
    db = [i for i in b if i not in a]
    if len(da) != len(db):
        return False
    conds = []
    for perm in itertools.permutations(db):
        conds.append(And(*[cell(raw, i, 0) == cell(raw, j, 0) for i, j in zip(da, perm)]))
    return Or(*conds) if conds else True


def obligations(tier):
    obs = []
    cfgs = [("subset", 4, [2, 0], 1, 2), ("subset", 4, [3, 1], 2, 2), ("subset", 4, [0, 1, 2], 2, 2), ("integer", 3, [2, 0, 1], 2, 2), ("integer", 3, [1, 1, 0], 2, 2),
            ("binary", 3, [1, 0, 1], 2, 2), ("binary", 4, [1, 1, 1, 0], 2, 2), ("real", 2, None, 1, 2), ("real", 2, None, 2, 2), ("mate", 4, [5, 0], 2, 2), ("mate", 4, [1, 2, 3], 2, 2)]
    if tier == "thorough":
        cfgs += [ ("subset", 4, [1, 3], 3, 2), ("integer", 4, [1, 0, 2, 1], 2, 2), ("binary", 4, [0, 1, 1, 1], 3, 2), ("real", 3, None, 1, 2),
                 ("mate", 4, [0, 3], 3, 3), ("subset", 4, [2], 2, 2), ("integer", 3, [0, 3, 0], 2, 2)]
    for kind, n, decn, ncross, nparent in cfgs:
        h = ConfigSampling(kind=kind, n=n, decn=decn, ncross=ncross, nparent=nparent)
        h.weight = 50 * ncross * nparent
        h.budget_s = 1200
        obs.append(h)
    obs.append(ConfigSampling(kind="mate", n=4, decn=[0, 4], ncross=2, nparent=2, unique=False))
    # three parents per cross with a repeated member, and a remainder of two in the tiling
    obs.append(ConfigSampling(kind="subset", n=4, decn=[0, 1], ncross=1, nparent=3))
    obs.append(ConfigSampling(kind="subset", n=4, decn=[0, 1, 2], ncross=1, nparent=5))
    obs.append(ConfigSampling(kind="integer", n=3, decn=[2, 1, 0], ncross=2, nparent=3))
    obs.append(ConfigSampling(kind="subset", n=4, decn=[0, 1, 2], ncross=2, nparent=3))
    # enumerated start arrangements of the tiled pool (the first shuffle applies the given permutation): repeats that are not adjacent
    starts = [[0, 1, 3, 2, 4, 5]] if tier == "quick" else [list(p) for p in itertools.permutations(range(6)) if p[0] == 0][::4]
    for st in starts:
        obs.append(ConfigSampling(kind="subset", n=4, decn=[0, 1, 2], ncross=2, nparent=3, start=st))
    # more crosses than parents per cross (4x2), two individuals used four times each, from a start with two selfed crosses
    h = ConfigSampling(kind="integer", n=3, decn=[4, 4, 0], ncross=4, nparent=2, start=[0, 4, 5, 1, 2, 3, 6, 7], symbolic_shuffles=2)
    h.budget_s = 1200
    obs.append(h)
    # three parents per cross drawn from the cross map of unique triples
    obs.append(ConfigSampling(kind="mate", n=4, decn=[0, 3], ncross=2, nparent=3))
    # exactly one full set of the chosen subset (no remainder): the decision vector must come back untouched
    obs.append(ConfigSampling(kind="subset", n=4, decn=[2, 0, 3, 1], ncross=2, nparent=2))
    for n, ncross, nparent, perm in ([(3, 1, 2, [2, 0, 1])] if tier == "quick" else [(3, 1, 2, [2, 0, 1]), (3, 1, 2, [1, 2, 0]), (4, 1, 2, [3, 1, 0, 2])]):
        h = Select(n=n, ncross=ncross, nparent=nparent, perm=perm)
        h.weight = 2000 if n == 4 else 200
        h.budget_s = 1200 if n < 4 else 6000
        obs.append(h)
    for w in (1.0, -2.0):
        obs.append(Select(n=3, ncross=1, nparent=2, mo=True, t=2, front_decn=[[0, 1], [1, 2]], ndwt=w))
    enc_cases = [("Subset", dict(decn=[2, 0], alt=[1, 2])), ("Integer", dict(decn=[2, 0, 1], alt=[1, 1, 1])), ("Binary", dict(decn=[1, 0, 1], alt=[0, 1, 1])), ("Real", dict())]
    for enc, extra in enc_cases:
        obs.append(SelectEncodings(enc=enc, n=3, ncross=1, nparent=2, **extra))
        for w in (1.0, -1.0):
            obs.append(SelectEncodings(enc=enc, n=3, ncross=1, nparent=2, mo=True, ndwt=w, **extra))
        if tier == "thorough" and enc in ("Integer", "Binary"):
            # (Subset would need four candidates for four slots; the Real 2x2 case exceeds the path budget)
            obs.append(SelectEncodings(enc=enc, n=3, ncross=2, nparent=2, **extra))
    return obs


def replay_known(f):
    raise NotImplementedError
