"""C11 Genetic maps and map functions obey their defining laws"""
import itertools

import numpy

from ..harness import Harness, And, Or, Not, Implies, Ite, cells, cell, is_nan
from .. import sym, symnp, stubs, compat
from ..sym import SV

PROPERTY = "C11"
ASSUMPTIONS = [
    "genetic distances/positions are reals >= 0; physical positions are integers, pairwise distinct within a chromosome (duplicated physical positions excluded); every chromosome of a map has at least two markers",
    "exp/log and tanh/arctanh are uninterpreted functions with positivity/monotonicity/inverse/oddness axioms instantiated on the applied arguments",
    "scipy interp1d(kind='linear', fill_value='extrapolate') is replaced by a piecewise-linear model (validated against scipy on path models)",
]
STUBS = ["numpy.exp/log/tanh/arctanh (axiomatised)", "scipy.interpolate.interp1d (piecewise-linear model, vf/stubs.py)"]
BOUNDS = {"quick": dict(map="<=2 chromosomes x <=3 markers, every row order of the smaller layouts", queries="<=3 query markers incl. one on an absent chromosome"),
          "thorough": dict(map="layouts (2),(3),(2,2),(3,2),(2,3),(4)", queries="<=4")}
OUTSIDE = ["floating-point accuracy of exp/log/tanh", "spline kinds other than linear/extrapolate", "maps with more markers than the bounds"]

SGM = "pybrops.popgen.gmap.StandardGeneticMap"
EGM = "pybrops.popgen.gmap.ExtendedGeneticMap"
HALD = "pybrops.popgen.gmap.HaldaneMapFunction"
KOS = "pybrops.popgen.gmap.KosambiMapFunction"
PGM = "pybrops.popgen.gmat.DensePhasedGenotypeMatrix"


def _mapfn(kind):
    if kind == "haldane":
        from pybrops.popgen.gmap.HaldaneMapFunction import HaldaneMapFunction
        return HaldaneMapFunction()
    from pybrops.popgen.gmap.KosambiMapFunction import KosambiMapFunction
    return KosambiMapFunction()


def _ref_mapfn(kind, d):
    """defining formulas"""
    if kind == "haldane":
        return 0.5 * (1.0 - sym.sv_exp(-2.0 * d))
    return 0.5 * sym.sv_tanh(2.0 * d)


class MapFnLaws(Harness):
    name = "map-function-laws"
    validate_compare = False

    def modules(self):
        return [HALD, KOS]

    def inputs(self, mk):
        return dict(d=mk.real("d", (2,), lo=0))

    def call(self, inp, mk):
        f = _mapfn(self.params["kind"])
        d = inp["d"]
        r = f.mapfn(d)
        back = f.invmapfn(r)
        special = f.mapfn(numpy.array([0.0, numpy.inf]))
        return dict(r=r, back=back, special=special)

    def check(self, P, inp, out):
        kind = self.params["kind"]
        d, r, back = cells(inp["d"]), cells(out["r"]), cells(out["back"])
        for i in range(2):
            P.prove(And(r[i] >= 0, P.le(r[i], 0.5)), "range-[0,1/2]")
            P.prove(P.eq(r[i], _ref_mapfn(kind, d[i])), "equals-defining-formula")
            P.prove(P.eq(back[i], d[i], 1e-6), "inverse-undoes-mapfn")
            P.prove(Implies(d[i] == 0, r[i] == 0) if not P.concrete else (d[i] != 0 or r[i] == 0), "zero-distance->zero")
        P.prove(Implies(d[0] <= d[1], P.le(r[0], r[1])), "monotone")
        P.prove(Implies(d[0] < d[1], r[0] < r[1]) if not P.concrete else True, "strictly-increasing")
        sp = cells(out["special"])
        P.prove(sp[0] == 0.0 and sp[1] == 0.5, "mapfn(0)=0,mapfn(inf)=1/2", detail="%s" % (sp,))


def _rows(mk, sizes, congruent):
    """map rows: concrete chromosome labels, symbolic physical (distinct per chromosome) and genetic positions"""
    n = sum(sizes)
    chr_ = numpy.concatenate([numpy.full(s, c + 1, dtype="int64") for c, s in enumerate(sizes)])
    phy = mk.int("p", (n,), lo=1, hi=40)
    gen = mk.real("g", (n,), lo=0)
    if not mk.concrete:
        # observability preference for counterexample models: pairwise different, non-collinear genetic positions
        gs = [c.e for c in cells(gen)]
        import z3
        pref = [z3.Distinct(*gs)] if len(gs) > 1 else []
        for a in range(len(gs) - 2):
            pref.append(gs[a + 2] - gs[a + 1] != gs[a + 1] - gs[a])
        sym.ctx().prefer = list(sym.ctx().prefer) + [z3.And(*pref)] if pref else list(sym.ctx().prefer)
    k = 0
    for s in sizes:
        idx = list(range(k, k + s))
        for a, b in itertools.combinations(idx, 2):
            mk.assume(cell(phy, a) != cell(phy, b))
            if congruent:
                # genetic order agrees with physical order
                mk.assume(Implies(cell(phy, a) < cell(phy, b), cell(gen, a) <= cell(gen, b)))
                mk.assume(Implies(cell(phy, b) < cell(phy, a), cell(gen, b) <= cell(gen, a)))
        k += s
    return chr_, phy, gen


def _build(cls, chr_, phy, gen, perm, auto_group=True):
    perm = list(perm)
    if cls == "standard":
        from pybrops.popgen.gmap.StandardGeneticMap import StandardGeneticMap
        return StandardGeneticMap(vrnt_chrgrp=chr_[perm], vrnt_phypos=phy[perm], vrnt_genpos=gen[perm], auto_group=auto_group)
    from pybrops.popgen.gmap.ExtendedGeneticMap import ExtendedGeneticMap
    return ExtendedGeneticMap(vrnt_chrgrp=chr_[perm], vrnt_phypos=phy[perm], vrnt_stop=phy[perm], vrnt_genpos=gen[perm], auto_group=auto_group)


class UngroupedInterp(Harness):
    """a map built with auto_group=False from rows in arbitrary order interpolates exactly like the sorted map"""
    name = "genetic-map-ungrouped-interpolation"

    def modules(self):
        return [SGM, EGM]

    def inputs(self, mk):
        chr_, phy, gen = _rows(mk, self.params["sizes"], True)
        return dict(chr=chr_, phy=phy, gen=gen, q=mk.int("q", (), lo=0, hi=41))

    def call(self, inp, mk):
        import warnings
        cls = self.params["cls"]
        perm = self.params["perm"]
        gm = _build(cls, inp["chr"], inp["phy"], inp["gen"], perm, auto_group=False)
        q = inp["q"]
        qc = numpy.array([1, 99], dtype="int64")
        qp = symnp.SymArray(symnp.mkobj([q, q]), "int64") if isinstance(q, SV) else numpy.array([q, q], dtype="int64")
        with warnings.catch_warnings():
            warnings.simplefilter("ignore")
            own = gm.interp_genpos(inp["chr"], inp["phy"])
            qi = gm.interp_genpos(qc, qp)
        return dict(own=own, qi=qi)

    def check(self, P, inp, out):
        n = sum(self.params["sizes"])
        for i in range(n):
            P.prove(P.eq(cell(out["own"], i), cell(inp["gen"], i)), "interpolation-at-own-markers-returns-stored-positions (any row order, ungrouped map)")
        P.prove(is_nan(cell(out["qi"], 1)), "absent-chromosome-reported-missing")
        qv, q = cell(out["qi"], 0), inp["q"]
        idx = [i for i in range(n) if int(inp["chr"][i]) == 1]
        for i in idx:
            for k in idx:
                if i == k:
                    continue
                x0, x1, y0, y1 = cell(inp["phy"], i), cell(inp["phy"], k), cell(inp["gen"], i), cell(inp["gen"], k)
                none_between = And(*[Not(And(x0 < cell(inp["phy"], j), cell(inp["phy"], j) < x1)) for j in idx if j not in (i, k)])
                flank = And(x0 <= q, q <= x1, x0 < x1, none_between)
                P.prove(Implies(flank, P.eq((qv - y0) * (x1 - x0), (q - x0) * (y1 - y0), 1e-6)), "interpolation-linear-between-flanking-markers (any row order)")


class MapLaws(Harness):
    name = "genetic-map-laws"

    def modules(self):
        return [SGM, EGM]

    def inputs(self, mk):
        sizes = self.params["sizes"]
        chr_, phy, gen = _rows(mk, sizes, self.params.get("congruent", True))
        q = mk.int("q", (), lo=0, hi=41)
        return dict(chr=chr_, phy=phy, gen=gen, q=q)

    def call(self, inp, mk):
        sizes, cls = self.params["sizes"], self.params["cls"]
        n = sum(sizes)
        gm = _build(cls, inp["chr"], inp["phy"], inp["gen"], self.params["perm"])
        out = dict(chr=numpy.array(gm.vrnt_chrgrp), phy=gm.vrnt_phypos, gen=gm.vrnt_genpos, grouped=gm.is_grouped(),
                   name=numpy.array(gm.vrnt_chrgrp_name), stix=numpy.array(gm.vrnt_chrgrp_stix), spix=numpy.array(gm.vrnt_chrgrp_spix),
                   ln=numpy.array(gm.vrnt_chrgrp_len))
        out["d1"] = gm.gdist1g(gm.vrnt_chrgrp, gm.vrnt_genpos)
        out["d2"] = gm.gdist2g(gm.vrnt_chrgrp, gm.vrnt_genpos)
        # windows of the pairwise matrix: rows rst:rsp against columns cst:csp (different windows, overlapping and disjoint)
        wins = [(0, max(1, n // 2), n // 2, n), (1 if n > 1 else 0, n, 0, max(1, n - 1))]
        out["wins"] = wins
        out["d2w"] = [gm.gdist2g(gm.vrnt_chrgrp, gm.vrnt_genpos, rst=a, rsp=b, cst=c, csp=d) for (a, b, c, d) in wins]
        out["own"] = gm.interp_genpos(gm.vrnt_chrgrp, gm.vrnt_phypos)
        # the same markers queried in an order that interleaves the chromosomes (and an absent chromosome in between)
        order = []
        lo, hi = 0, n - 1
        while lo <= hi:
            order.append(hi)
            if lo != hi:
                order.append(lo)
            lo, hi = lo + 1, hi - 1
        order = numpy.array(order)
        # ... with two consecutive markers of an absent chromosome right after a present one
        qc2 = numpy.concatenate([numpy.array(gm.vrnt_chrgrp)[order][:1], [99, 99], numpy.array(gm.vrnt_chrgrp)[order][1:]]).astype("int64")
        ph = gm.vrnt_phypos
        pieces = [ph[order][:1], (symnp.box(numpy.array([7, 9])) if isinstance(ph, symnp.SymArray) else numpy.array([7, 9])), ph[order][1:]]
        qp2 = numpy.concatenate(pieces)
        out["inter"] = gm.interp_genpos(qc2, qp2)
        out["inter_order"] = order
        # query markers: one symbolic position on chromosome 1, one on a chromosome absent from the map
        qc = numpy.array([1, 99], dtype="int64")
        q = inp["q"]
        qp = symnp.SymArray(symnp.mkobj([q, q]), "int64") if isinstance(q, SV) else numpy.array([q, q], dtype="int64")
        out["qi"] = gm.interp_genpos(qc, qp)
        out["d1p"] = gm.gdist1p(gm.vrnt_chrgrp, gm.vrnt_phypos)
        out["d2p"] = gm.gdist2p(gm.vrnt_chrgrp, gm.vrnt_phypos)
        # windows of the sequential distances (array start/stop) and of the pairwise distances from physical positions
        swins = sorted(set([(1 if n > 1 else 0, n), (0, max(1, n - 1)), (1 if n > 2 else 0, max(1, n - 1))]))
        out["swins"] = swins
        out["d1gw"] = [gm.gdist1g(gm.vrnt_chrgrp, gm.vrnt_genpos, ast=a, asp=b) for (a, b) in swins]
        out["d1pw"] = [gm.gdist1p(gm.vrnt_chrgrp, gm.vrnt_phypos, ast=a, asp=b) for (a, b) in swins]
        out["d2pw"] = [gm.gdist2p(gm.vrnt_chrgrp, gm.vrnt_phypos, rst=a, rsp=b, cst=c, csp=d) for (a, b, c, d) in wins]
        if cls == "standard":
            gm2 = gm.interp_gmap(gm.vrnt_chrgrp, gm.vrnt_phypos)
        else:
            gm2 = gm.interp_gmap(gm.vrnt_chrgrp, gm.vrnt_phypos, gm.vrnt_stop)
        out["gm2gen"] = gm2.vrnt_genpos
        return out

    def check(self, P, inp, out):
        sizes = self.params["sizes"]
        n = sum(sizes)
        chr_o, phy_o, gen_o = out["chr"], out["phy"], out["gen"]
        # sorted by (chromosome, physical position) and a row permutation of the input (rows stay attached)
        P.prove(bool(out["grouped"]), "map-is-grouped-after-construction")
        P.prove(all(chr_o[i] <= chr_o[i + 1] for i in range(n - 1)), "rows-sorted-by-chromosome")
        for i in range(n - 1):
            if chr_o[i] == chr_o[i + 1]:
                P.prove(cell(phy_o, i) < cell(phy_o, i + 1), "rows-sorted-by-physical-position-within-chromosome")
        used = []
        for i in range(n):
            cands = [k for k in range(n) if int(inp["chr"][k]) == int(chr_o[i])]
            hit = Or(*[And(P.eq(cell(phy_o, i), cell(inp["phy"], k)), P.eq(cell(gen_o, i), cell(inp["gen"], k))) for k in cands])
            P.prove(hit, "every-output-row-is-an-input-row (positions stay attached)")
        st, sp, ln = out["stix"], out["spix"], out["ln"]
        exp_st = numpy.concatenate([[0], numpy.cumsum(sizes)[:-1]])
        P.prove(list(st) == list(exp_st) and list(sp) == list(numpy.cumsum(sizes)) and list(ln) == list(sizes) and list(out["name"]) == list(range(1, len(sizes) + 1)),
                "group-metadata-is-the-chromosome-partition")
        # pairwise / sequential distances
        d1, d2 = out["d1"], out["d2"]
        for i in range(n):
            P.prove(P.eq(cell(d2, i, i), 0.0), "pairwise-distance-zero-on-diagonal")
            for j in range(n):
                a, b = cell(d2, i, j), cell(d2, j, i)
                P.prove(P.eq(a, b), "pairwise-distance-symmetric")
                if chr_o[i] != chr_o[j]:
                    P.prove(isinstance(a, float) and a == float("inf"), "pairwise-distance-infinite-between-chromosomes")
                else:
                    gi, gj = cell(gen_o, i), cell(gen_o, j)
                    P.prove(P.eq(a, Ite(gi >= gj, gi - gj, gj - gi)), "pairwise-distance=|gi-gj|")
        for i in range(n):
            if i in st:
                P.prove(cell(d1, i) == float("inf"), "sequential-distance-infinite-at-chromosome-start")
            else:
                P.prove(P.eq(cell(d1, i), cell(gen_o, i) - cell(gen_o, i - 1)), "sequential-distance=first-difference")
                if self.params.get("congruent", True):
                    P.prove(P.eq(cell(d1, i), cell(d2, i - 1, i)), "sequential-distance=superdiagonal-of-pairwise")
        if self.params.get("congruent", True):
            for i, j, k in itertools.combinations(range(n), 3):
                if chr_o[i] == chr_o[j] == chr_o[k]:
                    P.prove(P.eq(cell(d2, i, k), cell(d2, i, j) + cell(d2, j, k)), "pairwise-distance-additive-for-ordered-markers")
        for (a, b, c, d), w in zip(out["wins"], out["d2w"]):
            P.prove(tuple(w.shape) == (b - a, d - c), "pairwise-window-shape", detail="%s for window %s" % (tuple(w.shape), (a, b, c, d)))
            if tuple(w.shape) != (b - a, d - c):
                continue
            for i in range(b - a):
                for j in range(d - c):
                    x, y = cell(w, i, j), cell(d2, a + i, c + j)
                    P.prove((x == y) if (isinstance(x, float) and isinstance(y, float)) else P.eq(x, y), "pairwise-window=block-of-the-full-matrix", detail="window %s cell (%d,%d)" % ((a, b, c, d), i, j))
        for (a, b, c, d), w in zip(out["wins"], out["d2pw"]):
            P.prove(tuple(w.shape) == (b - a, d - c), "pairwise-from-physical-window-shape", detail="%s for window %s" % (tuple(w.shape), (a, b, c, d)))
            if tuple(w.shape) != (b - a, d - c):
                continue
            for i in range(b - a):
                for j in range(d - c):
                    x, y = cell(w, i, j), cell(d2, a + i, c + j)
                    P.prove((x == y) if (isinstance(x, float) and isinstance(y, float)) else P.eq(x, y), "pairwise-from-physical-window=block-of-the-full-matrix", detail="window %s cell (%d,%d)" % ((a, b, c, d), i, j))
        for which in ("d1gw", "d1pw"):
            for (a, b), w in zip(out["swins"], out[which]):
                lab = "sequential-window" + ("-from-physical" if which == "d1pw" else "")
                P.prove(tuple(w.shape) == (b - a,), lab + "-shape", detail="%s for window %s" % (tuple(w.shape), (a, b)))
                if tuple(w.shape) != (b - a,):
                    continue
                for k in range(b - a):
                    x = cell(w, k)
                    if k == 0 or (a + k) in st:
                        P.prove(isinstance(x, float) and x == float("inf"), lab + ": infinite at the window start and at chromosome starts", detail="window %s cell %d = %r" % ((a, b), k, x))
                    else:
                        P.prove(P.eq(x, cell(d1, a + k)), lab + "=slice-of-the-full-array", detail="window %s cell %d" % ((a, b), k))
        # interpolation
        order = [int(k) for k in out["inter_order"]]
        res = list(cells(out["inter"]))
        P.prove(len(res) == n + 2 and is_nan(res[1]) and is_nan(res[2]), "interleaved-query: every marker of an absent chromosome missing, one answer per query",
                detail="%s" % (res[:3],))
        if len(res) == n + 2:
            for pos, k in enumerate(order):
                P.prove(P.eq(res[pos if pos == 0 else pos + 2], cell(gen_o, k)), "interpolation-independent-of-the-order-of-the-queries (interleaved chromosomes)")
        for i in range(n):
            P.prove(P.eq(cell(out["own"], i), cell(gen_o, i)), "interpolation-at-own-markers-returns-stored-positions")
            P.prove(P.eq(cell(out["gm2gen"], i), cell(gen_o, i)), "interp_gmap-at-own-markers-reproduces-the-map")
            P.prove(P.eq(cell(out["d1p"], i), cell(d1, i)) if not (i in st) else cell(out["d1p"], i) == float("inf"), "gdist1p=gdist1g-of-interpolated")
            for j in range(n):
                P.prove(P.eq(cell(out["d2p"], i, j), cell(d2, i, j)), "gdist2p=gdist2g-of-interpolated")
        qv = cell(out["qi"], 0)
        P.prove(is_nan(cell(out["qi"], 1)), "absent-chromosome-reported-missing")
        q = inp["q"]
        a0, b0 = int(st[0]), int(sp[0])
        for i in range(a0, b0 - 1):
            x0, x1, y0, y1 = cell(phy_o, i), cell(phy_o, i + 1), cell(gen_o, i), cell(gen_o, i + 1)
            inside = And(x0 <= q, q <= x1)
            # linear between flanking markers: (qv - y0)(x1 - x0) = (q - x0)(y1 - y0)
            P.prove(Implies(inside, P.eq((qv - y0) * (x1 - x0), (q - x0) * (y1 - y0), 1e-6)), "interpolation-linear-between-flanking-markers")
            if self.params.get("congruent", True):
                P.prove(Implies(inside, And(P.le(y0, qv), P.le(qv, y1))), "interpolation-order-preserving-for-congruent-maps")


class RowOrderInvariance(Harness):
    """two different row orders of the same map give the same interpolation and distances"""
    name = "genetic-map-row-order-invariance"

    def modules(self):
        return [SGM, EGM]

    def inputs(self, mk):
        chr_, phy, gen = _rows(mk, self.params["sizes"], True)
        return dict(chr=chr_, phy=phy, gen=gen, q=mk.int("q", (), lo=0, hi=41))

    def call(self, inp, mk):
        cls = self.params["cls"]
        n = sum(self.params["sizes"])
        q = inp["q"]
        res = []
        for perm in (list(range(n)), self.params["perm"]):
            gm = _build(cls, inp["chr"], inp["phy"], inp["gen"], perm)
            qc = numpy.array([1], dtype="int64")
            qp = symnp.SymArray(symnp.mkobj([q]), "int64") if isinstance(q, SV) else numpy.array([q], dtype="int64")
            res.append(dict(phy=gm.vrnt_phypos, gen=gm.vrnt_genpos, qi=gm.interp_genpos(qc, qp),
                            d2=gm.gdist2g(gm.vrnt_chrgrp, gm.vrnt_genpos)))
        return dict(a=res[0], b=res[1])

    def check(self, P, inp, out):
        for k in ("phy", "gen", "qi", "d2"):
            for x, y in zip(cells(out["a"][k]), cells(out["b"][k])):
                P.prove(P.eq(x, y), "independent-of-row-order:" + k)


class XoProb(Harness):
    """crossover probabilities assigned to a genotype matrix = mapfn(consecutive interpolated distance), 1/2 at chromosome starts"""
    name = "interp_xoprob"
    validate_compare = False

    def modules(self):
        return [SGM, HALD, KOS, PGM]

    def inputs(self, mk):
        sizes = self.params["sizes"]
        chr_, phy, gen = _rows(mk, sizes, True)
        msizes = self.params["msizes"]
        nm = sum(msizes)
        mphy = mk.int("mp", (nm,), lo=0, hi=41)
        stale = mk.real("old", (nm,), lo=0)
        k = 0
        for s in msizes:
            for i in range(k, k + s - 1):
                mk.assume(cell(mphy, i) < cell(mphy, i + 1))      # grouped/sorted genotype matrix (API precondition)
            k += s
        return dict(chr=chr_, phy=phy, gen=gen, mphy=mphy, stale=stale)

    def call(self, inp, mk):
        from pybrops.popgen.gmat.DensePhasedGenotypeMatrix import DensePhasedGenotypeMatrix
        sizes, msizes = self.params["sizes"], self.params["msizes"]
        gm = _build("standard", inp["chr"], inp["phy"], inp["gen"], list(range(sum(sizes))))
        nm = sum(msizes)
        mchr = numpy.concatenate([numpy.full(s, c + 1, dtype="int64") for c, s in enumerate(msizes)])
        kw = dict(vrnt_genpos=inp["stale"], vrnt_xoprob=inp["stale"] * 0.0 + 0.25) if self.params.get("stale") else {}
        pg = DensePhasedGenotypeMatrix(mat=numpy.zeros((2, 1, nm), dtype="int8"), vrnt_chrgrp=mchr, vrnt_phypos=inp["mphy"], **kw)
        st = numpy.concatenate([[0], numpy.cumsum(msizes)[:-1]])
        pg.vrnt_chrgrp_name = numpy.arange(len(msizes)) + 1
        pg.vrnt_chrgrp_stix = st
        pg.vrnt_chrgrp_spix = numpy.cumsum(msizes)
        pg.vrnt_chrgrp_len = numpy.array(msizes)
        pg.interp_xoprob(gm, _mapfn(self.params["kind"]))
        ref = gm.interp_genpos(mchr, inp["mphy"])
        return dict(xo=pg.vrnt_xoprob, gp=pg.vrnt_genpos, ref=ref, st=st)

    def check(self, P, inp, out):
        kind = self.params["kind"]
        nm = sum(self.params["msizes"])
        xo, gp, ref = out["xo"], out["gp"], out["ref"]
        for j in range(nm):
            P.prove(P.eq(cell(gp, j), cell(ref, j)), "vrnt_genpos=interpolated-position")
            if j in out["st"]:
                P.prove(cell(xo, j) == 0.5, "xoprob=1/2-at-chromosome-start", detail="%r" % (cell(xo, j),))
            else:
                d = cell(ref, j) - cell(ref, j - 1)
                P.prove(P.eq(cell(xo, j), _ref_mapfn(kind, d), 1e-7), "xoprob=mapfn(consecutive-distance)")


def obligations(tier):
    obs = []
    for kind in ("haldane", "kosambi"):
        obs.append(MapFnLaws(kind=kind))
    if tier == "quick":
        layouts = [((2,), "all"), ((3,), [[2, 0, 1], [1, 2, 0]]), ((2, 2), [[3, 1, 2, 0]])]
    else:
        layouts = [((2,), "all"), ((3,), "all"), ((2, 2), [[3, 1, 2, 0], [2, 0, 3, 1], [1, 0, 3, 2]]), ((3, 2), [[4, 2, 0, 3, 1]]), ((2, 3), [[4, 0, 3, 1, 2]]), ((4,), [[3, 1, 0, 2]])]
    for cls in ("standard", "extended"):
        for sizes, perms in layouts:
            n = sum(sizes)
            ps = list(itertools.permutations(range(n))) if perms == "all" else perms
            for perm in ps:
                h = MapLaws(cls=cls, sizes=list(sizes), perm=list(perm))
                h.weight = 3 ** n
                obs.append(h)
            h = MapLaws(cls=cls, sizes=list(sizes), perm=list(range(n)), congruent=False)
            h.weight = 3 ** n
            obs.append(h)
            for perm in ps[-1:]:
                obs.append(RowOrderInvariance(cls=cls, sizes=list(sizes), perm=list(perm)))
    for cls in ("standard", "extended"):
        for sizes, perm in ([((2,), [1, 0]), ((3,), [2, 0, 1]), ((2, 2), [3, 0, 2, 1])] if tier == "quick" else
                            [((2,), [1, 0]), ((3,), [2, 0, 1]), ((3,), [1, 2, 0]), ((3,), [0, 2, 1]), ((2, 2), [3, 0, 2, 1]), ((4,), [2, 0, 3, 1]), ((3, 2), [4, 2, 0, 3, 1])]):
            h = UngroupedInterp(cls=cls, sizes=list(sizes), perm=perm)
            h.weight = 3 ** sum(sizes)
            obs.append(h)
    for kind in ("haldane", "kosambi"):
        obs.append(XoProb(kind=kind, sizes=[2], msizes=[2], stale=True))
        obs.append(XoProb(kind=kind, sizes=[2], msizes=[2]))
        obs.append(XoProb(kind=kind, sizes=[2, 2], msizes=[2, 1]))
        # marker panel with the map's marker count but another layout over the chromosomes
        obs.append(XoProb(kind=kind, sizes=[2, 2], msizes=[3, 1]))
        if tier == "thorough":
            obs.append(XoProb(kind=kind, sizes=[2, 2], msizes=[1, 3]))
            obs.append(XoProb(kind=kind, sizes=[3, 2], msizes=[2, 2]))
            obs.append(XoProb(kind=kind, sizes=[3], msizes=[3]))
    return obs


def replay_known(f):
    raise NotImplementedError
