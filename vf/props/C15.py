"""C15 Breeding-value matrices round-trip through scaling without loss"""
import itertools

import numpy

from ..harness import Harness, And, Or, Not, Implies, Ite, cells, cell, is_nan
from .. import sym, symnp, compat
from ..sym import SV

PROPERTY = "C15"
ASSUMPTIONS = [
    "raw values are arbitrary reals; missing values are concrete NaN cells at enumerated positions (at most one per column, never a whole column)",
    "'to rounding error' is decided as exact equality over the reals; numpy.sqrt (inside nanstd) by contract y>=0, y*y=x",
    "extrema (tmax/tmin/trange/targ*) are claimed for columns without missing values (NaN policy of extrema is not specified by the property)",
]
STUBS = ["numpy.sqrt inside nanstd/std (contract)"]
BOUNDS = {"quick": dict(taxa="<=3", traits="<=2", ops="one structural operation"), "thorough": dict(taxa="<=4", traits="<=2", ops="one or two structural operations")}
OUTSIDE = ["floating-point cancellation for large offsets (exact reals)", "more taxa/traits than the bounds"]

BV = "pybrops.popgen.bvmat.DenseBreedingValueMatrix"
EBV = "pybrops.popgen.bvmat.DenseEstimatedBreedingValueMatrix"
GEBV = "pybrops.popgen.bvmat.DenseGenomicEstimatedBreedingValueMatrix"
SCALED = "pybrops.core.mat.DenseScaledMatrix"

KNOWN_CONST = "C15-constant-trait-unit-scale-reported-as-spread"
KNOWN_CONCAT = "C15-concat/append-ignore-location-and-scale"
KNOWN_SUBCONCAT = "C15-ebv-gebv-concat_taxa-raises"


def _cls(name):
    import importlib
    mod = {"bv": BV, "ebv": EBV, "gebv": GEBV}[name]
    return getattr(importlib.import_module(mod), mod.rsplit(".", 1)[1])


def _raw(mk, name, n, t, nanpos=()):
    R = mk.real(name, (n, t))
    if nanpos:
        if isinstance(R, symnp.SymArray):
            r = symnp.raw(R)
            for (i, j) in nanpos:
                r[i, j] = float("nan")
        else:
            for (i, j) in nanpos:
                R[i, j] = numpy.nan
    return R


def _labels(n, off=0):
    return numpy.array(["t%d" % (i + off) for i in range(n)], dtype=object), numpy.arange(n) + off


def _col(R, j, rows=None):
    n = R.shape[0]
    return [cell(R, i, j) for i in (rows if rows is not None else range(n))]


def _stats(col):
    """nan-ignoring mean/var of a list of cells"""
    v = [c for c in col if not is_nan(c)]
    n = len(v)
    tot = 0.0
    for c in v:
        tot = tot + c
    mean = tot / n
    ss = 0.0
    for c in v:
        ss = ss + (c - mean) * (c - mean)
    return mean, ss / n, v


class RoundTrip(Harness):
    name = "from_numpy-unscale-summaries"

    def modules(self):
        return [BV, EBV, GEBV]

    def inputs(self, mk):
        n, t = self.params["n"], self.params["t"]
        return dict(R=_raw(mk, "r", n, t, [tuple(p) for p in self.params.get("nan", [])]))

    def call(self, inp, mk):
        n, t = self.params["n"], self.params["t"]
        C = _cls(self.params["cls"])
        taxa, grp = _labels(n)
        R = inp["R"]
        bv = C.from_numpy(mat=R.copy(), taxa=taxa, taxa_grp=grp, trait=numpy.array(["y%d" % j for j in range(t)], dtype=object))
        out = dict(un=bv.unscale(), loc=bv.location, scale=bv.scale, mat=bv.mat, taxa=numpy.array(bv.taxa), trait=numpy.array(bv.trait))
        for s in ("tmax", "tmin", "tmean", "trange", "tstd", "tvar"):
            out[s] = getattr(bv, s)(unscale=True)
        out["targmax"] = bv.targmax()
        out["targmin"] = bv.targmin()
        return out

    def check(self, P, inp, out):
        n, t = self.params["n"], self.params["t"]
        R = inp["R"]
        nan = set(tuple(p) for p in self.params.get("nan", []))
        active = getattr(self, "active_known", ())
        for i in range(n):
            for j in range(t):
                u, r = cell(out["un"], i, j), cell(R, i, j)
                if (i, j) in nan:
                    P.prove(is_nan(u), "missing-stays-missing")
                else:
                    P.prove(not is_nan(u), "missing-does-not-contaminate-other-entries")
                    P.prove(P.eq(u, r), "unscale-reproduces-raw-values")
        for j in range(t):
            mean, var, v = _stats(_col(R, j))
            const = And(*[P.eq(c, v[0]) for c in v[1:]]) if len(v) > 1 else True
            P.prove(P.eq(cell(out["tmean"], j), mean), "tmean(unscale)=mean-of-raw")
            sd = cell(out["tstd"], j)
            tv = cell(out["tvar"], j)
            spread_ok = And(P.eq(sym.square_of(sd) if not P.concrete else sd * sd, var, 1e-7), sd >= 0) if not P.concrete else P.eq(sd * sd, var, 1e-7)
            var_ok = P.eq(tv, var, 1e-7)
            if KNOWN_CONST in active:
                # known finding: constant trait -> stored unit scale is reported as the spread
                P.prove(Or(const, And(spread_ok, var_ok)), "tstd/tvar(unscale)=std/var-of-raw (non-constant traits; constant traits are a known finding)")
            else:
                P.prove(spread_ok, "tstd(unscale)=std-of-raw")
                P.prove(var_ok, "tvar(unscale)=var-of-raw")
            # stored representation: centred, unit scale (constant traits: unit divisor)
            P.prove(P.eq(cell(out["loc"], j), mean), "location=nanmean")
            if not any((i, j) in nan for i in range(n)):
                mx, mn = v[0], v[0]
                for c in v[1:]:
                    mx = sym.sv_max(mx, c)
                    mn = sym.sv_min(mn, c)
                P.prove(P.eq(cell(out["tmax"], j), mx), "tmax(unscale)=max-of-raw")
                P.prove(P.eq(cell(out["tmin"], j), mn), "tmin(unscale)=min-of-raw")
                P.prove(P.eq(cell(out["trange"], j), mx - mn), "trange(unscale)=range-of-raw")
                am, an = int(cell(out["targmax"], j)), int(cell(out["targmin"], j))
                P.prove(And(*[v[am] >= c for c in v]), "targmax-points-at-a-maximum-of-raw")
                P.prove(And(*[v[an] <= c for c in v]), "targmin-points-at-a-minimum-of-raw")
        P.prove(list(out["taxa"]) == list(_labels(n)[0]), "taxa-labels-kept")


OPS = ["select", "select_dup", "select_neg", "delete", "delete_neg", "delete_mask", "insert_arr", "insert_bv", "adjoin_arr", "adjoin_bv", "concat", "append", "remove", "incorp"]


class StructOps(Harness):
    """taxa-axis operations preserve every retained taxon's raw values and keep summaries truthful"""
    name = "taxa-operations-preserve-raw-values"

    def modules(self):
        return [BV, EBV, GEBV]

    def inputs(self, mk):
        n, t = self.params["n"], self.params["t"]
        return dict(R=_raw(mk, "r", n, t, [tuple(p) for p in self.params.get("nan", [])]), S=_raw(mk, "s", self.params.get("n2", 1), t))

    def _excused(self):
        return KNOWN_SUBCONCAT in getattr(self, "active_known", ()) and self.params["op"] == "concat" and self.params["cls"] in ("ebv", "gebv")

    def call(self, inp, mk):
        n, t, n2 = self.params["n"], self.params["t"], self.params.get("n2", 1)
        op = self.params["op"]
        if self._excused():
            return dict(excused=True)
        C = _cls(self.params["cls"])
        taxa, grp = _labels(n)
        taxa2, grp2 = _labels(n2, 10)
        trait = numpy.array(["y%d" % j for j in range(t)], dtype=object)
        a = C.from_numpy(mat=inp["R"].copy(), taxa=taxa, taxa_grp=grp, trait=trait)
        b = C.from_numpy(mat=inp["S"].copy(), taxa=taxa2, taxa_grp=grp2, trait=trait)
        first = a.tmean(unscale=True)    # query before the edit (caches must not go stale)
        if op == "select":
            o = a.select_taxa([n - 1, 0])
            rows = [("R", n - 1), ("R", 0)]
        elif op == "select_dup":
            o = a.select_taxa([0] * (n - 1) + [n - 1])
            rows = [("R", 0)] * (n - 1) + [("R", n - 1)]
        elif op == "select_neg":
            o = a.select_taxa([-1, 0])
            rows = [("R", n - 1), ("R", 0)]
        elif op == "delete":
            o = a.delete_taxa([0])
            rows = [("R", i) for i in range(1, n)]
        elif op == "delete_neg":
            o = a.delete_taxa(-1)
            rows = [("R", i) for i in range(n - 1)]
        elif op == "delete_mask":
            o = a.delete_taxa(numpy.array([True] + [False] * (n - 1)))
            rows = [("R", i) for i in range(1, n)]
        elif op == "insert_arr":
            o = a.insert_taxa(1, inp["S"].copy(), taxa=taxa2, taxa_grp=grp2)
            rows = [("R", 0)] + [("S", i) for i in range(n2)] + [("R", i) for i in range(1, n)]
        elif op == "insert_bv":
            o = a.insert_taxa(1, b)
            rows = [("R", 0)] + [("S", i) for i in range(n2)] + [("R", i) for i in range(1, n)]
        elif op == "adjoin_arr":
            o = a.adjoin_taxa(inp["S"].copy(), taxa=taxa2, taxa_grp=grp2)
            rows = [("R", i) for i in range(n)] + [("S", i) for i in range(n2)]
        elif op == "adjoin_bv":
            o = a.adjoin_taxa(b)
            rows = [("R", i) for i in range(n)] + [("S", i) for i in range(n2)]
        elif op == "concat":
            o = C.concat_taxa([a, b])
            rows = [("R", i) for i in range(n)] + [("S", i) for i in range(n2)]
        elif op == "append":
            a.append_taxa(b)
            o = a
            rows = [("R", i) for i in range(n)] + [("S", i) for i in range(n2)]
        elif op == "remove":
            a.remove_taxa([0])
            o = a
            rows = [("R", i) for i in range(1, n)]
        elif op == "incorp":
            a.incorp_taxa(1, b)
            o = a
            rows = [("R", 0)] + [("S", i) for i in range(n2)] + [("R", i) for i in range(1, n)]
        else:
            raise KeyError(op)
        return dict(un=o.unscale(), rows=rows, taxa=[str(x) for x in o.taxa], tmean=o.tmean(unscale=True), tvar=o.tvar(unscale=True))

    def check(self, P, inp, out):
        if out.get("excused"):
            P.prove(True, "call-site-covered-by-a-known-finding")
            return
        t = self.params["t"]
        rows = out["rows"]
        un = out["un"]
        P.prove(tuple(un.shape) == (len(rows), t), "result-shape")
        src = dict(R=inp["R"], S=inp["S"])
        names = dict(R=_labels(self.params["n"])[0], S=_labels(self.params.get("n2", 1), 10)[0])
        op = self.params["op"]
        known = KNOWN_CONCAT in getattr(self, "active_known", ())
        skip_values = known and op in ("concat", "append", "incorp")      # raw values not preserved (known finding)
        skip_summ = known and op in ("concat", "append", "incorp", "remove")  # location/scale stale (known finding)
        P.prove(out["taxa"] == [str(names[k][i]) for k, i in rows], "labels-follow-their-rows", detail="%s" % (out["taxa"],))
        for r, (k, i) in enumerate(rows):
            for j in range(t):
                want, got = cell(src[k], i, j), cell(un, r, j)
                if is_nan(want):
                    P.prove(is_nan(got), "missing-stays-missing")
                elif not skip_values:
                    P.prove(not is_nan(got), "missing-does-not-contaminate-other-entries")
                    P.prove(P.eq(got, want), "retained-taxon-keeps-its-raw-value", detail="row %d trait %d" % (r, j))
        for j in range(t):
            if skip_summ:
                continue
            mean, var, v = _stats([cell(src[k], i, j) for k, i in rows])
            P.prove(P.eq(cell(out["tmean"], j), mean), "tmean(unscale)-after-operation=mean-of-current-raw")
            const = And(*[P.eq(c, v[0]) for c in v[1:]]) if len(v) > 1 else True
            okv = P.eq(cell(out["tvar"], j), var, 1e-7)
            if KNOWN_CONST in getattr(self, "active_known", ()):
                P.prove(Or(const, okv), "tvar(unscale)-after-operation=var-of-current-raw (non-constant traits)")
            else:
                P.prove(okv, "tvar(unscale)-after-operation=var-of-current-raw")


class ScaledInPlace(Harness):
    """DenseScaledMatrix.transform/untransform/rescale/unscale"""
    name = "DenseScaledMatrix-transform-roundtrip"

    def modules(self):
        return [SCALED, BV]

    def inputs(self, mk):
        n, t = self.params["n"], self.params["t"]
        return dict(R=_raw(mk, "r", n, t), X=_raw(mk, "x", 2, t))

    def call(self, inp, mk):
        from pybrops.core.mat.DenseScaledMatrix import DenseScaledMatrix
        n, t = self.params["n"], self.params["t"]
        R = inp["R"]

        def fresh():
            # location 0 / scale 1 given explicitly as engine arrays while running symbolically (the default builds plain numpy buffers,
            # which cannot receive symbolic cells should the code write into them in place)
            if mk.concrete:
                return DenseScaledMatrix(mat=R.copy())
            return DenseScaledMatrix(mat=R.copy(), location=symnp.box(numpy.zeros(t)), scale=symnp.box(numpy.ones(t)))
        sm = fresh()
        sm.rescale(inplace=True)                    # centre and scale in place
        X = inp["X"]
        tr = sm.transform(X.copy(), copy=False)
        back = sm.untransform(tr.copy(), copy=True)
        un = sm.unscale(inplace=False)
        # a not-in-place rescale of another (un-standardised) matrix returns the standardised values and leaves the object alone
        # location / scale handed over as integers (0 and 1): an in-place rescale must still store the real-valued mean and spread
        li, si = numpy.zeros(t, dtype=int), numpy.ones(t, dtype=int)
        if not mk.concrete:
            li, si = symnp.box(li), symnp.box(si)      # engine arrays of integer type, so that a write into them is modelled (cast) rather than refused
        ints = DenseScaledMatrix(mat=R.copy(), location=li, scale=si)
        ints.rescale(inplace=True)
        un_int = ints.unscale(inplace=False)
        other = fresh()
        before = (other.location.copy(), other.scale.copy(), other.mat.copy())
        resc = other.rescale(inplace=False)
        after = (other.location, other.scale, other.mat)
        un3 = other.unscale(inplace=False)
        # a shallow / deep copy unscaled in place must not reach the source through shared location / scale vectors
        import copy as _copy
        cps = {}
        for how, mkcopy in (("copy.copy", _copy.copy), ("copy()", lambda o: o.copy()), ("copy.deepcopy", _copy.deepcopy)):
            c = mkcopy(sm)
            cun = c.unscale(inplace=True)
            cps[how] = (cun, sm.unscale(inplace=False))
        un2 = sm.unscale(inplace=True)
        return dict(cps=cps, back=back, un=un, un2=un2, loc=sm.location, scale=sm.scale, before=before, after=after, un3=un3, resc=resc, un_int=un_int)

    def check(self, P, inp, out):
        t = self.params["t"]
        for i in range(2):
            for j in range(t):
                P.prove(P.eq(cell(out["back"], i, j), cell(inp["X"], i, j)), "untransform(transform(x))=x")
        for i in range(self.params["n"]):
            for j in range(t):
                P.prove(P.eq(cell(out["un"], i, j), cell(inp["R"], i, j)), "unscale-reproduces-raw-values")
                P.prove(P.eq(cell(out["un2"], i, j), cell(inp["R"], i, j)), "in-place-unscale-reproduces-raw-values")
        for j in range(t):
            P.prove(And(P.eq(cell(out["loc"], j), 0.0), P.eq(cell(out["scale"], j), 1.0)), "in-place-unscale-resets-location-and-scale")
        for how, (cun, src) in out["cps"].items():
            for i in range(self.params["n"]):
                for j in range(t):
                    P.prove(P.eq(cell(cun, i, j), cell(inp["R"], i, j)), "copy-unscaled-in-place-reproduces-raw-values", detail=how)
                    P.prove(P.eq(cell(src, i, j), cell(inp["R"], i, j)), "source-still-reproduces-raw-values-after-its-copy-was-unscaled-in-place", detail=how)
        for k in range(3):
            for x, y in zip(cells(out["before"][k]), cells(out["after"][k])):
                P.prove(P.eq(x, y), "rescale(inplace=False)-leaves-the-object-unchanged", detail=["location", "scale", "mat"][k])
        for i in range(self.params["n"]):
            for j in range(t):
                P.prove(P.eq(cell(out["un3"], i, j), cell(inp["R"], i, j)), "unscale-after-a-not-in-place-rescale-still-reproduces-raw-values")
                P.prove(P.eq(cell(out["un_int"], i, j), cell(inp["R"], i, j)), "rescale-of-a-matrix-created-with-integer-location/scale-reproduces-raw-values")


def obligations(tier):
    obs = []
    cfgs = [("bv", 1, 1, []), ("bv", 2, 1, []), ("bv", 3, 1, []), ("bv", 2, 2, []), ("bv", 3, 1, [[1, 0]]), ("ebv", 2, 1, []), ("gebv", 3, 1, [[0, 0]])]
    if tier == "thorough":
        cfgs += [("bv", 4, 1, []), ("bv", 3, 2, [[0, 1]]), ("ebv", 3, 2, []), ("gebv", 4, 1, [[3, 0]]), ("bv", 3, 2, [[0, 0], [2, 1]])]
    for cls, n, t, nan in cfgs:
        h = RoundTrip(cls=cls, n=n, t=t, nan=nan)
        h.weight = 6 ** n
        obs.append(h)
    for op in OPS:
        for cls, n, t, nan in ([("bv", 3, 1, [])] if tier == "quick" else [("bv", 3, 1, []), ("gebv", 3, 1, [[1, 0]]), ("ebv", 2, 2, [])]):
            h = StructOps(cls=cls, op=op, n=n, t=t, nan=nan, n2=1)
            h.weight = 100
            obs.append(h)
    obs.append(ScaledInPlace(n=2, t=1))
    if tier == "thorough":
        obs.append(ScaledInPlace(n=3, t=2))
    return obs


def replay_known(f):
    compat.load(BV)
    compat.symbolic_mode(False)
    from pybrops.popgen.bvmat.DenseBreedingValueMatrix import DenseBreedingValueMatrix as C
    w = f["witness"]
    if f["id"] == KNOWN_CONST:
        raw_ = numpy.array(w["raw"], dtype=float)
        bv = C.from_numpy(raw_)
        sd, var = float(bv.tstd(unscale=True)[0]), float(bv.tvar(unscale=True)[0])
        return (sd != 0.0 or var != 0.0), "raw=%s: tstd(unscale=True)=%r, tvar(unscale=True)=%r, raw std=%r" % (w["raw"], sd, var, float(raw_.std()))
    if f["id"] == KNOWN_CONCAT:
        a = C.from_numpy(numpy.array(w["a"], dtype=float), taxa=numpy.array(["a0", "a1"], dtype=object), taxa_grp=numpy.array([0, 1]))
        b = C.from_numpy(numpy.array(w["b"], dtype=float), taxa=numpy.array(["b0", "b1"], dtype=object), taxa_grp=numpy.array([2, 3]))
        o = C.concat_taxa([a, b])
        got = o.unscale().ravel().tolist()
        want = numpy.concatenate([numpy.array(w["a"], dtype=float), numpy.array(w["b"], dtype=float)]).ravel().tolist()
        return (not numpy.allclose(got, want)), "concat_taxa of raw %s and %s unscales to %s" % (w["a"], w["b"], got)
    if f["id"] == KNOWN_SUBCONCAT:
        from pybrops.popgen.bvmat.DenseEstimatedBreedingValueMatrix import DenseEstimatedBreedingValueMatrix as E
        a = E.from_numpy(numpy.array(w["a"], dtype=float), taxa=numpy.array(["a0", "a1"], dtype=object), taxa_grp=numpy.array([0, 1]))
        b = E.from_numpy(numpy.array(w["b"], dtype=float), taxa=numpy.array(["b0"], dtype=object), taxa_grp=numpy.array([2]))
        try:
            E.concat_taxa([a, b])
        except TypeError as ex:
            return True, "DenseEstimatedBreedingValueMatrix.concat_taxa raises TypeError: %s" % str(ex)[:120]
        return False, "concat_taxa of the EBV subclass no longer raises"
    raise KeyError(f["id"])
