"""C13 Relationship matrices match their definitions and algebraic laws"""
import itertools

import numpy

from ..harness import Harness, And, Or, Not, Implies, Ite, cells, cell, is_nan
from .. import sym, symnp, compat
from ..sym import SV
from .C09 import _mk_gmat

PROPERTY = "C13"
ASSUMPTIONS = [
    "genotype calls in {0,1} per phase / {0..ploidy} unphased; reference frequencies in [0,1] with sum p(1-p) > 0 (VanRaden) and every p in (0,1) (Yang): the formulas' documented domain",
    "marker weights >= 0; numpy.linalg.inv by contract (fresh B with G.B = I on non-singular G); numpy.sqrt by contract",
]
STUBS = ["numpy.linalg.inv (contract A.B=I)", "numpy.sqrt (contract)"]
BOUNDS = {"quick": dict(taxa="<=2 (3 for molecular)", markers="<=2", ploidy="1 and 2"),
          "thorough": dict(taxa="<=3 (with one marker for the estimators with real parameters)", markers="<=3 (molecular), <=2 otherwise", ploidy="1 and 2")}
OUTSIDE = ["Yang estimator with more than one marker or more than two taxa (the square-root scaling makes the two-marker identity time out in z3; one marker per obligation is decided)", "is_positive_semidefinite / apply_jitter (LAPACK eigenvalues with tolerances)", "wrap-around of narrow integer accumulators is decided structurally (no int8/int16 matmul over markers), not by running >127 markers symbolically", "rounding"]

CM = "pybrops.popgen.cmat."
MODS = [CM + "DenseCoancestryMatrix", CM + "DenseMolecularCoancestryMatrix", CM + "DenseVanRadenCoancestryMatrix", CM + "DenseYangCoancestryMatrix",
        CM + "DenseGeneralizedWeightedCoancestryMatrix", "pybrops.popgen.gmat.DenseGenotypeMatrix", "pybrops.popgen.gmat.DensePhasedGenotypeMatrix",
        CM + "fcty.DenseMolecularCoancestryMatrixFactory", CM + "fcty.DenseVanRadenCoancestryMatrixFactory"]


def _cls(name):
    import importlib
    full = {"molecular": "DenseMolecularCoancestryMatrix", "vanraden": "DenseVanRadenCoancestryMatrix", "yang": "DenseYangCoancestryMatrix",
            "gw": "DenseGeneralizedWeightedCoancestryMatrix"}[name]
    return getattr(importlib.import_module(CM + full), full)


def _geno(mk, kind, n, m, ploidy, generalise=False):
    """allele calls.  generalise=True: the calls are arbitrary REALS in their range (a superset of the valid integer codes):
    polynomial identities proved there hold a fortiori on the valid domain, and z3 decides them orders of magnitude faster
    than with integer-sorted variables mixed into non-linear real arithmetic (DESIGN 1.1, two-stage discharge)"""
    if generalise and not mk.concrete:
        if kind == "phased":
            return mk.real("a", (2, n, m), lo=0, hi=1, vd="int8")
        return mk.real("a", (n, m), lo=0, hi=ploidy, vd="int8")
    if kind == "phased":
        return mk.int("a", (2, n, m), lo=0, hi=1, vd="int8")
    return mk.int("a", (n, m), lo=0, hi=ploidy, vd="int8")


def _dos(A, kind, n, m):
    if kind == "phased":
        return [[cell(A, 0, i, k) + cell(A, 1, i, k) for k in range(m)] for i in range(n)]
    return [[cell(A, i, k) for k in range(m)] for i in range(n)]


class FromGmat(Harness):
    name = "coancestry-from_gmat"
    tol = 1e-7

    def modules(self):
        return MODS

    def inputs(self, mk):
        est, kind, n, m, pl = self.params["est"], self.params["kind"], self.params["n"], self.params["m"], self.params.get("ploidy", 2)
        inp = dict(A=_geno(mk, kind, n, m, pl))
        if est in ("vanraden", "yang", "gw"):
            if est == "yang":
                p = mk.real("p", (m,), lo=0, hi=1, lo_open=True, hi_open=True)
            elif self.params.get("scalar_p"):
                p0 = float(self.params.get("p0", 0.5))       # one reference frequency for every marker, passed as a python scalar
                inp["p_scalar"] = p0
                p = numpy.repeat(p0, m)
            else:
                p = mk.real("p", (m,), lo=0, hi=1)
            inp["p"] = p
            if est == "vanraden":
                s = 0.0
                for c in cells(p):
                    s = s + c * (1 - c)
                mk.assume(s > 0)
        if est == "gw":
            inp["w"] = mk.real("w", (m,), lo=0)
        inp["v"] = mk.real("v", (n,))
        return inp

    def call(self, inp, mk):
        est, kind, n, m, pl = self.params["est"], self.params["kind"], self.params["n"], self.params["m"], self.params.get("ploidy", 2)
        C = _cls(est)
        A = inp["A"]
        if est != "molecular" and isinstance(A, symnp.SymArray):
            # estimators with real-valued parameters: the genotype calls are enumerated by forking (every call becomes
            # concrete on its path), the reference frequencies / weights / test vector stay symbolic reals; mixing
            # integer-sorted unknowns into the non-linear real identities made z3 time out
            r = symnp.raw(A)
            conc = numpy.empty(r.shape, dtype="int8")
            for ix in numpy.ndindex(*r.shape):
                conc[ix] = int(r[ix])
            A = symnp.box(conc)
        g = _mk_gmat(kind, A.copy(), ploidy=pl)
        if self.params.get("grouped"):
            g.group_taxa()
        lab = self.params.get("labels", "both")
        if lab in ("taxa_only", "none"):
            # sources that carry taxon names but no group labels / no labels at all
            g.taxa_grp = None
            if lab == "none":
                g.taxa = None
        symnp.NARROW_ACCUM[:] = []
        parg = inp.get("p_scalar", inp.get("p"))
        if est == "molecular":
            if self.params.get("factory"):
                from pybrops.popgen.cmat.fcty.DenseMolecularCoancestryMatrixFactory import DenseMolecularCoancestryMatrixFactory
                cm = DenseMolecularCoancestryMatrixFactory().from_gmat(g)
            else:
                cm = C.from_gmat(g)
        elif est == "gw":
            cm = C.from_gmat(g, mkrwt=inp["w"], afreq=inp["p"])
        else:
            if self.params.get("factory"):
                from pybrops.popgen.cmat.fcty.DenseVanRadenCoancestryMatrixFactory import DenseVanRadenCoancestryMatrixFactory
                cm = DenseVanRadenCoancestryMatrixFactory().from_gmat(g, p_anc=parg)
            else:
                cm = C.from_gmat(g, p_anc=parg)
        _lst = lambda a, f: None if a is None else [f(x) for x in a]
        out = dict(G=cm.mat, taxa=_lst(cm.taxa, str), taxa_grp=_lst(cm.taxa_grp, int), gtaxa=_lst(g.taxa, str), gtaxa_grp=_lst(g.taxa_grp, int),
                   K=cm.mat_asformat("kinship"), Cc=cm.mat_asformat("coancestry"), k00=cm.kinship(0, 0), c00=cm.coancestry(0, 0),
                   mx=cm.max(), mn=cm.min(), mean=cm.mean(), mxk=cm.max(format="kinship"), maxinb=cm.max_inbreeding(), maxinbk=cm.max_inbreeding(format="kinship"),
                   grouped=(cm.is_grouped_taxa(), g.is_grouped_taxa()), after=g.mat, narrow=list(symnp.NARROW_ACCUM))
        if mk.concrete and est == "molecular":
            # concrete counterpart of the accumulator obligation: a line homozygous at 130 markers has coancestry 2 with itself
            big = numpy.ones((2, 1, 130), dtype="int8") if kind == "phased" else numpy.full((1, 130), pl, dtype="int8")
            out["bigdiag"] = float(C.from_gmat(_mk_gmat(kind, big, ploidy=pl)).mat[0, 0])
        if est in ("vanraden", "gw", "yang") and n >= 2:
            # permutation / sub-selection of taxa with a fixed reference
            perm = list(range(n))[::-1]
            g2 = g.select_taxa(perm)
            kw = dict(mkrwt=inp["w"], afreq=inp["p"]) if est == "gw" else dict(p_anc=inp["p"])
            out["Gperm"] = C.from_gmat(g2, **kw).mat
            g3 = g.select_taxa([n - 1])
            out["Gsub"] = C.from_gmat(g3, **kw).mat
        return out

    def check(self, P, inp, out):
        est, kind, n, m, pl = self.params["est"], self.params["kind"], self.params["n"], self.params["m"], self.params.get("ploidy", 2)
        A = inp["A"]
        ploidy = 2 if kind == "phased" else pl
        X = _dos(A, kind, n, m)
        G = out["G"]
        P.prove(tuple(G.shape) == (n, n), "shape")
        # sums over markers must not be accumulated in an 8/16-bit integer (numpy's matmul keeps the operand type: wraps from 128 markers on)
        if P.concrete:
            if "bigdiag" in out:
                P.prove(abs(out["bigdiag"] - 2.0) < 1e-9, "marker-sums-do-not-wrap (130 homozygous markers)", detail="self-coancestry %r" % out["bigdiag"])
        else:
            P.prove(not out["narrow"], "marker-sums-not-accumulated-in-an-8/16-bit-integer", detail="%s" % (out["narrow"][:2],))
        P.prove(out["taxa"] == out["gtaxa"], "taxon-labels-of-the-source", detail="%s vs source %s" % (out["taxa"], out["gtaxa"]))
        P.prove(out["taxa_grp"] == out["gtaxa_grp"], "taxon-group-labels-of-the-source", detail="%s vs source %s" % (out["taxa_grp"], out["gtaxa_grp"]))
        P.prove(out["grouped"][0] == out["grouped"][1], "group-metadata-of-the-source")
        p = cells(inp["p"]) if "p" in inp else None
        w = cells(inp["w"]) if "w" in inp else None

        def ref(i, j):
            """published formulas written independently; returns (numerator, denominator) with G_ij * denominator = numerator"""
            if est == "molecular":
                tot = 0.0
                for k in range(m):
                    a, b = X[i][k], X[j][k]
                    # probability that two alleles drawn from i and j are identical by state
                    ibs = (a * b + (ploidy - a) * (ploidy - b))
                    tot = tot + ibs
                return 2 * tot, float(ploidy * ploidy * m)
            if est == "vanraden":
                num, den = 0.0, 0.0
                for k in range(m):
                    num = num + (X[i][k] - ploidy * p[k]) * (X[j][k] - ploidy * p[k])
                    den = den + ploidy * p[k] * (1 - p[k])
                return num, den
            if est == "gw":
                num = 0.0
                for k in range(m):
                    num = num + w[k] * (X[i][k] - ploidy * p[k]) * (X[j][k] - ploidy * p[k])
                return num, 1.0
            raise KeyError(est)
        for i in range(n):
            for j in range(n):
                g = cell(G, i, j)
                P.prove(P.eq(g, cell(G, j, i)), "symmetric")
                if est == "yang":
                    # (1/m) sum_k z_ik z_jk / (ploidy p_k (1-p_k)):  multiply out the denominators
                    lhs = g * m
                    rhs = 0.0
                    for k in range(m):
                        rhs = rhs + sym.sv_div_nofork((X[i][k] - ploidy * p[k]) * (X[j][k] - ploidy * p[k]), ploidy * p[k] * (1 - p[k]))
                    P.prove(P.eq(lhs, rhs), "equals-published-formula")
                else:
                    num, den = ref(i, j)
                    P.prove(P.eq(g * den, num), "equals-published-formula")
                P.prove(P.eq(cell(out["K"], i, j) * 2, g), "kinship-view-is-half-the-coancestry-view")
                P.prove(P.eq(cell(out["Cc"], i, j), g), "coancestry-view-is-the-matrix")
        P.prove(P.eq(out["k00"] * 2, cell(G, 0, 0)), "kinship(i,j)=coancestry(i,j)/2")
        P.prove(P.eq(out["c00"], cell(G, 0, 0)), "coancestry(i,j)")
        # positive semidefinite: for an arbitrary vector v the solver verifies a sum-of-squares certificate
        #   v'Gv * D = sum_k c_k * (sum_i v_i z_ik)^2   with D > 0 and every c_k >= 0 by assumption
        v = cells(inp["v"])
        q = 0.0
        for i in range(n):
            for j in range(n):
                q = q + v[i] * v[j] * cell(G, i, j)
        sos = 0.0
        if est == "molecular":
            for k in range(m):
                s1, s2 = 0.0, 0.0
                for i in range(n):
                    s1 = s1 + v[i] * X[i][k]
                    s2 = s2 + v[i] * (ploidy - X[i][k])
                sos = sos + s1 * s1 + s2 * s2
            P.prove(P.eq(q * (ploidy * ploidy * m), 2 * sos), "positive-semidefinite: v'Gv equals a sum of squares (certificate)")
        else:
            den = 0.0
            for k in range(m):
                sk = 0.0
                for i in range(n):
                    sk = sk + v[i] * (X[i][k] - ploidy * p[k])
                if est == "vanraden":
                    sos = sos + sk * sk
                    den = den + ploidy * p[k] * (1 - p[k])
                elif est == "gw":
                    sos = sos + w[k] * sk * sk
                else:
                    sos = sos + sym.sv_div_nofork(sk * sk, ploidy * p[k] * (1 - p[k]))
            if est == "vanraden":
                P.prove(P.eq(q * den, sos), "positive-semidefinite: v'Gv equals a sum of squares (certificate)")
            elif est == "gw":
                P.prove(P.eq(q, sos), "positive-semidefinite: v'Gv equals a non-negatively weighted sum of squares (certificate)")
            else:
                P.prove(P.eq(q * m, sos), "positive-semidefinite: v'Gv equals a positively weighted sum of squares (certificate)")
        if P.concrete:
            P.prove(P.le(0.0, q), "positive-semidefinite (v'Gv>=0)")
        # summaries
        allc = [cell(G, i, j) for i in range(n) for j in range(n)]
        P.prove(And(*[out["mx"] >= c for c in allc]), "max-is-an-upper-bound")
        P.prove(Or(*[P.eq(out["mx"], c) for c in allc]), "max-is-attained")
        P.prove(And(*[out["mn"] <= c for c in allc]), "min-is-a-lower-bound")
        tot = 0.0
        for c in allc:
            tot = tot + c
        P.prove(P.eq(out["mean"] * (n * n), tot), "mean")
        P.prove(P.eq(out["mxk"] * 2, out["mx"]), "max-kinship-format")
        diag = [cell(G, i, i) for i in range(n)]
        P.prove(And(And(*[out["maxinb"] >= c for c in diag]), Or(*[P.eq(out["maxinb"], c) for c in diag])), "max_inbreeding=max-diagonal")
        P.prove(P.eq(out["maxinbk"] * 2, out["maxinb"]), "max_inbreeding-kinship-format")
        if "Gperm" in out:
            for i in range(n):
                for j in range(n):
                    P.prove(P.eq(cell(out["Gperm"], i, j), cell(G, n - 1 - i, n - 1 - j)), "commutes-with-permutation-of-taxa")
            P.prove(P.eq(cell(out["Gsub"], 0, 0), cell(G, n - 1, n - 1)), "commutes-with-sub-selection-of-taxa")
        for c1, c2 in zip(cells(out["after"]), cells(A)):
            P.prove(P.eq(c1, c2), "genotypes-unchanged")


class InverseSummaries(Harness):
    """inverse / min_inbreeding agree with direct linear algebra on the matrix"""
    name = "coancestry-inverse-min_inbreeding"
    validate_compare = True
    tol = 1e-6

    def modules(self):
        return MODS

    def inputs(self, mk):
        n = self.params["n"]
        # an arbitrary symmetric positive definite matrix (Sylvester's criterion assumed explicitly)
        L = mk.real("l", (n, n), lo=-4, hi=4)
        if n == 1:
            mk.assume(cell(L, 0, 0) > 0)
        elif n == 2:
            a, b, c = cell(L, 0, 0), cell(L, 0, 1), cell(L, 1, 1)
            mk.assume(And(a > 0, c > 0, a * c - b * b > 0, cell(L, 1, 0) == b))
        else:
            raise NotImplementedError
        return dict(L=L)

    def call(self, inp, mk):
        from pybrops.popgen.cmat.DenseMolecularCoancestryMatrix import DenseMolecularCoancestryMatrix as DenseCoancestryMatrix
        n = self.params["n"]
        G = inp["L"].copy()
        cm = DenseCoancestryMatrix(mat=G, taxa=numpy.array(["t%d" % i for i in range(n)], dtype=object), taxa_grp=numpy.arange(n))
        return dict(G=G, inv=cm.inverse(), invk=cm.inverse(format="kinship"), mi=cm.min_inbreeding(), mik=cm.min_inbreeding(format="kinship"))

    def check(self, P, inp, out):
        n = self.params["n"]
        G, B, Bk = out["G"], out["inv"], out["invk"]
        for i in range(n):
            for j in range(n):
                s, sk = 0.0, 0.0
                for k in range(n):
                    s = s + cell(G, i, k) * cell(B, k, j)
                    sk = sk + 0.5 * cell(G, i, k) * cell(Bk, k, j)
                P.prove(P.eq(s, 1.0 if i == j else 0.0), "inverse: G.inv(G)=I")
                P.prove(P.eq(sk, 1.0 if i == j else 0.0), "inverse(kinship): (G/2).inv=I")
        tot = 0.0
        for c in cells(B):
            tot = tot + c
        P.prove(P.eq(out["mi"] * tot, 1.0), "min_inbreeding=1/sum(inverse)")
        P.prove(P.eq(out["mik"] * 2, out["mi"]), "min_inbreeding-kinship-format")


class InverseAfterInplace(Harness):
    """summaries are functions of the current matrix: query, edit the taxa in place, query again"""
    name = "coancestry-summaries-after-in-place-edit"
    tol = 1e-6

    def modules(self):
        return MODS

    def inputs(self, mk):
        L = mk.real("l", (2, 2), lo=-4, hi=4)
        a, b, c = cell(L, 0, 0), cell(L, 0, 1), cell(L, 1, 1)
        mk.assume(And(a > 0, c > 0, a * c - b * b > 0, cell(L, 1, 0) == b))
        return dict(L=L)

    def call(self, inp, mk):
        import importlib
        est = self.params["est"]
        C = _cls(est)
        G = inp["L"].copy()
        cm = C(mat=G, taxa=numpy.array(["b", "a"], dtype=object), taxa_grp=numpy.array([2, 1]))
        first = (cm.inverse(), cm.min_inbreeding(), cm.max_inbreeding(), cm.mean())
        op = self.params["op"]
        if op == "reorder":
            cm.reorder_taxa([1, 0])
            keep = [1, 0]
        elif op == "sort":
            cm.sort_taxa()
            keep = [1, 0]
        elif op == "remove":
            cm.remove_taxa([0])
            keep = [1]
        else:
            cm.mat = (2.0 * cm.mat)
            keep = [0, 1]
        return dict(G=cm.mat, inv=cm.inverse(), mi=cm.min_inbreeding(), maxinb=cm.max_inbreeding(), keep=keep, scale=(2.0 if op == "setmat" else 1.0))

    def check(self, P, inp, out):
        keep, sc = out["keep"], out["scale"]
        n = len(keep)
        L = inp["L"]
        cur = [[sc * cell(L, keep[i], keep[j]) for j in range(n)] for i in range(n)]
        for i in range(n):
            for j in range(n):
                P.prove(P.eq(cell(out["G"], i, j), cur[i][j]), "matrix-after-edit")
                s = 0.0
                for k in range(n):
                    s = s + cur[i][k] * cell(out["inv"], k, j)
                P.prove(P.eq(s, 1.0 if i == j else 0.0), "inverse-after-edit-is-the-inverse-of-the-current-matrix")
        tot = 0.0
        for c in cells(out["inv"]):
            tot = tot + c
        P.prove(P.eq(out["mi"] * tot, 1.0), "min_inbreeding-after-edit")
        P.prove(Or(*[P.eq(out["maxinb"], cur[i][i]) for i in range(n)]), "max_inbreeding-after-edit")


def obligations(tier):
    obs = []
    if tier == "quick":
        cfg = [("molecular", "unphased", 2, 2, 2), ("molecular", "phased", 2, 2, 2), ("molecular", "unphased", 2, 2, 1), ("molecular", "unphased", 3, 1, 2),
               ("vanraden", "unphased", 2, 2, 2), ("vanraden", "phased", 2, 1, 2), ("yang", "unphased", 2, 1, 2), ("yang", "phased", 2, 1, 2), ("gw", "unphased", 2, 2, 2), ("gw", "phased", 2, 1, 2)]
    else:
        cfg = [("molecular", "unphased", 2, 2, 2), ("molecular", "phased", 2, 2, 2), ("molecular", "unphased", 2, 2, 1), ("molecular", "unphased", 3, 1, 2), ("molecular", "unphased", 3, 3, 1),
               ("molecular", "phased", 3, 1, 2), ("vanraden", "unphased", 2, 2, 2), ("vanraden", "phased", 2, 2, 2),
               ("yang", "unphased", 2, 1, 2), ("yang", "phased", 2, 1, 2), ("gw", "unphased", 2, 2, 2), ("gw", "phased", 2, 2, 2), ("gw", "unphased", 3, 1, 2)]
    for est, kind, n, m, pl in cfg:
        h = FromGmat(est=est, kind=kind, n=n, m=m, ploidy=pl)
        h.weight = 3 ** (n * m)
        obs.append(h)
    obs.append(FromGmat(est="molecular", kind="unphased", n=2, m=1, ploidy=2, factory=True, grouped=True))
    obs.append(FromGmat(est="vanraden", kind="unphased", n=2, m=1, ploidy=2, factory=True))
    # sources with taxon names but no group labels, and without labels
    for est in ("molecular", "vanraden", "yang", "gw"):
        for lab in ("taxa_only", "none"):
            obs.append(FromGmat(est=est, kind="unphased", n=2, m=1, ploidy=2, labels=lab))
    # one reference frequency for all markers, passed as a scalar
    obs.append(FromGmat(est="vanraden", kind="unphased", n=2, m=2, ploidy=2, scalar_p=True))
    obs.append(FromGmat(est="vanraden", kind="unphased", n=2, m=2, ploidy=2, scalar_p=True, factory=True))
    if tier == "thorough":
        obs.append(FromGmat(est="vanraden", kind="phased", n=2, m=3, ploidy=2, scalar_p=True))
        obs.append(FromGmat(est="yang", kind="unphased", n=2, m=1, ploidy=2, scalar_p=True))
    for n in (1, 2):
        obs.append(InverseSummaries(n=n))
    for est in (("molecular", "vanraden") if tier == "quick" else ("molecular", "vanraden", "yang", "gw")):
        for op in ("reorder", "sort", "remove", "setmat"):
            obs.append(InverseAfterInplace(est=est, op=op))
    return obs


def replay_known(f):
    raise NotImplementedError
