"""C12 Predicted progeny variances equal the exact variance of the cross's gametes"""
import itertools
from fractions import Fraction

import numpy

from ..harness import Harness, And, Or, Not, Implies, Ite, cells, cell, is_nan
from .. import sym, symnp, compat
from ..sym import SV

PROPERTY = "C12"
ASSUMPTIONS = [
    "no-interference (Haldane) map: the recombination fraction between two loci is mapfn(|distance|); loci on different chromosomes recombine with probability 1/2",
    "two/three/four-way schemes: inbred parents (both chromosome copies identical), as the classes document; dihybrid scheme: arbitrary phased parents",
    "allele codes are generalised to arbitrary reals (the code only adds/multiplies them), marker effects arbitrary reals; exp is an uninterpreted function (only r = mapfn(d) as an opaque value in [0,1/2) matters for the pairwise identities)",
]
STUBS = ["numpy.exp inside HaldaneMapFunction.mapfn (uninterpreted; identities are per marker pair in r)"]
BOUNDS = {"quick": dict(markers="<=3 on <=2 chromosomes", founders="2/3/4 per scheme", traits="1", nself="0,1,2 (+inf for two-way closed form)", mem="None,1,2"),
          "thorough": dict(markers="<=3 on <=2 chromosomes", traits="<=2", nself="0,1,2,3", mem="None,1,2")}
OUTSIDE = ["more than 3 markers", "selfing depth beyond the bound except the closed-form inf branch (checked against the Haldane-Waddington limit 2r/(1+2r))",
           "multi-locus consistency of the Haldane map (composition law is C02's obligation)"]

V = "pybrops.model.vmat."
PC = "pybrops.model.pcvmat."
CLASSES = {
    "two": (V + "DenseTwoWayDHAdditiveGeneticVarianceMatrix", 2, False),
    "three": (V + "DenseThreeWayDHAdditiveGeneticVarianceMatrix", 3, False),
    "four": (V + "DenseFourWayDHAdditiveGeneticVarianceMatrix", 4, False),
    "dihybrid": (V + "DenseDihybridDHAdditiveGeneticVarianceMatrix", 2, False),
    "two_genic": (V + "DenseTwoWayDHAdditiveGenicVarianceMatrix", 2, True),
    "three_genic": (V + "DenseThreeWayDHAdditiveGenicVarianceMatrix", 3, True),
    "four_genic": (V + "DenseFourWayDHAdditiveGenicVarianceMatrix", 4, True),
    "dihybrid_genic": (V + "DenseDihybridDHAdditiveGenicVarianceMatrix", 2, True),
    "two_cov": (PC + "DenseTwoWayDHAdditiveProgenyGeneticCovarianceMatrix", 2, False),
    "three_cov": (PC + "DenseThreeWayDHAdditiveProgenyGeneticCovarianceMatrix", 3, False),
    "four_cov": (PC + "DenseFourWayDHAdditiveProgenyGeneticCovarianceMatrix", 4, False),
    "dihybrid_cov": (PC + "DenseDihybridDHAdditiveProgenyGeneticCovarianceMatrix", 2, False),
}
MODS = [v[0] for v in CLASSES.values()] + ["pybrops.popgen.gmat.DensePhasedGenotypeMatrix", "pybrops.model.gmod.DenseAdditiveLinearGenomicModel",
                                           "pybrops.popgen.gmap.HaldaneMapFunction", V + "util"]

KNOWN_REPEAT = "C12-repeated-parent-inside-a-pair"


# --------------------------------------------------------------------------
# exact two-locus gamete enumeration with polynomial weights in r
# --------------------------------------------------------------------------
def padd(a, b):
    out = dict(a)
    for k, v in b.items():
        out[k] = out.get(k, 0) + v
    return {k: v for k, v in out.items() if v != 0}


def pmul(a, b):
    out = {}
    for i, x in a.items():
        for j, y in b.items():
            out[i + j] = out.get(i + j, 0) + x * y
    return {k: v for k, v in out.items() if v != 0}


ONE = {0: Fraction(1)}
NR = {0: Fraction(1, 2), 1: Fraction(-1, 2)}     # (1-r)/2
RC = {1: Fraction(1, 2)}                          # r/2


def gametes(ind):
    """ind = (hapA, hapB), hap = (origin at locus i, origin at locus j) -> {hap: poly}"""
    (a1, a2), (b1, b2) = ind
    out = {}
    for h, w in (((a1, a2), NR), ((b1, b2), NR), ((a1, b2), RC), ((b1, a2), RC)):
        out[h] = padd(out.get(h, {}), w)
    return out


def cross(dist_f, dist_m):
    """distributions over gametes -> distribution over individuals"""
    out = {}
    for gf, wf in dist_f.items():
        for gm, wm in dist_m.items():
            key = (gf, gm)
            out[key] = padd(out.get(key, {}), pmul(wf, wm))
    return out


def gam_of_pop(pop):
    out = {}
    for ind, w in pop.items():
        for h, wg in gametes(ind).items():
            out[h] = padd(out.get(h, {}), pmul(w, wg))
    return out


def self_pop(pop):
    out = {}
    for ind, w in pop.items():
        g = gametes(ind)
        for g1, w1 in g.items():
            for g2, w2 in g.items():
                key = (g1, g2)
                out[key] = padd(out.get(key, {}), pmul(w, pmul(w1, w2)))
    return out


def dh_origin_law(scheme, nself):
    """joint law of the founder origin at two loci of a DH line, as polynomials in r.
    founders are labelled 0..k-1 in the order of the matrix indices of the scheme"""
    def inbred(p):
        return {((p, p), (p, p)): ONE}
    if scheme == "two":          # (female, male)
        pop = cross(gam_of_pop(inbred(0)), gam_of_pop(inbred(1)))
    elif scheme == "three":      # (recurrent, female, male): recurrent x (female x male)
        f1 = cross(gam_of_pop(inbred(1)), gam_of_pop(inbred(2)))
        pop = cross(gam_of_pop(inbred(0)), gam_of_pop(f1))
    elif scheme == "four":       # (female2, male2, female1, male1): (f2 x m2) x (f1 x m1)
        ab = cross(gam_of_pop(inbred(0)), gam_of_pop(inbred(1)))
        cd = cross(gam_of_pop(inbred(2)), gam_of_pop(inbred(3)))
        pop = cross(gam_of_pop(ab), gam_of_pop(cd))
    elif scheme == "dihybrid":   # heterozygous female (copies 0,1) x heterozygous male (copies 2,3)
        fem = {((0, 0), (1, 1)): ONE}
        mal = {((2, 2), (3, 3)): ONE}
        pop = cross(gam_of_pop(fem), gam_of_pop(mal))
    else:
        raise KeyError(scheme)
    for _ in range(nself):
        pop = self_pop(pop)
    return gam_of_pop(pop)


def peval(poly, r):
    """polynomial (dict) at r (SV / number)"""
    tot = 0.0
    for k in sorted(poly):
        term = float(poly[k]) if not isinstance(r, SV) else poly[k]
        for _ in range(k):
            term = term * r
        tot = tot + term
    return tot


def _symmapfn(rvals):
    """map function stub: r depends on the distance only; every distinct positive distance gets an arbitrary
    symbolic recombination fraction in [0,1/2] (so the identities are proved for EVERY map function value, not only
    Haldane's), distance 0 -> 0"""
    from pybrops.popgen.gmap.GeneticMapFunction import GeneticMapFunction

    class SymMapFn(GeneticMapFunction):
        def mapfn(self, d):
            d = numpy.asarray(symnp.unbox(d) if isinstance(d, symnp.SymArray) else d, dtype=float)
            out = numpy.empty(d.shape, dtype=object)
            conc = True
            for ix in numpy.ndindex(*d.shape):
                v = rvals[float(d[ix])]
                out[ix] = v
                conc = conc and not isinstance(v, SV)
            if conc:
                return out.astype(float)
            return symnp.SymArray(out, "float64")

        def invmapfn(self, r):
            raise NotImplementedError

        def rprob1g(self, gmap, vrnt_chrgrp, vrnt_genpos):
            raise NotImplementedError

        def rprob2g(self, gmap, vrnt_chrgrp, vrnt_genpos):
            raise NotImplementedError

        def rprob1p(self, gmap, vrnt_chrgrp, vrnt_phypos):
            raise NotImplementedError

        def rprob2p(self, gmap, vrnt_chrgrp, vrnt_phypos):
            raise NotImplementedError
    return SymMapFn()


def _layout(sizes):
    st = numpy.concatenate([[0], numpy.cumsum(sizes)[:-1]])
    return st, numpy.cumsum(sizes), numpy.array(sizes)


class ProgenyVariance(Harness):
    name = "progeny-variance-vs-gamete-enumeration"
    validate_compare = True
    tol = 1e-7

    def modules(self):
        return MODS

    def inputs(self, mk):
        self.validate_compare = not self.params.get("haldane")
        which, sizes, n, t = self.params["which"], self.params["sizes"], self.params["n"], self.params["t"]
        m = sum(sizes)
        scheme = which.split("_")[0]
        if which.endswith("_genic"):
            # genic variance uses p(1-p), which is the variance of an allele only for 0/1 codes: valid integer codes here
            A = mk.int("a", (2, n, m) if scheme == "dihybrid" else (n, m), lo=0, hi=1, vd="int8")
        elif scheme == "dihybrid":
            A = mk.real("a", (2, n, m), lo=0, hi=1, vd="int8")
        else:
            A = mk.real("a", (n, m), lo=0, hi=1, vd="int8")
        u = mk.real("u", (m, t))
        if not mk.concrete:
            import z3
            # observability preference: counterexamples with valid (0/1) allele codes and non-zero effects
            sym.ctx().prefer = list(sym.ctx().prefer) + [z3.And(*[z3.Or(c.e == 0, c.e == 1) for c in cells(A)]), z3.And(*[c.e != 0 for c in cells(u)])]
        st, sp, ln = _layout(sizes)
        if self.params.get("haldane"):
            g = mk.real("g", (m,), lo=0)
            for a, b in zip(st, sp):
                for j in range(a, b - 1):
                    mk.assume(cell(g, j) <= cell(g, j + 1))
            return dict(A=A, u=u, g=g)
        # concrete positions 0,1,3,7 (all pairwise distances distinct); r(distance) symbolic
        pos = [0.0, 1.0, 3.0, 7.0]
        g = numpy.concatenate([numpy.array(pos[:s_]) for s_ in sizes])
        dists = sorted({abs(a - b) for s_ in sizes for a in pos[:s_] for b in pos[:s_] if a != b})
        rv = mk.real("r", (len(dists),), lo=0, hi=0.5) if dists else numpy.zeros(0)
        return dict(A=A, u=u, g=g, rv=rv, dists=dists)

    def _build(self, inp):
        import importlib
        from pybrops.popgen.gmat.DensePhasedGenotypeMatrix import DensePhasedGenotypeMatrix
        from pybrops.popgen.gmap.HaldaneMapFunction import HaldaneMapFunction
        from .C10 import _model
        which, sizes, n, t = self.params["which"], self.params["sizes"], self.params["n"], self.params["t"]
        m = sum(sizes)
        scheme = which.split("_")[0]
        A = inp["A"]
        if scheme == "dihybrid":
            mat = A.copy()
        elif isinstance(A, symnp.SymArray):
            mat = symnp.SymArray(numpy.stack([symnp.raw(A), symnp.raw(A)]), "int8")
        else:
            mat = numpy.stack([A, A])
        st, sp, ln = _layout(sizes)
        chr_ = numpy.concatenate([numpy.full(s, c + 1, dtype="int64") for c, s in enumerate(sizes)])
        pg = DensePhasedGenotypeMatrix(mat=mat, taxa=numpy.array(["t%d" % i for i in range(n)], dtype=object), taxa_grp=numpy.arange(n),
                                       vrnt_chrgrp=chr_, vrnt_phypos=numpy.arange(m) + 1, vrnt_genpos=inp["g"])
        pg.vrnt_chrgrp_name = numpy.arange(len(sizes)) + 1
        pg.vrnt_chrgrp_stix, pg.vrnt_chrgrp_spix, pg.vrnt_chrgrp_len = st, sp, ln
        mod = _model(numpy.zeros((1, t)), inp["u"], t)
        modname = CLASSES[which][0]
        C = getattr(importlib.import_module(modname), modname.rsplit(".", 1)[1])
        if self.params.get("haldane"):
            return C, pg, mod, HaldaneMapFunction()
        rvals = {0.0: 0.0}
        for d, v in zip(inp["dists"], cells(inp["rv"])):
            rvals[float(d)] = v
        return C, pg, mod, _symmapfn(rvals)

    def call(self, inp, mk):
        if self.params["which"].endswith("_genic") and isinstance(inp["A"], symnp.SymArray):
            # valid 0/1 allele codes are enumerated by forking; effects stay symbolic
            r_ = symnp.raw(inp["A"])
            conc = numpy.empty(r_.shape, dtype="int8")
            for ix in numpy.ndindex(*r_.shape):
                conc[ix] = int(r_[ix])
            inp = dict(inp, A=symnp.box(conc))
        C, pg, mod, fn = self._build(inp)
        nself = self.params["nself"]
        nself = float("inf") if nself == "inf" else nself
        out = {}
        for mem in self.params.get("mems", [None]):
            if self.params["which"].endswith("_genic"):
                symnp.PROXY.empty_marks = True
                try:
                    o = C.from_algmod(mod, pg, 1, mem=(1000 if mem is None else mem))
                finally:
                    symnp.PROXY.empty_marks = False
            elif self.params.get("via_gmod"):
                o = C.from_gmod(mod, pg, 1, 1, nself, fn, mem=mem)
            else:
                o = C.from_algmod(mod, pg, 1, 1, nself, fn, mem=mem)
            out["mem%s" % mem] = o.mat
        out["taxa"] = [str(x) for x in o.taxa]
        return out

    def check(self, P, inp, out):
        which, sizes, n, t = self.params["which"], self.params["sizes"], self.params["n"], self.params["t"]
        nself = self.params["nself"]
        m = sum(sizes)
        scheme = which.split("_")[0]
        genic = which.endswith("_genic")
        cov = which.endswith("_cov")
        k = CLASSES[which][1]
        A, u, g = inp["A"], inp["u"], inp["g"]
        chrom = numpy.concatenate([numpy.full(s, c) for c, s in enumerate(sizes)])
        mems = self.params.get("mems", [None])
        M0 = out["mem%s" % mems[0]]
        for mem in mems[1:]:
            for x, y in zip(cells(M0), cells(out["mem%s" % mem])):
                P.prove(P.eq(x, y), "independent-of-the-memory-chunking-parameter")
        P.prove(out["taxa"] == ["t%d" % i for i in range(n)], "taxa-labels-kept")
        # recombination fractions per marker pair
        def rij(i, j):
            if chrom[i] != chrom[j]:
                return 0.5
            if i == j:
                return 0.0
            if not self.params.get("haldane"):
                d = abs(float(g[i]) - float(g[j]))
                return dict(zip([float(x) for x in inp["dists"]], cells(inp["rv"])))[d]
            d = cell(g, i) - cell(g, j)
            d = Ite(d >= 0, d, -d) if isinstance(d, SV) else abs(d)
            return 0.5 * (1.0 - sym.sv_exp(-2.0 * d))
        if nself == "inf":
            law = None
        else:
            law = dh_origin_law(scheme, nself)
        nlab = 4 if scheme in ("four", "dihybrid") else (3 if scheme == "three" else 2)
        # marginal origin probabilities
        marg = None
        if law is not None:
            marg = {}
            for (oi, oj), w in law.items():
                marg[oi] = padd(marg.get(oi, {}), w)
        active = KNOWN_REPEAT in getattr(self, "active_known", ())
        tuples = list(itertools.product(range(n), repeat=k))
        for tup in tuples:
            # allele value of founder label p at marker i for this parent tuple
            def gval(p, i):
                if scheme == "dihybrid":
                    return cell(A, p % 2, tup[p // 2], i)
                return cell(A, tup[p], i)
            for tr in ([(a, b) for a in range(t) for b in range(t)] if cov else [(a, a) for a in range(t)]):
                ta, tb = tr
                tot = 0.0
                for i in range(m):
                    for j in range(m):
                        if genic and i != j:
                            continue
                        r = rij(i, j)
                        if law is None:
                            # closed-form limit of recurrent selfing: R = 2r/(1+2r); two-way only
                            R = sym.sv_div_nofork(2 * r, 1 + 2 * r) if isinstance(r, SV) else (2 * r / (1 + 2 * r))
                            c4 = (1 - 2 * R) * (gval(0, i) - gval(1, i)) * (gval(0, j) - gval(1, j))
                            tot = tot + cell(u, i, ta) * cell(u, j, tb) * c4
                            continue
                        c = 0.0
                        for pp in range(nlab):
                            for qq in range(nlab):
                                joint = peval(law.get((pp, qq), {}), r) if i != j else (peval(marg.get(pp, {}), 0.0) if pp == qq else 0.0)
                                ind = peval(marg.get(pp, {}), 0.0) * peval(marg.get(qq, {}), 0.0)
                                c = c + gval(pp, i) * gval(qq, j) * (joint - ind)
                        tot = tot + 4 * cell(u, i, ta) * cell(u, j, tb) * c
                ix = tuple(tup) + ((ta, tb) if cov else (ta,))
                got = cell(M0, *ix)
                if got is symnp.UNWRITTEN:
                    P.fail("every-matrix-cell-written", detail="parents %s" % (tup,))
                    continue
                repeated = (scheme == "three" and tup[1] == tup[2]) or (scheme == "four" and tup[2] == tup[3]) or (scheme == "dihybrid" and tup[0] == tup[1])
                if active and repeated:
                    continue
                P.prove(P.eq(got, tot), "variance-equals-exact-gamete-enumeration", detail="parents %s traits %s" % (tup, tr))


class UCFactory(Harness):
    """usefulness-criterion problems built from a population: the variance factory is asked for exactly the crossing scheme the caller
    specified (ncross, nprogeny, nself, map function) and every cross gets  mean of its parents' breeding values + intensity * sqrt(variance)"""
    name = "usefulness-criterion-factory"
    tol = 1e-6

    def modules(self):
        return ["pybrops.breed.prot.sel.prob.UsefulnessCriterionSelectionProblem", "pybrops.model.vmat.fcty.DenseTwoWayDHAdditiveGeneticVarianceMatrixFactory",
                "pybrops.model.vmat.DenseTwoWayDHAdditiveGeneticVarianceMatrix", "pybrops.popgen.gmap.HaldaneMapFunction", "pybrops.popgen.gmat.DensePhasedGenotypeMatrix",
                "pybrops.model.gmod.DenseAdditiveLinearGenomicModel", "pybrops.core.util.array"]

    def inputs(self, mk):
        n, t = self.params["n"], self.params["t"]
        V = mk.real("V", (n, n, t), lo=0, hi=9)
        return dict(V=V, u=mk.real("u", (2, t), lo=-4, hi=4))

    def call(self, inp, mk):
        import importlib
        from pybrops.model.vmat.fcty.DenseTwoWayDHAdditiveGeneticVarianceMatrixFactory import DenseTwoWayDHAdditiveGeneticVarianceMatrixFactory as F
        from pybrops.model.vmat.DenseTwoWayDHAdditiveGeneticVarianceMatrix import DenseTwoWayDHAdditiveGeneticVarianceMatrix as VM
        from pybrops.popgen.gmap.HaldaneMapFunction import HaldaneMapFunction
        from pybrops.popgen.gmat.DensePhasedGenotypeMatrix import DensePhasedGenotypeMatrix
        from pybrops.model.gmod.DenseAdditiveLinearGenomicModel import DenseAdditiveLinearGenomicModel
        from pybrops.core.util.array import xmapix
        n, t, enc = self.params["n"], self.params["t"], self.params["enc"]
        seen = []

        class Fcty(F):
            def from_gmod(self_, gmod, pgmat, ncross, nprogeny, nself, gmapfn, **kw):
                seen.append(dict(ncross=ncross, nprogeny=nprogeny, nself=nself, gmapfn=type(gmapfn).__name__))
                return VM(mat=inp["V"], taxa=pgmat.taxa, taxa_grp=pgmat.taxa_grp, trait=gmod.trait)
        A = numpy.array([[[0, 1], [1, 1], [0, 0]], [[1, 1], [0, 1], [0, 1]]], dtype="int8")[:, :n, :]
        pg = DensePhasedGenotypeMatrix(mat=A, taxa=numpy.array(["p%d" % i for i in range(n)], dtype=object), taxa_grp=numpy.arange(n), vrnt_chrgrp=numpy.array([1, 1]),
                                       vrnt_phypos=numpy.array([1, 2]), vrnt_genpos=numpy.array([0.0, 0.5]), vrnt_xoprob=numpy.array([0.5, 0.3]))
        pg.group_vrnt()
        gm = DenseAdditiveLinearGenomicModel(beta=numpy.zeros((1, t)), u_misc=None, u_a=inp["u"], trait=numpy.array(["y%d" % i for i in range(t)], dtype=object))
        C = getattr(importlib.import_module("pybrops.breed.prot.sel.prob.UsefulnessCriterionSelectionProblem"), "UsefulnessCriterion%sMateSelectionProblem" % enc)
        xmap = numpy.array(list(xmapix(n, 2, True)))
        k = len(xmap)
        z, o = (0.0, 1.0) if enc == "Real" else (0, 1)
        common = dict(ndecn=(1 if enc == "Subset" else k), decn_space=numpy.arange(k) if enc == "Subset" else numpy.stack([numpy.repeat(z, k), numpy.repeat(o, k)]),
                      decn_space_lower=numpy.repeat(z, 1 if enc == "Subset" else k), decn_space_upper=numpy.repeat(k - 1 if enc == "Subset" else o, 1 if enc == "Subset" else k), nobj=t)
        args = dict(nparent=2, ncross=self.params["ncross"], nprogeny=self.params["nprogeny"], nself=self.params["nself"], upper_percentile=0.1, vmatfcty=Fcty(),
                    gmapfn=HaldaneMapFunction(), unique_parents=True, pgmat=pg, gpmod=gm)
        if self.params.get("via_xmap"):
            prob = C.from_pgmat_gpmod_xmap(xmap=xmap if mk.concrete else symnp.box(xmap), **args, **common)
        else:
            prob = C.from_pgmat_gpmod(**args, **common)
        return dict(uc=prob.ucmat, seen=seen, xmap=xmap, bv=gm.gebv(pg).unscale())

    def check(self, P, inp, out):
        import scipy.stats
        t = self.params["t"]
        want = dict(ncross=self.params["ncross"], nprogeny=self.params["nprogeny"], nself=self.params["nself"], gmapfn="HaldaneMapFunction")
        P.prove(len(out["seen"]) == 1 and out["seen"][0] == want, "variance-factory-asked-for-the-caller's-crossing-scheme", detail="%s vs %s" % (out["seen"], want))
        inten = float(scipy.stats.norm.pdf(scipy.stats.norm.ppf(0.9)) / 0.1)
        P.prove(tuple(out["uc"].shape) == (len(out["xmap"]), t), "one-row-per-candidate-cross")
        for r, (a, b) in enumerate(out["xmap"]):
            for tr in range(t):
                mean = 0.5 * (cell(out["bv"], int(a), tr) + cell(out["bv"], int(b), tr))
                d = cell(out["uc"], r, tr) - mean
                v = cell(inp["V"], int(a), int(b), tr)
                if P.concrete:
                    P.prove(abs(d - inten * (float(v) ** 0.5)) <= 1e-6 * (1 + abs(d)), "uc=parental-mean+intensity*sqrt(variance)")
                else:
                    P.prove(And(d >= 0, P.close(d * d, (inten * inten) * v, 1e-9)), "uc=parental-mean+intensity*sqrt(variance)")


def obligations(tier):
    obs = []
    for enc in ("Subset", "Real", "Integer", "Binary"):
        for via in (False, True):
            if tier == "quick" and via and enc in ("Integer", "Binary"):
                continue
            obs.append(UCFactory(enc=enc, n=2, t=1, ncross=3, nprogeny=5, nself=2, via_xmap=via))
    if tier == "quick":
        cfg = [("two", [2], 2, 1, 0, [None, 1]), ("two", [2, 1], 2, 1, 1, [None]), ("two", [3], 2, 1, 2, [None, 2]), ("two", [2], 2, 1, "inf", [None]),
               ("three", [2], 3, 1, 0, [None, 1]), ("three", [2], 2, 1, 1, [None]), ("four", [2], 2, 1, 0, [None]), ("four", [1, 1], 2, 1, 1, [None]),
               ("dihybrid", [2], 2, 1, 0, [None, 1]), ("dihybrid", [2], 2, 1, 1, [None]),
               ("two_genic", [2], 2, 1, 0, [None]), ("three_genic", [2], 2, 1, 1, [None]), ("four_genic", [2], 2, 1, 0, [None]), ("dihybrid_genic", [2], 2, 1, 0, [None]),
               ("two_cov", [2], 2, 2, 0, [None, 1]), ("three_cov", [2], 2, 2, 1, [None, 1]), ("four_cov", [2], 2, 2, 0, [None, 1]), ("dihybrid_cov", [2], 2, 2, 0, [None, 1])]
    else:
        cfg = []
        for which in CLASSES:
            k = CLASSES[which][1]
            t = 2 if which.endswith("_cov") else 1
            for nself in (0, 1, 2):
                cfg.append((which, [2], max(2, min(k, 3)), t, nself, [None, 1]))
            cfg.append((which, [2, 1], 2, t, 1, [None, 1, 2]))
            cfg.append((which, [3], 2, t, 0, [None, 2]))
        cfg.append(("two", [2], 2, 1, "inf", [None]))
        cfg.append(("two", [3], 2, 2, 3, [None]))
    for which, sizes, n, t, nself, mems in cfg:
        h = ProgenyVariance(which=which, sizes=sizes, n=n, t=t, nself=nself, mems=mems)
        h.weight = n ** CLASSES[which][1] * sum(sizes) ** 2
        obs.append(h)
    obs.append(ProgenyVariance(which="two", sizes=[2], n=2, t=1, nself=0, mems=[None], via_gmod=True))
    # the real Haldane map function on symbolic genetic positions (selfing depth 0: the closed forms are polynomial in r)
    for which in ("two", "three", "four", "dihybrid"):
        obs.append(ProgenyVariance(which=which, sizes=[2], n=2, t=1, nself=0, mems=[None], haldane=True))
    return obs


def replay_known(f):
    raise NotImplementedError
