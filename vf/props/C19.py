"""C19 Pareto-front identification and front ranking are exact"""
import itertools

import numpy

from ..harness import Harness, And, Or, Not, Implies, Ite, cells, cell, is_nan
from .. import sym, symnp
from ..sym import SV

PROPERTY = "C19"

ASSUMPTIONS = [
    "objective weights are non-zero reals of either sign (documented: sign/weight vector)",
    "preference vector entries >= 0 and not all zero (documented precondition, asserted by core/util/trans.py)",
    "coordinates are finite reals (NaN/inf inputs outside the claim)",
]
STUBS = ["numpy.sqrt inside numpy.linalg.norm: fresh y with y >= 0 and y*y = x (contract)"]
BOUNDS = {
    "quick": dict(points="<=3 (filter: <=4 for 2 objectives)", objectives="<=3", while_loop_cap="npt+1 iterations (pivot index strictly increases; cap checked by the path budget)"),
    "thorough": dict(points="filter: <=5 (2 objectives), <=4 (3 objectives); distance transformations: <=3 points x 2 objectives, 1 point x 3 objectives", objectives="<=3"),
}
OUTSIDE = ["more points/objectives than the bounds", "floating-point rounding inside the distance transformations (exact reals)",
           "NaN / infinite coordinates"]


def _dom(G, a, b, nobj):
    """a dominates b in weighted maximisation space"""
    return And(*[G[a][j] >= G[b][j] for j in range(nobj)], Or(*[G[a][j] > G[b][j] for j in range(nobj)]))


def _geq(G, a, b, nobj):
    return And(*[G[a][j] >= G[b][j] for j in range(nobj)])


class ParetoFilter(Harness):
    name = "is_pareto_efficient"

    def modules(self):
        return ["pybrops.core.util.pareto"]

    def inputs(self, mk):
        npt, nobj = self.params["npt"], self.params["nobj"]
        F = mk.real("f", (npt, nobj))
        W = mk.real("w", (nobj,))
        for w in cells(W):
            mk.assume(w != 0)
        return dict(F=F, W=W)

    def call(self, inp, mk):
        import pybrops.core.util.pareto as P
        mask = P.is_pareto_efficient(inp["F"], inp["W"], return_mask=True)
        idx = P.is_pareto_efficient(inp["F"], inp["W"], return_mask=False)
        return dict(mask=mask, idx=idx)

    def check(self, P, inp, out):
        npt, nobj = self.params["npt"], self.params["nobj"]
        F, W = inp["F"], inp["W"]
        G = [[cell(F, i, j) * cell(W, j) for j in range(nobj)] for i in range(npt)]
        mask = out["mask"]
        P.prove(tuple(mask.shape) == (npt,), "mask-shape")
        m = [bool(x) for x in cells(mask)]      # forks on symbolic mask cells (none: assigned True concretely)
        idx = sorted(int(i) for i in cells(out["idx"]))
        P.prove(idx == [i for i in range(npt) if m[i]], "mask-index-forms-agree")
        for i in range(npt):
            if m[i]:
                P.prove(Not(Or(*[_dom(G, k, i, nobj) for k in range(npt) if k != i])), "marked-not-dominated")
            else:
                P.prove(Or(*[_geq(G, k, i, nobj) for k in range(npt) if m[k]]), "unmarked-covered-by-marked")
        P.prove(any(m), "front-nonempty")


class ParetoInvariance(Harness):
    """set of efficient vectors invariant under point order and positive rescaling of objectives"""
    name = "is_pareto_efficient-invariance"

    def modules(self):
        return ["pybrops.core.util.pareto"]

    def inputs(self, mk):
        npt, nobj = self.params["npt"], self.params["nobj"]
        F = mk.real("f", (npt, nobj))
        W = mk.real("w", (nobj,))
        S = mk.real("s", (nobj,), lo=0, lo_open=True)
        for w in cells(W):
            mk.assume(w != 0)
        return dict(F=F, W=W, S=S)

    def call(self, inp, mk):
        import pybrops.core.util.pareto as P
        perm = list(self.params["perm"])
        F = inp["F"]
        m1 = P.is_pareto_efficient(F, inp["W"], return_mask=True)
        F2 = (F * inp["S"][None, :])[perm, :]
        m2 = P.is_pareto_efficient(F2, inp["W"], return_mask=True)
        return dict(m1=m1, m2=m2)

    def check(self, P, inp, out):
        npt, nobj = self.params["npt"], self.params["nobj"]
        perm = list(self.params["perm"])
        F = inp["F"]
        m1 = [bool(x) for x in cells(out["m1"])]
        m2 = [bool(x) for x in cells(out["m2"])]
        # point j of run 2 is original point perm[j]
        def same(i, k):
            return And(*[P.eq(cell(F, i, j), cell(F, k, j)) for j in range(nobj)])
        for i in range(npt):
            if m1[i]:
                P.prove(Or(*[same(i, perm[j]) for j in range(npt) if m2[j]]), "efficient-vector-kept-under-perm+rescale")
        for j in range(npt):
            if m2[j]:
                P.prove(Or(*[same(perm[j], i) for i in range(npt) if m1[i]]), "no-new-efficient-vector-under-perm+rescale")


class Dominates(Harness):
    name = "pymoo_addon.dominates"

    def modules(self):
        return ["pybrops.opt.algo.pymoo_addon"]

    def inputs(self, mk):
        n = self.params["nobj"]
        return dict(o1=mk.real("a", (n,)), o2=mk.real("b", (n,)), c1=mk.real("c1"), c2=mk.real("c2"))

    def call(self, inp, mk):
        from pybrops.opt.algo.pymoo_addon import dominates
        r = dominates(inp["o1"], inp["c1"], inp["o2"], inp["c2"])
        return dict(r=bool(r))

    def check(self, P, inp, out):
        n = self.params["nobj"]
        a, b = cells(inp["o1"]), cells(inp["o2"])
        c1, c2 = inp["c1"], inp["c2"]
        feas = And(c1 <= 0.0, c2 <= 0.0)
        pareto = And(*[a[j] <= b[j] for j in range(n)], Or(*[a[j] < b[j] for j in range(n)]))
        expect = Ite(feas, pareto, c1 < c2)
        P.prove(P.eq(expect, out["r"]) if P.concrete else (expect == out["r"]), "dominates-definition")


_TRANS = {
    "core": ("pybrops.core.util.trans", "trans_ndpt_pseudo_dist"),
    "prob": ("pybrops.breed.prot.sel.prob.trans", "trans_ndpt_to_vec_dist"),
    "transfn": ("pybrops.breed.prot.sel.transfn", "trans_ndpt_to_vec_dist"),
}


def _ref_sqdist(P, M, sgn, pw, npt, nobj):
    """geometric definition: min-max scale each weighted objective to [0,1] (constant column -> 0),
    squared distance of each scaled point to the line spanned by the preference vector"""
    cols = []
    for j in range(nobj):
        col = [M[i][j] * sgn[j] for i in range(npt)]
        lo = col[0]
        hi = col[0]
        for c in col[1:]:
            lo = sym.sv_min(lo, c)
            hi = sym.sv_max(hi, c)
        rng = hi - lo
        cols.append([Ite(rng == 0, 0.0, sym.sv_div_nofork(c - lo, rng)) for c in col])
    ww = 0.0
    for j in range(nobj):
        ww = ww + pw[j] * pw[j]
    out = []
    for i in range(npt):
        p = [cols[j][i] for j in range(nobj)]
        pd = 0.0
        for j in range(nobj):
            pd = pd + p[j] * pw[j]
        t = sym.sv_div_nofork(pd, ww)
        d2 = 0.0
        for j in range(nobj):
            r = p[j] - t * pw[j]
            d2 = d2 + r * r
        out.append(d2)
    return out


class DistTransform(Harness):
    """distance-to-preference-vector transformation: geometric definition, translation invariance, finiteness"""
    name = "trans_ndpt_dist"
    tol = 1e-7

    def modules(self):
        return [_TRANS[self.params["which"]][0]]

    def inputs(self, mk):
        npt, nobj = self.params["npt"], self.params["nobj"]
        M = mk.real("m", (npt, nobj))
        sg = mk.real("sg", (nobj,))
        pw = mk.real("pw", (nobj,), lo=0)
        t = mk.real("t", (nobj,))
        for s in cells(sg):
            mk.assume(s != 0)
        mk.assume(Or(*[p > 0 for p in cells(pw)]))
        if self.params.get("nonconstant"):
            # every objective takes at least two values on the front (clause 'geometric definition' on
            # fronts without a constant objective; the constant case is the 'finite' clause)
            for j in range(nobj):
                mk.assume(Or(*[cell(M, i, j) != cell(M, 0, j) for i in range(1, npt)]) if npt > 1 else False)
        return dict(M=M, sg=sg, pw=pw, t=t)

    def _fn(self):
        import importlib
        modname, fn = _TRANS[self.params["which"]]
        return getattr(importlib.import_module(modname), fn)

    def call(self, inp, mk):
        f = self._fn()
        M, sg, pw, t = inp["M"], inp["sg"], inp["pw"], inp["t"]
        if self.params["which"] == "core":
            d1 = f(M, sg, pw)
            d2 = f(M + t[None, :], sg, pw)
        else:
            d1 = f(M, pw, sg)
            d2 = f(M + t[None, :], pw, sg)
        return dict(d1=d1, d2=d2)

    def check(self, P, inp, out):
        npt, nobj = self.params["npt"], self.params["nobj"]
        M = [[cell(inp["M"], i, j) for j in range(nobj)] for i in range(npt)]
        sg, pw = cells(inp["sg"]), cells(inp["pw"])
        d1, d2 = cells(out["d1"]), cells(out["d2"])
        P.prove(len(d1) == npt and len(d2) == npt, "one-distance-per-point")
        fin = all(not (isinstance(d, float) and not numpy.isfinite(d)) for d in d1 + d2)
        P.prove(fin, "distances-finite", detail="d=%r" % (d1,))
        ref = _ref_sqdist(P, M, sg, pw, npt, nobj)
        for i in range(npt):
            P.prove(d1[i] >= 0, "distance-nonnegative")
            P.prove(P.eq(sym.square_of(d1[i]), ref[i]), "distance-equals-geometric-definition")
            P.prove(P.eq(d1[i], d2[i]), "translation-invariant")


def obligations(tier):
    obs = []
    if tier == "quick":
        sizes = [(1, 2), (2, 2), (3, 2), (4, 2), (3, 3)]
    else:
        sizes = [(1, 1), (1, 2), (2, 2), (3, 2), (4, 2), (5, 2), (2, 3), (3, 3), (4, 3)]
    for npt, nobj in sizes:
        h = ParetoFilter(npt=npt, nobj=nobj)
        h.weight = npt ** 3
        obs.append(h)
    perms = [(1, 0), (2, 0, 1), (0, 2, 1)] if tier == "quick" else [(1, 0), (2, 0, 1), (0, 2, 1), (2, 1, 0), (1, 0, 2), (1, 2, 0)]
    for perm in perms:
        h = ParetoInvariance(npt=len(perm), nobj=2, perm=list(perm))
        h.weight = 30
        obs.append(h)
    if tier == "thorough":
        obs.append(ParetoInvariance(npt=3, nobj=3, perm=[2, 0, 1]))
        obs.append(ParetoInvariance(npt=4, nobj=2, perm=[3, 1, 0, 2]))
    for n in ((1, 2) if tier == "quick" else (1, 2, 3)):
        obs.append(Dominates(nobj=n))
    for which in ("core", "prob", "transfn"):
        for (npt, nobj) in ([(1, 2), (2, 2), (3, 2)] if tier == "quick" else [(1, 1), (1, 2), (2, 2), (3, 2), (1, 3)]):      # (2,3), (3,3), (4,2) exhaust time or memory in z3 (non-linear norms)
            h = DistTransform(which=which, npt=npt, nobj=nobj)
            h.weight = 10 * npt * nobj
            obs.append(h)
    return obs


def replay_known(f):
    raise NotImplementedError
