"""C01 Progeny inherit only their designated parents' haplotypes (Mendelian fidelity)

Assume-guarantee decomposition (both halves are solver/term-identity decided on the real code):
  K  the meiosis kernel (mat_meiosis/mat_mate/mat_dh and the duplicate dense_* functions) on symbolic
     alleles, crossover probabilities and uniform draws: every gamete is a left-to-right mosaic of the two
     copies of the selected individual and the copy changes only where the path condition entails xoprob>0;
  P  the seven protocols' mate() with the kernel replaced by its summary (a gamete = fresh tokens that remember
     the two cells they may have been copied from): the crossing structure of every progeny copy, the sharing of
     gametes, progeny count/order/names/family labels/counters and metadata equal the documented crossing diagram;
  E  small end-to-end runs of mate() with the real kernel tie the two together.
"""
import itertools

import numpy
import z3

from ..harness import Harness, And, Or, Not, Implies, Ite, cells, cell
from .. import sym, symnp, stubs, compat
from ..sym import SV
from ..symnp import SymArray, raw

PROPERTY = "C01"
ASSUMPTIONS = [
    "allele cells are distinct uninterpreted integer constants (provenance is read off by term identity); int8 overflow is irrelevant because meiosis only copies",
    "uniform draws 0 <= u < 1 (generator contract); crossover probabilities 0 <= x <= 1 including exact 0 and 0.5",
    "protocol level: mat_meiosis is replaced by its summary, justified by the kernel obligations of the same run",
]
STUBS = ["SymRNG.uniform (fresh reals in [0,1))", "protocol level: summary of mat_meiosis (fresh provenance tokens per gamete cell)"]
BOUNDS = {"quick": dict(kernel="<=2 individuals, <=3 markers, <=2 gametes", protocols="<=3 founders/cross config of <=2 crosses, nmating,nprogeny in {1,2} scalar and per-cross arrays, nself in {0,1,2}, 2 markers",
                        end_to_end="TwoWayCross/SelfCross/TwoWayDHCross with 2 markers, 1 cross"),
          "thorough": dict(kernel="<=2 individuals, <=5 markers, <=2 gametes", protocols="as quick plus 3 crosses, repeated parents and selfs in every column, counters starting at 0/7",
                           end_to_end="all seven protocols, 1-2 markers")}
OUTSIDE = ["more crosses/markers than the bounds", "identity of the draws with the real bit generator"]

UTIL = "pybrops.breed.prot.mate.util"
CORE = "pybrops.core.util.mate"
PGM = "pybrops.popgen.gmat.DensePhasedGenotypeMatrix"
PROTS = {
    "SelfCross": ("pybrops.breed.prot.mate.SelfCross", 1, "sx"),
    "TwoWayCross": ("pybrops.breed.prot.mate.TwoWayCross", 2, "2w"),
    "TwoWayDHCross": ("pybrops.breed.prot.mate.TwoWayDHCross", 2, "dh"),
    "ThreeWayCross": ("pybrops.breed.prot.mate.ThreeWayCross", 3, "3w"),
    "ThreeWayDHCross": ("pybrops.breed.prot.mate.ThreeWayDHCross", 3, "dh"),
    "FourWayCross": ("pybrops.breed.prot.mate.FourWayCross", 4, "4w"),
    "FourWayDHCross": ("pybrops.breed.prot.mate.FourWayDHCross", 4, "dh"),
}


def _founders(mk, n, m, distinct=True):
    """founder allele cells: arbitrary int8 codes.  distinct=True (protocol level): pairwise distinct codes make
    provenance observable in concrete replays; the symbolic check reads provenance off term identity.  The kernel
    obligations use distinct=False so that homozygous loci and coinciding alleles are covered."""
    A = mk.int("a", (2, n, m), lo=-128, hi=127, vd="int8")
    cs = cells(A)
    if not distinct:
        if not mk.concrete:
            # counterexamples are easier to observe on the real code when the alleles differ
            sym.ctx().prefer = list(sym.ctx().prefer) + [z3.Distinct(*[c.e for c in cs])]
        return A
    if mk.concrete:
        mk.assume(len(set(int(c) for c in cs)) == len(cs))
    else:
        sym.ctx().assume(z3.Distinct(*[c.e for c in cs]))
    return A


def _is(c, d):
    """term identity of two cells"""
    if isinstance(c, SV) and isinstance(d, SV):
        return c.e.eq(d.e)
    return (not isinstance(c, SV)) and (not isinstance(d, SV)) and c == d


# --------------------------------------------------------------------------
# K: kernel
# --------------------------------------------------------------------------
class Kernel(Harness):
    name = "meiosis-kernel"

    def modules(self):
        return [UTIL, CORE]

    def inputs(self, mk):
        n, m, k = self.params["n"], self.params["m"], self.params["k"]
        A = _founders(mk, n, m, distinct=False)
        x = mk.real("x", (m,), lo=0, hi=1)
        sel = mk.int("s", (k,), lo=0, hi=n - 1)
        return dict(A=A, x=x, sel=sel, rng=mk.rng())

    def call(self, inp, mk):
        which, fn = self.params["which"], self.params["fn"]
        import importlib
        mod = importlib.import_module(UTIL if which == "util" else CORE)
        names = dict(util=dict(meiosis="mat_meiosis", dh="mat_dh", mate="mat_mate"),
                     core=dict(meiosis="dense_meiosis", dh="dense_dh", mate="dense_cross"))[which]
        f = getattr(mod, names[fn])
        A = inp["A"]
        before = A.copy()
        sel = numpy.array([int(s) for s in cells(inp["sel"])])     # forks over the selected individuals
        if fn == "mate":
            out = f(A, A, sel, sel[::-1].copy(), inp["x"], inp["rng"])
        else:
            out = f(A, sel, inp["x"], inp["rng"])
        return dict(out=out, sel=sel, before=before, after=A)

    def check(self, P, inp, out):
        n, m, k, fn = self.params["n"], self.params["m"], self.params["k"], self.params["fn"]
        A, x, sel, o = inp["A"], inp["x"], out["sel"], out["out"]
        P.prove(tuple(o.shape) == ((k, m) if fn == "meiosis" else (2, k, m)), "gamete/progeny-shape")
        for c1, c2 in zip(cells(out["before"]), cells(out["after"])):
            P.prove(_is(c1, c2) if not P.concrete else c1 == c2, "parental-genotypes-unaltered")
        sides = [(None, sel)] if fn == "meiosis" else ([(0, sel), (1, sel)] if fn == "dh" else [(0, sel), (1, sel[::-1])])
        if P.concrete:
            # concrete replay: the gamete must equal the reference meiosis driven by the same draws
            vals = inp["rng"].values
            from fractions import Fraction
            for side, ss in sides:
                callno = 2 if (fn == "mate" and side == 1) else 1
                for i in range(k):
                    ph = 0
                    for j in range(m):
                        u = vals.get("rng_%d_u_%d" % (callno, i * m + j), 0)
                        u = float(Fraction(u)) if isinstance(u, str) else float(u)
                        if u < float(cell(x, j)):
                            ph = 1 - ph
                        got = cell(o, i, j) if side is None else cell(o, side, i, j)
                        P.prove(int(got) == int(cell(A, ph, int(ss[i]), j)), "gamete-equals-reference-meiosis-for-the-same-draws",
                                detail="gamete %d marker %d" % (i, j))
            return
        for side, ss in sides:
            for i in range(k):
                prev = None
                for j in range(m):
                    c = cell(o, i, j) if side is None else cell(o, side, i, j)
                    src = [h for h in (0, 1) if (P.eq(c, cell(A, h, int(ss[i]), j)) if P.concrete else _is(c, cell(A, h, int(ss[i]), j)))]
                    P.prove(len(src) == 1, "gamete-cell-is-a-copy-of-the-selected-individual",
                            detail="cell %s at gamete %d marker %d" % (c, i, j))
                    if len(src) != 1:
                        continue
                    h = src[0]
                    if (prev is None and h != 0) or (prev is not None and h != prev):
                        P.prove(cell(x, j) > 0, "copy-changes-only-where-xoprob>0")
                    prev = h
        if fn == "dh":
            for i in range(k):
                for j in range(m):
                    a, b = cell(o, 0, i, j), cell(o, 1, i, j)
                    P.prove(P.eq(a, b) if P.concrete else _is(a, b), "doubled-haploid-is-homozygous")


# --------------------------------------------------------------------------
# P: protocols with the kernel summary
# --------------------------------------------------------------------------
class Summary:
    """summary of mat_meiosis: cell (i,j) of the gamete is a fresh token remembering its two possible sources"""

    def __init__(self):
        self.tokens = {}     # z3 ast id -> (gamete id, src0 cell, src1 cell)
        self.ngam = 0
        self.calls = []
        self.keep = []

    def __call__(self, geno, sel, xoprob, rng):
        m = len(xoprob)
        g = raw(geno) if isinstance(geno, SymArray) else geno
        if g.shape[0] != 2 or g.shape[2] != m:
            raise AssertionError("kernel called with inconsistent shapes %s / %d markers" % (g.shape, m))
        out = numpy.empty((len(sel), m), dtype=object)
        for i, s in enumerate(sel):
            s = int(s)
            if not (0 <= s < g.shape[1]):
                raise IndexError("selection index %d out of range" % s)
            gid = self.ngam
            self.ngam += 1
            for j in range(m):
                t = z3.Int("tok%d_%d" % (gid, j))
                self.keep.append(t)
                self.tokens[t.get_id()] = (gid, g[0, s, j], g[1, s, j])
                out[i, j] = SV(t)
        self.calls.append((len(sel), m))
        return SymArray(out, geno.dtype)

    def struct(self, cellv, founders, j):
        """cell -> nested structure: ('F', h, i) for founder copy cells, ('G', gamete id, struct(src0), struct(src1))"""
        if isinstance(cellv, SV):
            key = cellv.e.get_id()
            if key in self.tokens:
                gid, s0, s1 = self.tokens[key]
                return ("G", gid, self.struct(s0, founders, j), self.struct(s1, founders, j))
            if key in founders:
                return ("F",) + founders[key]
        raise AssertionError("cell of unknown provenance: %r" % (cellv,))


def ref_structure(prot, xconfig, nmating, nprogeny, nself):
    """documented crossing diagrams -> per progeny (copy0, copy1) structures with fresh gamete ids, in output order"""
    gid = [0]

    def G(ind):
        g = ("G", gid[0], ind[0], ind[1])
        gid[0] += 1
        return g

    def Fd(i):
        return (("F", 0, int(i)), ("F", 1, int(i)))

    def H(gf, gm):
        return (gf, gm)

    def selfn(x):
        for _ in range(nself):
            x = H(G(x), G(x))
        return x
    out = []
    dh = prot.endswith("DHCross")
    # gamete creation order inside the library is irrelevant: ids are compared up to renaming
    for c, row in enumerate(xconfig):
        nm, npg = int(nmating[c]), int(nprogeny[c])
        fam = []
        if prot == "SelfCross":
            for _ in range(nm * npg):
                fam.append(selfn(H(G(Fd(row[0])), G(Fd(row[0])))))
        elif prot == "TwoWayCross":
            for _ in range(nm * npg):
                fam.append(selfn(H(G(Fd(row[0])), G(Fd(row[1])))))
        elif prot == "TwoWayDHCross":
            for _ in range(nm):
                x = selfn(H(G(Fd(row[0])), G(Fd(row[1]))))
                for _ in range(npg):
                    g = G(x)
                    fam.append(H(g, g))
        elif prot == "ThreeWayCross":
            for _ in range(nm):
                f1 = H(G(Fd(row[1])), G(Fd(row[2])))
                for _ in range(npg):
                    fam.append(selfn(H(G(Fd(row[0])), G(f1))))
        elif prot == "ThreeWayDHCross":
            for _ in range(nm):
                f1 = H(G(Fd(row[1])), G(Fd(row[2])))
                bc = selfn(H(G(Fd(row[0])), G(f1)))
                for _ in range(npg):
                    g = G(bc)
                    fam.append(H(g, g))
        elif prot == "FourWayCross":
            for _ in range(nm):
                ab = H(G(Fd(row[2])), G(Fd(row[3])))
                cd = H(G(Fd(row[0])), G(Fd(row[1])))
                for _ in range(npg):
                    fam.append(selfn(H(G(ab), G(cd))))
        elif prot == "FourWayDHCross":
            for _ in range(nm):
                ab = H(G(Fd(row[2])), G(Fd(row[3])))
                cd = H(G(Fd(row[0])), G(Fd(row[1])))
                x = selfn(H(G(ab), G(cd)))
                for _ in range(npg):
                    g = G(x)
                    fam.append(H(g, g))
        else:
            raise KeyError(prot)
        out.append(fam)
    return out


def _shape(st):
    """structure with gamete ids erased"""
    if st[0] == "F":
        return st
    return ("G", _shape(st[2]), _shape(st[3]))


def _occ(st, path, acc):
    if st[0] == "G":
        acc.append((path, st[1]))
        _occ(st[2], path + "0", acc)
        _occ(st[3], path + "1", acc)


def sharing(progeny_structs):
    """partition of all gamete occurrences (progeny, copy, path) by gamete identity"""
    groups = {}
    for k, (c0, c1) in enumerate(progeny_structs):
        for h, st in ((0, c0), (1, c1)):
            acc = []
            _occ(st, "", acc)
            for path, gid in acc:
                groups.setdefault(gid, set()).add((k, h, path))
    return set(frozenset(v) for v in groups.values())


def _mk_pgmat(A, x, n, m, unsorted=False):
    from pybrops.popgen.gmat.DensePhasedGenotypeMatrix import DensePhasedGenotypeMatrix
    if unsorted:
        # parents whose variants are stored out of (chromosome, position) order and are not grouped: mating must not reorder anything
        chrgrp = numpy.array([2, 1, 2, 1, 2][:m], dtype="int64")
        phypos = numpy.array([9, 7, 5, 3, 1][:m], dtype="int64")
    else:
        chrgrp, phypos = numpy.ones(m, dtype="int64"), numpy.arange(m) + 1
    pg = DensePhasedGenotypeMatrix(mat=A, taxa=numpy.array(["p%d" % i for i in range(n)], dtype=object), taxa_grp=numpy.arange(n) + 100,
                                   vrnt_chrgrp=chrgrp, vrnt_phypos=phypos,
                                   vrnt_name=numpy.array(["snp%d" % j for j in range(m)], dtype=object),
                                   vrnt_genpos=numpy.arange(m) * 0.1, vrnt_xoprob=x)
    if not unsorted:
        pg.group_vrnt()
    return pg


def _meta(pg):
    return dict(chrgrp=numpy.array(pg.vrnt_chrgrp), phypos=numpy.array(pg.vrnt_phypos), name=numpy.array(pg.vrnt_name),
                genpos=numpy.array(pg.vrnt_genpos), stix=numpy.array(pg.vrnt_chrgrp_stix), spix=numpy.array(pg.vrnt_chrgrp_spix),
                ln=numpy.array(pg.vrnt_chrgrp_len), taxa=numpy.array(pg.taxa), taxa_grp=numpy.array(pg.taxa_grp))


class Protocol(Harness):
    name = "mating-protocol-structure"
    needs_real_run = False       # the kernel summary has no concrete counterpart; E2E harnesses run the real kernel

    def modules(self):
        return [UTIL, PGM] + [v[0] for v in PROTS.values()]

    def inputs(self, mk):
        n, m = self.params["n"], self.params["m"]
        return dict(A=_founders(mk, n, m), x=mk.real("x", (m,), lo=0, hi=1))

    def call(self, inp, mk):
        import importlib
        prot = self.params["prot"]
        modname, npar, prefix = PROTS[prot]
        mod = importlib.import_module(modname)
        util = importlib.import_module(UTIL)
        n, m = self.params["n"], self.params["m"]
        A = inp["A"]
        pg = _mk_pgmat(A.copy(), inp["x"], n, m, unsorted=bool(self.params.get("unsorted")))
        meta0 = _meta(pg)
        summ = Summary()
        saved = util.mat_meiosis
        util.mat_meiosis = summ
        try:
            p = getattr(mod, prot)(progeny_counter=self.params.get("pc", 0), family_counter=self.params.get("fc", 0), rng=stubs.SymRNG("unused"))
            xc = numpy.array(self.params["xconfig"], dtype=int)
            nm, npg = self.params["nmating"], self.params["nprogeny"]
            nm = numpy.array(nm) if isinstance(nm, list) else nm
            npg = numpy.array(npg) if isinstance(npg, list) else npg
            prog = p.mate(pg, xc, nm, npg, nself=self.params["nself"])
        finally:
            util.mat_meiosis = saved
        return dict(prog=prog, summ=summ, pg=pg, meta0=meta0, counters=(p.progeny_counter, p.family_counter))

    def check(self, P, inp, out):
        prot = self.params["prot"]
        modname, npar, prefix = PROTS[prot]
        n, m = self.params["n"], self.params["m"]
        xc = numpy.array(self.params["xconfig"], dtype=int)
        ncross = len(xc)
        nm, npg = self.params["nmating"], self.params["nprogeny"]
        nm = numpy.array(nm) if isinstance(nm, list) else numpy.repeat(nm, ncross)
        npg = numpy.array(npg) if isinstance(npg, list) else numpy.repeat(npg, ncross)
        pc0, fc0 = self.params.get("pc", 0), self.params.get("fc", 0)
        ref = ref_structure(prot, xc, nm, npg, self.params["nself"])
        flat_ref = [s for fam in ref for s in fam]
        prog, summ = out["prog"], out["summ"]
        A = inp["A"]
        founders = {}
        for h in range(2):
            for i in range(n):
                for j in range(m):
                    founders[cell(A, h, i, j).e.get_id()] = (h, i, j)
        nprog = len(flat_ref)
        mat = prog.mat
        P.prove(tuple(mat.shape) == (2, nprog, m), "progeny-count", detail="shape %s expected %d progeny" % (tuple(mat.shape), nprog))
        # names, family labels, counters
        exp_names = ["%s%s" % (prefix, str(pc0 + k).zfill(7)) for k in range(nprog)]
        exp_fam = [fc0 + c for c, fam in enumerate(ref) for _ in fam]
        P.prove([str(t) for t in prog.taxa] == exp_names, "progeny-names-follow-the-counter", detail="%s" % list(prog.taxa))
        P.prove([int(g) for g in prog.taxa_grp] == exp_fam, "family-labels-follow-the-configuration", detail="%s vs %s" % (list(prog.taxa_grp), exp_fam))
        P.prove(out["counters"] == (pc0 + nprog, fc0 + ncross), "counters-advance-by-the-numbers-produced", detail="%s" % (out["counters"],))
        P.prove(prog.is_grouped_taxa(), "progeny-grouped-by-family")
        # crossing structure per progeny, copy and marker
        got = []
        for k in range(nprog):
            per_marker = []
            for j in range(m):
                c0 = summ.struct(cell(mat, 0, k, j), founders, j)
                c1 = summ.struct(cell(mat, 1, k, j), founders, j)
                per_marker.append((c0, c1))
            got.append(per_marker)
        for k in range(nprog):
            r0, r1 = flat_ref[k]
            for j in range(m):
                g0, g1 = got[k][j]
                def at_marker(st):
                    return st if st[0] != "F" else ("F", st[1], st[2])
                def drop_j(st):
                    if st[0] == "F":
                        return ("F", st[1], st[2])
                    return ("G", drop_j(st[2]), drop_j(st[3]))
                P.prove(all(_marker_ok(st, j) for st in (g0, g1)), "every-source-cell-is-at-the-same-marker")
                P.prove(drop_j(g0) == _shape(r0) and drop_j(g1) == _shape(r1), "crossing-structure-equals-the-documented-diagram",
                        detail="progeny %d marker %d: got %s / %s expected %s / %s" % (k, j, drop_j(g0), drop_j(g1), _shape(r0), _shape(r1)))
        # gamete sharing (independent meioses; DH = one gamete twice), identical at every marker
        for j in range(m):
            gs = sharing([got[k][j] for k in range(nprog)])
            P.prove(gs == sharing(flat_ref), "gametes-shared-exactly-as-in-the-diagram (independent meioses)")
        # inputs and metadata
        for c1, c2 in zip(cells(out["pg"].mat), cells(A)):
            P.prove(_is(c1, c2), "parental-genotypes-unaltered")
        m1 = _meta(out["pg"])
        for k_ in out["meta0"]:
            P.prove(numpy.array_equal(out["meta0"][k_], m1[k_]), "parental-metadata-unaltered")
        for a, b in ((prog.vrnt_chrgrp, out["pg"].vrnt_chrgrp), (prog.vrnt_phypos, out["pg"].vrnt_phypos), (prog.vrnt_name, out["pg"].vrnt_name),
                     (prog.vrnt_genpos, out["pg"].vrnt_genpos), (prog.vrnt_chrgrp_stix, out["pg"].vrnt_chrgrp_stix),
                     (prog.vrnt_chrgrp_spix, out["pg"].vrnt_chrgrp_spix), (prog.vrnt_chrgrp_len, out["pg"].vrnt_chrgrp_len),
                     (prog.vrnt_chrgrp_name, out["pg"].vrnt_chrgrp_name)):
            P.prove(numpy.array_equal(numpy.array(a), numpy.array(b)), "marker-metadata-carried-over")
        for c1, c2 in zip(cells(prog.vrnt_xoprob), cells(inp["x"])):
            P.prove(_is(c1, c2), "crossover-probabilities-carried-over")


def _protocol_concrete_replay(self, vals):
    """real mate() with the real kernel on real numpy: founders carry pairwise distinct allele codes, several real
    generator seeds; checks count, names, family labels, counters, designated founders per copy, DH homozygosity"""
    import importlib
    compat.load(*self.modules())
    compat.symbolic_mode(False)
    prot = self.params["prot"]
    modname, npar, prefix = PROTS[prot]
    mod = importlib.import_module(modname)
    n, m = self.params["n"], self.params["m"]
    A = (numpy.arange(2 * n * m, dtype="int8") + 1).reshape(2, n, m)
    xc = numpy.array(self.params["xconfig"], dtype=int)
    ncross = len(xc)
    nm, npg = self.params["nmating"], self.params["nprogeny"]
    nmv = numpy.array(nm) if isinstance(nm, list) else numpy.repeat(nm, ncross)
    npv = numpy.array(npg) if isinstance(npg, list) else numpy.repeat(npg, ncross)
    pc0, fc0 = self.params.get("pc", 0), self.params.get("fc", 0)
    ref = ref_structure(prot, xc, nmv, npv, self.params["nself"])
    flat = [s_ for fam in ref for s_ in fam]

    def founders_of(st, acc):
        if st[0] == "F":
            acc.add(st[2])
        else:
            founders_of(st[2], acc)
            founders_of(st[3], acc)
        return acc
    fails = []
    for seed in range(6):
        x = numpy.array([0.5] + [0.3] * (m - 1))
        try:
            # the crossover probabilities of the counterexample (every second run), so that a change of the stored
            # probabilities themselves is observable
            from fractions import Fraction
            if seed % 2 == 1 and all(("x_%d" % j) in vals for j in range(m)):
                x = numpy.array([float(Fraction(str(vals["x_%d" % j]))) for j in range(m)])
        except Exception:
            pass
        x0 = x.copy()
        pg = _mk_pgmat(A.copy(), x, n, m, unsorted=bool(self.params.get("unsorted")))
        xo_before = numpy.array(pg.vrnt_xoprob, dtype=float).copy()
        names0 = [str(v) for v in pg.vrnt_name]
        p = getattr(mod, prot)(progeny_counter=pc0, family_counter=fc0, rng=numpy.random.RandomState(seed))
        try:
            prog = p.mate(pg, xc, numpy.array(nm) if isinstance(nm, list) else nm, numpy.array(npg) if isinstance(npg, list) else npg, nself=self.params["nself"])
        except Exception as ex:
            return True, "real mate() raised %s: %s" % (type(ex).__name__, ex)
        if prog.mat.shape != (2, len(flat), m):
            fails.append("progeny array shape %s, expected %d progeny" % (prog.mat.shape, len(flat)))
            break
        if [str(t) for t in prog.taxa] != ["%s%s" % (prefix, str(pc0 + k).zfill(7)) for k in range(len(flat))]:
            fails.append("names %s" % list(prog.taxa))
        if [int(g) for g in prog.taxa_grp] != [fc0 + c for c, fam in enumerate(ref) for _ in fam]:
            fails.append("family labels %s" % list(prog.taxa_grp))
        if (p.progeny_counter, p.family_counter) != (pc0 + len(flat), fc0 + ncross):
            fails.append("counters %s" % ((p.progeny_counter, p.family_counter),))
        for k, (r0, r1) in enumerate(flat):
            for h, st in ((0, r0), (1, r1)):
                allowed = founders_of(st, set())
                for j in range(m):
                    v = int(prog.mat[h, k, j])
                    hh, i, jj = numpy.unravel_index(v - 1, (2, n, m))
                    if jj != j or int(i) not in allowed:
                        fails.append("progeny %d copy %d marker %d carries the allele of founder %d (marker %d); designated founders %s" % (k, h, j, i, jj, sorted(allowed)))
            if prot.endswith("DHCross") and not numpy.array_equal(prog.mat[0, k], prog.mat[1, k]):
                fails.append("DH progeny %d heterozygous" % k)
        if not numpy.array_equal(pg.mat, A):
            fails.append("parental genotypes modified")
        if not numpy.array_equal(numpy.array(pg.vrnt_xoprob, dtype=float), xo_before):
            fails.append("parental crossover probabilities modified: %s -> %s" % (list(xo_before), list(pg.vrnt_xoprob)))
        if not numpy.array_equal(numpy.array(prog.vrnt_xoprob, dtype=float), xo_before):
            fails.append("crossover probabilities not carried over: parents %s, progeny %s" % (list(xo_before), list(prog.vrnt_xoprob)))
        if [str(v) for v in prog.vrnt_name] != names0:
            fails.append("marker metadata not carried over in the parental order: %s vs %s" % ([str(v) for v in prog.vrnt_name], names0))
        if fails:
            break
    return (len(fails) > 0), ("real mate() with real RandomState: " + ("; ".join(fails[:3]) if fails else "no structural difference observable in 6 seeded runs"))


Protocol.custom_replay = _protocol_concrete_replay


def _marker_ok(st, j):
    if st[0] == "F":
        return st[3] == j
    return _marker_ok(st[2], j) and _marker_ok(st[3], j)


# --------------------------------------------------------------------------
# E: end to end with the real kernel
# --------------------------------------------------------------------------
class EndToEnd(Harness):
    name = "mate-end-to-end"

    def modules(self):
        return [UTIL, PGM] + [v[0] for v in PROTS.values()]

    def inputs(self, mk):
        n, m = self.params["n"], self.params["m"]
        return dict(A=_founders(mk, n, m), x=mk.real("x", (m,), lo=0, hi=1), rng=mk.rng())

    def call(self, inp, mk):
        import importlib
        prot = self.params["prot"]
        modname, npar, prefix = PROTS[prot]
        mod = importlib.import_module(modname)
        n, m = self.params["n"], self.params["m"]
        pg = _mk_pgmat(inp["A"].copy(), inp["x"], n, m)
        p = getattr(mod, prot)(rng=inp["rng"])
        prog = p.mate(pg, numpy.array(self.params["xconfig"], dtype=int), self.params["nmating"], self.params["nprogeny"], nself=self.params["nself"])
        return dict(mat=prog.mat, taxa_grp=numpy.array(prog.taxa_grp), pgmat=pg.mat)

    def check(self, P, inp, out):
        prot = self.params["prot"]
        n, m = self.params["n"], self.params["m"]
        xc = numpy.array(self.params["xconfig"], dtype=int)
        nm = numpy.repeat(self.params["nmating"], len(xc))
        npg = numpy.repeat(self.params["nprogeny"], len(xc))
        ref = [s for fam in ref_structure(prot, xc, nm, npg, self.params["nself"]) for s in fam]
        A, x, mat = inp["A"], inp["x"], out["mat"]
        P.prove(tuple(mat.shape) == (2, len(ref), m), "progeny-count")

        def founders_of(st, acc):
            if st[0] == "F":
                acc.add(st[2])
            else:
                founders_of(st[2], acc)
                founders_of(st[3], acc)
            return acc
        for k, (r0, r1) in enumerate(ref):
            for h, st in ((0, r0), (1, r1)):
                allowed = sorted(founders_of(st, set()))
                prev = None
                for j in range(m):
                    c = cell(mat, h, k, j)
                    src = [(hh, i) for hh in (0, 1) for i in allowed
                           if (P.eq(c, cell(A, hh, i, j)) if P.concrete else _is(c, cell(A, hh, i, j)))]
                    P.prove(len(src) == 1, "progeny-cell-comes-from-a-designated-founder", detail="progeny %d copy %d marker %d: %s" % (k, h, j, c))
                    if len(src) != 1:
                        continue
                    if prev is not None and src[0] != prev:
                        P.prove(cell(x, j) > 0, "founder-copy-changes-only-where-xoprob>0")
                    prev = src[0]
            if prot.endswith("DHCross"):
                for j in range(m):
                    a, b = cell(mat, 0, k, j), cell(mat, 1, k, j)
                    P.prove(P.eq(a, b) if P.concrete else _is(a, b), "doubled-haploid-is-homozygous")
        for c1, c2 in zip(cells(out["pgmat"]), cells(A)):
            P.prove(P.eq(c1, c2) if P.concrete else _is(c1, c2), "parental-genotypes-unaltered")


def _configs(npar, tier):
    base = list(range(npar))
    cfgs = [[base]]
    cfgs.append([base, [(i + 1) % max(npar, 2) if npar > 1 else 0 for i in base][::-1] if npar > 1 else [1]])
    cfgs.append([[0] * npar, base])                   # selfs / repeated parents
    cfgs.append([base, [0] * npar])                   # a later cross whose founders are a strict subset of an earlier one
    if tier == "thorough":
        cfgs.append([base, base, [2 % 3] * npar])
        cfgs.append([[1] * npar])
        cfgs.append([base[::-1], [0] * npar, base])
    return cfgs


def obligations(tier):
    obs = []
    kern = [(1, 1, 1), (2, 2, 1), (2, 2, 2), (2, 3, 1)] if tier == "quick" else [(1, 1, 1), (2, 2, 1), (2, 2, 2), (2, 3, 1), (2, 3, 2), (2, 4, 1), (2, 5, 1), (2, 4, 2)]
    for which in ("util", "core"):
        for fn in ("meiosis", "dh", "mate"):
            for n, m, k in kern:
                if fn == "mate" and m * k > 6:
                    continue
                h = Kernel(which=which, fn=fn, n=n, m=m, k=k)
                h.weight = 2 ** (m * k * (2 if fn == "mate" else 1))
                obs.append(h)
    # per-cross arrays include a cross that yields no progeny at all (count 0): counters and family labels must still advance per cross
    counts = [(1, 1), (2, 1), (1, 2), (2, 2), ([1, 2], [2, 1]), (1, [2, 0]), ([0, 1], 1)] if tier == "quick" else \
        [(1, 1), (2, 1), (1, 2), (2, 2), ([1, 2], [2, 1]), ([2, 1], [1, 2]), (1, [1, 2]), ([2, 2], 1), (1, [2, 0]), ([0, 1], 1), ([1, 2], [0, 2]), (2, [0, 1])]
    for prot, (modname, npar, prefix) in PROTS.items():
        for xc in _configs(npar, tier):
            for nm, npg in counts:
                if isinstance(nm, list) and len(nm) != len(xc):
                    nm_ = (nm * 3)[:len(xc)]
                else:
                    nm_ = nm
                if isinstance(npg, list) and len(npg) != len(xc):
                    npg_ = (npg * 3)[:len(xc)]
                else:
                    npg_ = npg
                for nself in ((0, 1) if tier == "quick" else (0, 1, 2)):
                    for (pc, fc) in (((0, 0),) if tier == "quick" else ((0, 0), (7, 3))):
                        h = Protocol(prot=prot, n=max(3, npar), m=2, xconfig=xc, nmating=nm_, nprogeny=npg_, nself=nself, pc=pc, fc=fc)
                        h.weight = 1
                        obs.append(h)
    # ungrouped parents with variants out of order: one configuration per protocol
    for prot, (modname, npar, prefix) in PROTS.items():
        obs.append(Protocol(prot=prot, n=max(3, npar), m=2, xconfig=[list(range(npar))], nmating=1, nprogeny=1, nself=0, pc=0, fc=0, unsorted=True))
        if tier == "thorough":
            obs.append(Protocol(prot=prot, n=max(3, npar), m=2, xconfig=[list(range(npar)), [0] * npar], nmating=[1, 2], nprogeny=[2, 1], nself=1, pc=0, fc=0, unsorted=True))
    e2e = [("TwoWayCross", [[0, 1]], 1, 1, 0, 2), ("TwoWayCross", [[0, 1]], 1, 1, 1, 1), ("SelfCross", [[1]], 1, 1, 0, 2),
           ("TwoWayDHCross", [[1, 0]], 1, 1, 0, 2), ("ThreeWayCross", [[2, 0, 1]], 1, 1, 0, 1)]
    if tier == "thorough":
        e2e += [("TwoWayCross", [[0, 1], [1, 1]], 1, 1, 0, 2), ("TwoWayDHCross", [[1, 0]], 1, 2, 1, 1), ("ThreeWayDHCross", [[2, 0, 1]], 1, 1, 0, 1),
                ("FourWayCross", [[0, 1, 2, 3]], 1, 1, 0, 1), ("FourWayDHCross", [[0, 1, 2, 1]], 1, 1, 0, 1), ("ThreeWayCross", [[2, 0, 1]], 1, 1, 0, 2),
                ("SelfCross", [[1]], 1, 2, 1, 1), ("TwoWayCross", [[0, 1]], 1, 1, 0, 3)]
    for prot, xc, nm, npg, nself, m in e2e:
        h = EndToEnd(prot=prot, n=max(3, PROTS[prot][1]), m=m, xconfig=xc, nmating=nm, nprogeny=npg, nself=nself)
        h.weight = 4 ** (m * 3)
        obs.append(h)
    return obs


def replay_known(f):
    raise NotImplementedError
