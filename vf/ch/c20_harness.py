"""CrossHair target for C20: the real RecurrentSelectionBreedingProgram driven by recording operators.
Run by vf/props/C20.py:  crosshair check --report_all --per_condition_timeout N c20_harness.py"""
import copy
import os
import sys
from typing import List, Tuple

import numpy
if not hasattr(numpy, "float_"):
    numpy.float_ = numpy.float64
if not hasattr(numpy, "in1d"):
    numpy.in1d = lambda a, b, **k: numpy.isin(a, b, **k).ravel()
sys.path.insert(0, os.environ.get("VERIF_REPO", "/repo"))

from pybrops.breed.arch.RecurrentSelectionBreedingProgram import RecurrentSelectionBreedingProgram as RSBP
from pybrops.breed.op.init.InitializationOperator import InitializationOperator
from pybrops.breed.op.psel.ParentSelectionOperator import ParentSelectionOperator
from pybrops.breed.op.mate.MatingOperator import MatingOperator
from pybrops.breed.op.eval.EvaluationOperator import EvaluationOperator
from pybrops.breed.op.ssel.SurvivorSelectionOperator import SurvivorSelectionOperator
from pybrops.breed.op.log.Logbook import Logbook

KEYS = ("genome", "geno", "pheno", "bval", "gmod")


class Box(dict):
    """a container (population / data table) handed between the operators: a dict (the type the programme class demands) whose
    history of visits is kept in an attribute; `empty` models a valid but empty container (an empty dict is falsy): nothing in
    the programme loop may depend on the truth value of a container"""

    def __init__(self, v, empty=False):
        dict.__init__(self)
        self.hist, self.empty = list(v), empty
        if not empty:
            dict.__setitem__(self, "payload", 1)

    def __getitem__(self, k):
        if k == "v":
            return self.hist
        return dict.__getitem__(self, k)

    @property
    def falsy(self):
        return self.empty


def snap(kw) -> str:
    """content of the five containers an operator/logbook received"""
    return "|".join(",".join(kw[k]["v"]) for k in KEYS)


class Rec:
    def __init__(self, mut_psel, mut_mate, mut_eval, mut_ssel):
        self.trace = []
        self.mut = dict(psel=mut_psel, mate=mut_mate, eval=mut_eval, ssel=mut_ssel)

    def step(self, name, kw):
        self.trace.append("%s@%d[%s]" % (name, kw["t_cur"], snap(kw)))
        out = []
        for k in KEYS:
            c = kw[k]
            if self.mut[name]:
                c["v"].append(name)              # mutate the received container in place and hand it back
                out.append(c)
            else:
                out.append(Box(c["v"] + [name], c.falsy))   # fresh container
        return out


class Init(InitializationOperator):
    def __init__(self, rec, empty=False): self.rec, self.empty = rec, empty
    def initialize(self, miscout=None, **kw):
        self.rec.trace.append("init")
        return tuple(Box(["s%d" % i], self.empty) for i in range(5))


class PSel(ParentSelectionOperator):
    def __init__(self, rec): self.rec = rec
    def pselect(self, genome, geno, pheno, bval, gmod, t_cur, t_max, miscout=None, **kw):
        st = self.rec.step("psel", dict(genome=genome, geno=geno, pheno=pheno, bval=bval, gmod=gmod, t_cur=t_cur))
        return ("cfg%d" % t_cur, *st)


class Mate(MatingOperator):
    def __init__(self, rec): self.rec = rec
    def mate(self, mcfg, genome, geno, pheno, bval, gmod, t_cur, t_max, miscout=None, **kw):
        self.rec.trace.append("mcfg=%s" % (mcfg,))
        return tuple(self.rec.step("mate", dict(genome=genome, geno=geno, pheno=pheno, bval=bval, gmod=gmod, t_cur=t_cur)))


class Eval(EvaluationOperator):
    def __init__(self, rec): self.rec = rec
    def evaluate(self, genome, geno, pheno, bval, gmod, t_cur, t_max, miscout=None, **kw):
        return tuple(self.rec.step("eval", dict(genome=genome, geno=geno, pheno=pheno, bval=bval, gmod=gmod, t_cur=t_cur)))


class SSel(SurvivorSelectionOperator):
    def __init__(self, rec): self.rec = rec
    def sselect(self, genome, geno, pheno, bval, gmod, t_cur, t_max, miscout=None, **kw):
        return tuple(self.rec.step("ssel", dict(genome=genome, geno=geno, pheno=pheno, bval=bval, gmod=gmod, t_cur=t_cur)))


class LB(Logbook):
    def __init__(self, rec):
        self.rec = rec
        self._rep = 0
        self._data = None
    @property
    def data(self): return self._data
    @data.setter
    def data(self, v): self._data = v
    @property
    def rep(self): return self._rep
    @rep.setter
    def rep(self, v): self._rep = v
    def _log(self, name, kw):
        self.rec.trace.append("L%s#%d@%d[%s]" % (name, self._rep, kw["t_cur"], snap(kw)))
    def log_initialize(self, genome, geno, pheno, bval, gmod, t_cur, t_max, **kw):
        self._log("init", dict(genome=genome, geno=geno, pheno=pheno, bval=bval, gmod=gmod, t_cur=t_cur))
    def log_pselect(self, mcfg, genome, geno, pheno, bval, gmod, t_cur, t_max, **kw):
        self._log("psel", dict(genome=genome, geno=geno, pheno=pheno, bval=bval, gmod=gmod, t_cur=t_cur))
    def log_mate(self, genome, geno, pheno, bval, gmod, t_cur, t_max, **kw):
        self._log("mate", dict(genome=genome, geno=geno, pheno=pheno, bval=bval, gmod=gmod, t_cur=t_cur))
    def log_evaluate(self, genome, geno, pheno, bval, gmod, t_cur, t_max, **kw):
        self._log("eval", dict(genome=genome, geno=geno, pheno=pheno, bval=bval, gmod=gmod, t_cur=t_cur))
    def log_sselect(self, genome, geno, pheno, bval, gmod, t_cur, t_max, **kw):
        self._log("ssel", dict(genome=genome, geno=geno, pheno=pheno, bval=bval, gmod=gmod, t_cur=t_cur))
    def reset(self): pass
    def write(self, filename): pass


def run(nrep: int, ngen: int, mut_psel: bool, mut_mate: bool, mut_eval: bool, mut_ssel: bool,
        loginit: bool, preinit: bool, t_max: int = 1, empty: bool = False) -> List[str]:
    rec = Rec(mut_psel, mut_mate, mut_eval, mut_ssel)
    kw = {}
    if preinit:
        kw = dict(start_genome=Box(["s0"], empty), start_geno=Box(["s1"], empty), start_pheno=Box(["s2"], empty),
                  start_bval=Box(["s3"], empty), start_gmod=Box(["s4"], empty))
    bp = RSBP(initop=Init(rec, empty), pselop=PSel(rec), mateop=Mate(rec), evalop=Eval(rec), sselop=SSel(rec), t_max=t_max, **kw)
    bp.evolve(nrep, ngen, LB(rec), loginit=loginit)
    starts = [",".join(getattr(bp, "start_" + k)["v"]) for k in KEYS]
    return rec.trace + ["START[%s]" % "|".join(starts)]


def expected(nrep: int, ngen: int, loginit: bool, preinit: bool) -> List[str]:
    """reference: initialise once if needed; per replicate evaluate the freshly reset start state at t=0, log it,
    then per generation pselect -> log -> mate -> log -> evaluate -> log -> sselect -> log, t growing by one"""
    out = [] if preinit else ["init"]
    for r in range(nrep):
        hist = [["s%d" % i] for i in range(5)]           # every replicate starts from the initial state

        def s():
            return "|".join(",".join(h) for h in hist)
        out.append("eval@0[%s]" % s())
        for h in hist:
            h.append("eval")
        if loginit:
            out.append("Linit#%d@0[%s]" % (r + 1, s()))
        for g in range(ngen):
            t = g + 1
            for name in ("psel", "mate", "eval", "ssel"):
                if name == "mate":
                    out.append("mcfg=cfg%d" % t)
                out.append("%s@%d[%s]" % (name, t, s()))
                for h in hist:
                    h.append(name)
                out.append("L%s#%d@%d[%s]" % (name, r + 1, t, s()))
    out.append("START[s0|s1|s2|s3|s4]")
    return out


# MUT_PSEL, MUT_MATE, MUT_EVAL, MUT_SSEL, NREP_MAX, NGEN_MAX, TMAX_LO, TMAX_HI are substituted by vf/props/C20.py
def check(nrep: int, ngen: int, loginit: bool, preinit: bool, t_max: int, empty: bool) -> bool:
    """
    pre: 0 <= nrep <= NREP_MAX
    pre: 0 <= ngen <= NGEN_MAX
    pre: TMAX_LO <= t_max <= TMAX_HI
    post: _ == True
    """
    return run(nrep, ngen, MUT_PSEL, MUT_MATE, MUT_EVAL, MUT_SSEL, loginit, preinit, t_max, empty) == expected(nrep, ngen, loginit, preinit)


def reach(nrep: int, ngen: int, loginit: bool, preinit: bool, t_max: int, empty: bool) -> bool:
    """
    reachability twin: must be refuted
    pre: 0 <= nrep <= NREP_MAX
    pre: 0 <= ngen <= NGEN_MAX
    pre: TMAX_LO <= t_max <= TMAX_HI
    post: _ == False
    """
    return run(nrep, ngen, MUT_PSEL, MUT_MATE, MUT_EVAL, MUT_SSEL, loginit, preinit, t_max, empty) == expected(nrep, ngen, loginit, preinit)


if __name__ == "__main__":
    import json
    args = json.loads(sys.argv[1])
    got = run(**args)
    exp = expected(args["nrep"], args["ngen"], args["loginit"], args["preinit"])
    if got != exp:
        for i, (a, b) in enumerate(zip(got + ["<end>"] * 3, exp + ["<end>"] * 3)):
            if a != b:
                print("first difference at step %d: got %s expected %s" % (i, a, b))
                break
        sys.exit(1)
    print("trace matches (%d steps)" % len(got))
