"""
Runs the obligations of one property in parallel, replays counterexamples on the real
code, applies known findings, writes evidence, prints VIOLATION / KNOWN-FINDING lines.

exit codes: 0 held on everything explored; 1 replayed violation not listed as known;
            2 harness error / inconclusive (never reported as success)
"""
import argparse
import hashlib
import importlib
import json
import multiprocessing
import os
import random
import sys
import time
import traceback

VERIF = os.path.dirname(os.path.dirname(os.path.abspath(__file__)))
KNOWN_FILE = os.path.join(VERIF, "known_findings.json")


def load_known(pid):
    try:
        data = json.load(open(KNOWN_FILE))
    except FileNotFoundError:
        return []
    return [f for f in data.get("findings", []) if f.get("property") == pid and f.get("status", "open") == "open"]


WORKER_MEM_BYTES = int(os.environ.get("VERIF_WORKER_MEM_GB", "10")) << 30


def _worker(args):
    modname, idx, tier, active_known = args
    try:
        # a solver query that blows up must fail inside its own worker (reported as inconclusive), not take the machine down
        import resource
        resource.setrlimit(resource.RLIMIT_AS, (WORKER_MEM_BYTES, WORKER_MEM_BYTES))
    except Exception:
        pass
    try:
        from . import harness as H
        mod = importlib.import_module(modname)
        obs = mod.obligations(tier)
        h = obs[idx]
        h.active_known = set(active_known)
        if hasattr(h, "run"):
            res = h.run(tier)            # custom (non-symnp) obligation, e.g. fp64 / crosshair
        else:
            res = H.run_symbolic(h, budget_s=getattr(h, "budget_s", 600.0),
                                 max_paths=getattr(h, "max_paths", 200000))
            if res["status"] == "counterexample":
                ok, info = H.replay(h, res["cex"])
                res["replay_info"] = info
                res["status"] = "violation" if ok else "unconfirmed"
        res["index"] = idx
        return res
    except BaseException as ex:   # noqa
        return dict(name="%s[%d]" % (modname, idx), index=idx, status="error",
                    message="worker crashed: %s\n%s" % (ex, traceback.format_exc(limit=10)),
                    paths=0, stats={}, functions=[], labels={}, wall_s=0.0, validated=0)


def _check_known(modname, known, tier):
    """replay each listed finding's witness on the real code (real numpy)"""
    from . import harness as H
    mod = importlib.import_module(modname)
    out = []
    for f in known:
        try:
            reproduced, info = mod.replay_known(f)
        except Exception as ex:
            reproduced, info = False, "replay of known finding failed to run: %s" % ex
        out.append((f, reproduced, info))
    return out


def main(argv=None):
    ap = argparse.ArgumentParser()
    ap.add_argument("pid")
    ap.add_argument("--tier", default=os.environ.get("VERIF_TIER", "quick"), choices=["quick", "thorough"])
    ap.add_argument("--replay", default=None)
    ap.add_argument("--jobs", type=int, default=int(os.environ.get("VERIF_JOBS", "16")))
    ap.add_argument("--only", default=None, help="substring filter on obligation names (development)")
    ap.add_argument("--no-evidence", action="store_true")
    a = ap.parse_args(argv)
    pid = a.pid
    seed = int(os.environ.get("VERIF_SEED", "0") or 0)
    t0 = time.time()
    modname = "vf.props.%s" % pid
    from . import compat
    compat.shim()
    mod = importlib.import_module(modname)

    if a.replay:
        return do_replay(mod, pid, a.replay)

    # known findings first: which ones still reproduce on this tree?
    known = load_known(pid)
    known_res = _check_known(modname, known, a.tier) if known else []
    active = [f["id"] for (f, rep, info) in known_res if rep]
    for f, rep, info in known_res:
        if rep:
            print("KNOWN-FINDING: property=%s %s [%s] (%s)" % (pid, f["what"], f["id"], info))
        else:
            print("note: listed finding %s did not reproduce on this tree (%s); no exclusion applied" % (f["id"], info))

    obs = mod.obligations(a.tier)
    idxs = list(range(len(obs)))
    if a.only:
        idxs = [i for i in idxs if a.only in obs[i].describe()]
    # import the code under analysis once in the parent so that forked workers share it
    mods = sorted({m for h in obs for m in h.modules()})
    try:
        compat.load(*mods)
    except Exception as ex:
        print("harness error: cannot import the code under analysis: %s" % ex)
        traceback.print_exc()
        return finish(pid, a, seed, t0, [], mod, known_res, import_error=str(ex))
    order = list(idxs)
    random.Random(seed).shuffle(order)
    # heavier obligations first
    order.sort(key=lambda i: -getattr(obs[i], "weight", 1))
    results = []
    if True:
        for res in _run_tasks([(modname, i, a.tier, active) for i in order], max(1, min(a.jobs, len(order) or 1)),
                              {i: 2.0 * float(getattr(obs[i], "budget_s", 600.0)) + 600.0 for i in order}, obs):
            results.append(res)
            st = res["status"]
            if st != "ok" or os.environ.get("VERIF_VERBOSE"):
                print("[%s] %s: %s %s" % (pid, res.get("name"), st, (res.get("message") or "")[:2000]))
                if res.get("detail") and st != "ok":
                    print("      detail: %s" % str(res["detail"])[-1200:])
                if res.get("replay_info"):
                    print("      replay: %s" % res["replay_info"])
                if res.get("cex") and st != "ok":
                    print("      inputs: %s" % json.dumps(res["cex"])[:1500])
                sys.stdout.flush()
    results.sort(key=lambda r: r["index"])
    return finish(pid, a, seed, t0, results, mod, known_res)


def _child(conn, task):
    try:
        res = _worker(task)
    except BaseException as ex:   # noqa
        res = dict(name="%s[%d]" % (task[0], task[1]), index=task[1], status="error", message="worker raised %s" % ex, paths=0, stats={}, functions=[], labels={}, wall_s=0.0, validated=0)
    try:
        conn.send(res)
    except Exception as ex:
        try:
            conn.send(dict(name=res.get("name"), index=task[1], status="error", message="result could not be sent: %s" % ex, paths=res.get("paths", 0), stats={}, functions=[],
                           labels={}, wall_s=res.get("wall_s", 0.0), validated=0))
        except Exception:
            pass
    finally:
        conn.close()


def _run_tasks(tasks, jobs, hard_timeouts, obs):
    """one forked process per obligation; a worker that dies (out of memory, crash in the solver) or overruns its hard limit is reported
    as an inconclusive obligation instead of hanging the run"""
    from multiprocessing.connection import wait
    ctx = multiprocessing.get_context("fork")
    pending = list(tasks)
    running = {}

    def lost(task, why):
        i = task[1]
        try:
            nm = obs[i].describe()
        except Exception:
            nm = "%s[%d]" % (task[0], i)
        return dict(name=nm, index=i, status="inconclusive", message=why, paths=0, stats={}, functions=[], labels={}, wall_s=0.0, validated=0)
    while pending or running:
        while pending and len(running) < jobs:
            t = pending.pop(0)
            rd, wr = ctx.Pipe(duplex=False)
            p = ctx.Process(target=_child, args=(wr, t))
            p.start()
            wr.close()
            running[p.pid] = (p, rd, t, time.time())
        wait([v[1] for v in running.values()] + [v[0].sentinel for v in running.values()], timeout=5.0)
        for pid_, (p, rd, t, t1) in list(running.items()):
            res = None
            if rd.poll():
                try:
                    res = rd.recv()
                except (EOFError, OSError):
                    res = lost(t, "worker died without a result (exit code %s; out of memory or a crash inside the solver)" % p.exitcode)
            elif not p.is_alive():
                res = lost(t, "worker died without a result (exit code %s; out of memory or a crash inside the solver)" % p.exitcode)
            elif time.time() - t1 > hard_timeouts.get(t[1], 1800.0):
                p.kill()
                res = lost(t, "hard time limit of the obligation exceeded (%.0f s)" % hard_timeouts.get(t[1], 1800.0))
            if res is not None:
                p.join(timeout=10)
                rd.close()
                del running[pid_]
                yield res


def finish(pid, a, seed, t0, results, mod, known_res, import_error=None):
    violations = [r for r in results if r["status"] == "violation"]
    bad = [r for r in results if r["status"] in ("error", "inconclusive", "unconfirmed")]
    replay_paths = []
    os.makedirs(os.path.join(VERIF, "replays"), exist_ok=True)
    for r in violations:
        blob = dict(property=pid, obligation_index=r["index"], obligation=r["name"], tier=a.tier,
                    label=r.get("message"), inputs=r.get("cex"), replay_info=r.get("replay_info"))
        hsh = hashlib.sha1(json.dumps(blob, sort_keys=True, default=str).encode()).hexdigest()[:10]
        path = os.path.join(VERIF, "replays", "%s_%s.json" % (pid, hsh))
        with open(path, "w") as f:
            json.dump(blob, f, indent=1, default=str)
        replay_paths.append(path)
        print("VIOLATION property=%s replay=%s" % (pid, path))
        print("   obligation %s: %s -- %s" % (r["name"], r.get("message"), r.get("replay_info")))
    wall = time.time() - t0
    if not a.no_evidence:
        write_evidence(pid, a.tier, seed, results, mod, known_res, wall, len(violations), import_error)
    nok = sum(1 for r in results if r["status"] == "ok")
    print("[%s] tier=%s obligations=%d ok=%d violations=%d inconclusive/error=%d paths=%d wall=%.1fs" % (
        pid, a.tier, len(results), nok, len(violations), len(bad),
        sum(r.get("paths", 0) for r in results), wall))
    if violations:
        return 1
    if bad or import_error or not results:
        return 2
    return 0


def write_evidence(pid, tier, seed, results, mod, known_res, wall, nviol, import_error=None):
    paths = sum(r.get("paths", 0) for r in results)
    decisions = sum(r.get("stats", {}).get("decisions", 0) for r in results)
    q_unsat = sum(r.get("stats", {}).get("prove_unsat", 0) for r in results)
    q_sat = sum(r.get("stats", {}).get("prove_sat", 0) for r in results)
    q_unk = sum(r.get("stats", {}).get("prove_unknown", 0) for r in results)
    bq = sum(r.get("stats", {}).get("branch_queries", 0) for r in results)
    solver_s = sum(r.get("stats", {}).get("solver_s", 0.0) for r in results)
    validated = sum(r.get("validated", 0) for r in results)
    funcs = sorted({f for r in results for f in r.get("functions", [])})
    samples = []
    for r in results:
        if r.get("sample"):
            samples.append(dict(obligation=r["name"], path_model_inputs=r["sample"]["inputs"]))
        if len(samples) >= 6:
            break
    if not samples:
        samples = [dict(obligation=r["name"], status=r["status"]) for r in results[:3]] or [dict(note="no obligations ran")]
    names = [r["name"] for r in results]
    cov = dict(
        states=max(paths, 1) if results else 1,
        transitions=max(decisions, 1),
        traces_validated_against_impl=validated,
        samples=samples,
        evaluations=max(paths, 1),
        distinct_nontrivial=max(len(set(names)), 2) if len(set(names)) >= 2 else 2,
        rule="one evaluation = one feasible execution path of the real code under symbolic inputs; distinct_nontrivial counts distinct obligations (harness x bound tuple), each of which explored at least one feasible path that reached the solver-discharged assertions",
        obligations=len(results),
        obligations_ok=sum(1 for r in results if r["status"] == "ok"),
        obligation_list=[dict(name=r["name"], status=r["status"], paths=r.get("paths", 0),
                              reached=r.get("reached_assertions", r.get("paths", 0)),
                              queries=r.get("stats", {}).get("prove_queries", 0),
                              validated=r.get("validated", 0), wall_s=r.get("wall_s", 0),
                              labels=r.get("labels", {}), note=(r.get("message") or "")[:300]) for r in results],
        solver=dict(engine="z3 %s" % _z3v(), property_queries_unsat=q_unsat, property_queries_sat=q_sat,
                    property_queries_unknown=q_unk, branch_feasibility_queries=bq, solver_seconds=round(solver_s, 2)),
        functions_encoded=funcs,
        bounds=getattr(mod, "BOUNDS", {}).get(tier, getattr(mod, "BOUNDS", {})),
        outside_claim=getattr(mod, "OUTSIDE", []),
        stubs=getattr(mod, "STUBS", []),
        known_findings=[dict(id=f["id"], reproduced=rep, info=info) for (f, rep, info) in known_res],
        exhaustive=False,
    )
    if import_error:
        cov["import_error"] = import_error
    ev = dict(property_id=pid, tier=tier, seed=seed, level="model_checking", coverage=cov,
              assumptions=list(getattr(mod, "ASSUMPTIONS", [])) + [
                  "numpy-compat shim: numpy.float_ = numpy.float64, numpy.in1d = isin(...).ravel() (pinned source needs both; numpy 2.5 removed them)",
                  "float64 quantities are modelled as exact reals unless an obligation is marked fp64"],
              wall_s=round(wall, 2), violations=nviol)
    os.makedirs(os.path.join(VERIF, "evidence"), exist_ok=True)
    with open(os.path.join(VERIF, "evidence", "%s.json" % pid), "w") as f:
        json.dump(ev, f, indent=1, default=str)


def _z3v():
    import z3
    return z3.get_version_string()


def do_replay(mod, pid, path):
    from . import harness as H
    blob = json.load(open(path))
    obs = mod.obligations(blob.get("tier", "quick"))
    h = obs[blob["obligation_index"]]
    if hasattr(h, "replay"):
        ok, info = h.replay(blob["inputs"])
    else:
        ok, info = H.replay(h, blob["inputs"])
    print("replay of %s on the real code: %s -- %s" % (path, "REPRODUCED" if ok else "not reproduced", info))
    if ok:
        print("VIOLATION property=%s replay=%s" % (pid, path))
        return 1
    return 0


if __name__ == "__main__":
    sys.exit(main())
