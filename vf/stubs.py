"""
Environment stubs: random generators (symbolic / scripted), linear algebra contracts.
Every stub is listed in the evidence file of the checks that use it.
"""
import itertools
import operator
from fractions import Fraction

import numpy
import z3

from . import sym, symnp
from .sym import SV, EngineUnsupported
from .symnp import SymArray, raw, mkobj

_F64 = numpy.dtype("float64")
_I64 = numpy.dtype("int64")


def _shape(size):
    if size is None:
        return ()
    if isinstance(size, SV):
        return (operator.index(size),)     # symbolic count: forks over its values
    if isinstance(size, (int, numpy.integer)):
        return (int(size),)
    if isinstance(size, SymArray):
        return tuple(operator.index(c) for c in raw(size))
    return tuple(operator.index(s) for s in size)


class BaseRNG(numpy.random.RandomState):
    """common front end; subclasses implement _reals / _ints.
    Subclass of RandomState so that pybrops's check_is_Generator_or_RandomState passes."""
    STREAM = "explicit"

    def __init__(self, name="rng"):
        # deliberately do not call RandomState.__init__ with entropy: never used
        self.name = name
        self.ncall = 0
        self.draws = []     # list of dict(kind=..., names=[...], shape=...)

    # ---- to be provided
    def _reals(self, tag, shape, lo=None, hi=None, hi_open=True):
        raise NotImplementedError

    def _ints(self, tag, shape, lo, hi, distinct=False):
        """ints in [lo, hi) ; distinct -> pairwise different"""
        raise NotImplementedError

    def _tag(self, kind):
        self.ncall += 1
        return "%s_%d_%s" % (self.name, self.ncall, kind)

    # ---- numpy API
    def uniform(self, low=0.0, high=1.0, size=None):
        shp = _shape(size)
        u = self._reals(self._tag("u"), shp, 0.0, 1.0)
        if (isinstance(low, (int, float)) and low == 0) and (isinstance(high, (int, float)) and high == 1):
            return u
        return low + (high - low) * u

    def random(self, size=None):
        return self._reals(self._tag("u"), _shape(size), 0.0, 1.0)

    random_sample = random
    rand = lambda self, *shape: self.random(shape if shape else None)

    def standard_normal(self, size=None):
        return self._reals(self._tag("z"), _shape(size))

    def normal(self, loc=0.0, scale=1.0, size=None):
        shp = _shape(size)
        if size is None:
            shp = numpy.broadcast_shapes(numpy.shape(loc), numpy.shape(scale))
        z = self._reals(self._tag("z"), shp)
        return loc + scale * z

    def multivariate_normal(self, mean, cov, size=None, **kw):
        # contract used by pybrops: diagonal covariance -> mean + sqrt(var) * z, independent z
        mean_ = symnp._sa(mean)
        cov_ = symnp._sa(cov)
        n = mean_.shape[0]
        rc = raw(cov_)
        for i in range(n):
            for j in range(n):
                if i != j:
                    c = rc[i, j]
                    if isinstance(c, SV) or c != 0:
                        raise EngineUnsupported("multivariate_normal stub handles diagonal covariance only")
        shp = _shape(size) + (n,)
        z = self._reals(self._tag("z"), shp)
        sd = numpy.sqrt(symnp.f_diag(cov_))
        if isinstance(z, SymArray) or isinstance(sd, SymArray) or isinstance(mean_, SymArray) and not mean_.is_concrete():
            return mean_ + sd * z
        return symnp.unbox(mean_) + symnp.unbox(sd) * z

    def randint(self, low, high=None, size=None, dtype=int):
        if high is None:
            low, high = 0, low
        return self._ints(self._tag("i"), _shape(size), low, high)

    def integers(self, low, high=None, size=None, dtype=int, endpoint=False):
        if high is None:
            low, high = 0, low
        if endpoint:
            high = high + 1
        return self._ints(self._tag("i"), _shape(size), low, high)

    def binomial(self, n, p, size=None):
        shp = _shape(size) if size is not None else numpy.shape(n)
        return self._ints(self._tag("b"), shp, 0, n + 1)

    def choice(self, a, size=None, replace=True, p=None, axis=0, shuffle=True):
        if isinstance(a, (int, numpy.integer)):
            opts = numpy.arange(int(a))
        else:
            opts = a if isinstance(a, numpy.ndarray) else numpy.asarray(a)
        n = opts.shape[0]
        shp = _shape(size)
        k = int(numpy.prod(shp)) if shp else 1
        if not replace and k > n:
            raise ValueError("Cannot take a larger sample than population when 'replace=False'")
        if n == 0:
            raise ValueError("a cannot be empty")
        idx = self._ints(self._tag("c"), (k,), 0, n, distinct=not replace, weights=p)
        idx = numpy.array([operator.index(c) for c in (raw(idx) if isinstance(idx, SymArray) else idx)], dtype=numpy.intp)
        r = opts[idx]
        if size is None:
            return r[0]
        return r.reshape(shp + opts.shape[1:])

    def permutation(self, x):
        if isinstance(x, (int, numpy.integer)):
            x = numpy.arange(int(x))
        n = len(x)
        perm = self._perm(n)
        return x[perm]

    def shuffle(self, x):
        n = len(x)
        perm = self._perm(n)
        if isinstance(x, numpy.ndarray):
            x[...] = x[perm].copy() if not isinstance(x, SymArray) else x[perm]
        else:
            tmp = [x[i] for i in perm]
            for i in range(n):
                x[i] = tmp[i]

    def _perm(self, n):
        if n <= 1:
            return numpy.arange(n)
        idx = self._ints(self._tag("p"), (n,), 0, n, distinct=True)
        return numpy.array([operator.index(c) for c in (raw(idx) if isinstance(idx, SymArray) else idx)], dtype=numpy.intp)

    # anything else: loud
    def __getattr__(self, name):
        raise EngineUnsupported("rng stub has no method %s" % name)

    def seed(self, *a, **k):
        raise EngineUnsupported("seed() on an explicit generator stub")

    def get_state(self, *a, **k):
        raise EngineUnsupported("get_state on stub")


class SymRNG(BaseRNG):
    """fresh symbols constrained by the documented contract of each draw"""

    def _reals(self, tag, shape, lo=None, hi=None, hi_open=True):
        c = sym.ctx()
        names = []
        a = numpy.empty(shape, dtype=object)
        for k, ix in enumerate(numpy.ndindex(*shape)):
            nm = "%s_%d" % (tag, k)
            v = z3.Real(nm)
            names.append(nm)
            if lo is not None:
                c.assume(v >= sym.lift(lo), internal=True)
            if hi is not None:
                c.assume((v < sym.lift(hi)) if hi_open else (v <= sym.lift(hi)), internal=True)
            a[ix] = SV(v)
        self.draws.append(dict(kind="real", names=names, shape=shape, stream=self.STREAM))
        if shape == ():
            return a[()]
        return SymArray(a, _F64)

    def _ints(self, tag, shape, lo, hi, distinct=False, weights=None):
        c = sym.ctx()
        names = []
        a = numpy.empty(shape, dtype=object)
        vs = []
        for k, ix in enumerate(numpy.ndindex(*shape)):
            nm = "%s_%d" % (tag, k)
            v = z3.Int(nm)
            names.append(nm)
            lo_k = lo[ix] if isinstance(lo, numpy.ndarray) and lo.shape == shape else lo
            hi_k = hi[ix] if isinstance(hi, numpy.ndarray) and hi.shape == shape else hi
            c.assume(z3.And(v >= sym.lift(lo_k), v < sym.lift(hi_k)), internal=True)
            if weights is not None:
                w = list(raw(symnp._sa(weights)).ravel())
                c.assume(z3.Or(*[z3.And(v == i, sym.lift(w[i] > 0) if not isinstance(w[i], SV) else (w[i] > 0).e if isinstance(w[i] > 0, SV) else z3.BoolVal(bool(w[i] > 0))) for i in range(len(w))]), internal=True)
            a[ix] = SV(v)
            vs.append(v)
        if distinct and len(vs) > 1:
            c.assume(z3.Distinct(*vs), internal=True)
        self.draws.append(dict(kind="int", names=names, shape=shape, stream=self.STREAM))
        if shape == ():
            return a[()]
        return SymArray(a, _I64)


class FirstPickRNG(SymRNG):
    """shuffle restricted to rotations: every element is first in exactly one explored order.
    Sound for consumers whose behaviour depends on the order only through the first
    element satisfying a fixed predicate (stochastic-descent scans that stop at the first
    improving move): for each element e the order starting with e is explored."""

    symbolic_calls = None      # None: every shuffle symbolic; k: only the first k shuffles (identity afterwards)
    scripted_first = None      # a concrete permutation used for the first shuffle of matching length (enumerated start arrangements)

    def _perm(self, n):
        if n <= 1:
            return numpy.arange(n)
        self._nperm = self.__dict__.get("_nperm", 0) + 1
        if self.symbolic_calls is not None and self._nperm > self.symbolic_calls:
            self._tag("p")
            return numpy.arange(n)
        c = sym.ctx()
        tag = self._tag("p")
        if self.scripted_first is not None and len(self.scripted_first) == n and not self.__dict__.get("_scripted_done"):
            self._scripted_done = True
            names = ["%s_%d" % (tag, k) for k in range(n)]
            for k in range(n):
                c.assume(z3.Int(names[k]) == int(self.scripted_first[k]), internal=True)
            self.draws.append(dict(kind="int", names=names, shape=(n,), stream=self.STREAM))
            return numpy.array([int(v) for v in self.scripted_first], dtype=numpy.intp)
        s_ = z3.Int(tag + "_rot")
        c.assume(z3.And(s_ >= 0, s_ < n), internal=True)
        names = ["%s_%d" % (tag, k) for k in range(n)]
        vs = [z3.Int(nm) for nm in names]
        for k in range(n):
            c.assume(vs[k] == (k + s_) % n, internal=True)
        self.draws.append(dict(kind="int", names=names, shape=(n,), stream=self.STREAM))
        return numpy.array([operator.index(SV(v)) for v in vs], dtype=numpy.intp)


class ScriptedRNG(BaseRNG):
    """replays the values a model assigned to the draws of a SymRNG run.
    values: dict name -> python number.  Missing names (draws the symbolic path did
    not constrain) get the lower bound / a valid default."""

    def __init__(self, values, name="rng"):
        super().__init__(name)
        self.values = values
        self.missing = 0

    def _reals(self, tag, shape, lo=None, hi=None, hi_open=True):
        a = numpy.empty(shape, dtype=float)
        for k, ix in enumerate(numpy.ndindex(*shape)):
            nm = "%s_%d" % (tag, k)
            if nm in self.values:
                v = self.values[nm]
                a[ix] = float(Fraction(v)) if isinstance(v, str) else float(v)
            else:
                self.missing += 1
                a[ix] = float(lo) if lo is not None else 0.0
        return a if shape != () else float(a[()])

    def _ints(self, tag, shape, lo, hi, distinct=False, weights=None):
        a = numpy.empty(shape, dtype=numpy.int64)
        used = set()
        for k, ix in enumerate(numpy.ndindex(*shape)):
            nm = "%s_%d" % (tag, k)
            if nm in self.values:
                v = self.values[nm]
                a[ix] = int(Fraction(v)) if isinstance(v, str) else int(v)
            else:
                self.missing += 1
                lo_k = int(lo[ix] if isinstance(lo, numpy.ndarray) and lo.shape == shape else lo)
                v = lo_k
                if distinct:
                    while v in used:
                        v += 1
                a[ix] = v
            used.add(int(a[ix]))
        return a if shape != () else int(a[()])


# --------------------------------------------------------------------------
# linear algebra contracts (n <= 3)
# --------------------------------------------------------------------------
def det(a):
    a = symnp._sa(a)
    r = raw(a)
    n = r.shape[0]
    if r.shape != (n, n):
        raise EngineUnsupported("det of non-square")
    if n == 1:
        return r[0, 0]
    if n == 2:
        return r[0, 0] * r[1, 1] - r[0, 1] * r[1, 0]
    tot = 0.0
    for perm in itertools.permutations(range(n)):
        sgn = 1
        for i in range(n):
            for j in range(i + 1, n):
                if perm[i] > perm[j]:
                    sgn = -sgn
        term = sgn
        for i in range(n):
            term = term * r[i, perm[i]]
        tot = tot + term
    return tot


def linalg_inv(a):
    """contract: fresh B with A.B = I (singular -> LinAlgError like numpy)"""
    a = symnp._sa(a)
    if a.is_concrete():
        return symnp.box(numpy.linalg.inv(symnp.unbox(a)))
    c = sym.ctx()
    n = a.shape[0]
    d = det(a)
    if bool(d == 0):
        raise numpy.linalg.LinAlgError("Singular matrix")
    k = c.fresh()
    B = numpy.empty((n, n), dtype=object)
    for i in range(n):
        for j in range(n):
            B[i, j] = SV(z3.Real("inv!%d_%d_%d" % (k, i, j)))
    Bs = SymArray(B, _F64)
    prod = symnp.f_matmul(a, Bs)
    rp = raw(prod)
    for i in range(n):
        for j in range(n):
            c.assume(sym.lift(rp[i, j] == (1.0 if i == j else 0.0)), internal=True)
    return Bs


def linalg_cholesky(a):
    """contract: fresh lower-triangular L, positive diagonal, L.L' = A (not PD -> LinAlgError)"""
    a = symnp._sa(a)
    if a.is_concrete():
        return symnp.box(numpy.linalg.cholesky(symnp.unbox(a)))
    c = sym.ctx()
    n = a.shape[0]
    k = c.fresh()
    L = numpy.empty((n, n), dtype=object)
    for i in range(n):
        for j in range(n):
            if j > i:
                L[i, j] = 0.0
            else:
                v = z3.Real("chol!%d_%d_%d" % (k, i, j))
                L[i, j] = SV(v)
                if i == j:
                    c.assume(v > 0, internal=True)
    Ls = SymArray(L, _F64)
    prod = raw(symnp.f_matmul(Ls, Ls.T))
    ra = raw(a)
    for i in range(n):
        for j in range(i + 1):
            c.assume(sym.lift(prod[i, j] == ra[i, j]), internal=True)
    # positive definiteness is the precondition; if unsatisfiable this path dies
    if c.feasible_model() is None:
        raise numpy.linalg.LinAlgError("Matrix is not positive definite")
    return Ls


def linalg_eigvals(a):
    """documented precondition 'kinship is positive definite': fresh positive eigenvalues"""
    a = symnp._sa(a)
    if a.is_concrete():
        return numpy.linalg.eigvals(symnp.unbox(a))
    c = sym.ctx()
    n = a.shape[0]
    k = c.fresh()
    vs = []
    for i in range(n):
        v = z3.Real("eig!%d_%d" % (k, i))
        # positive definite and clear of the library's eigenvalue tolerance (2e-14): no jitter is applied
        c.assume(v > z3.Q(1, 1000), internal=True)
        vs.append(SV(v))
    return SymArray(mkobj(vs), _F64)


# --------------------------------------------------------------------------
# scipy.interpolate.interp1d(kind='linear', fill_value='extrapolate') model
# --------------------------------------------------------------------------
class ContractViolation(Exception):
    """the code under analysis called a stubbed library function outside that function's documented contract"""


class SymInterp1d:
    """piecewise-linear model: points sorted by x (unless assume_sorted), linear between neighbours,
    linear extension of the end segments outside.  Fully concrete data is delegated to scipy."""

    def __init__(self, x, y, kind="linear", axis=-1, copy=True, bounds_error=None, fill_value=numpy.nan, assume_sorted=False):
        import scipy.interpolate
        self.real = None
        if not symnp.has_sym(x) and not symnp.has_sym(y):
            xr = symnp.unbox(x) if isinstance(x, SymArray) else numpy.asarray(x)
            yr = symnp.unbox(y) if isinstance(y, SymArray) else numpy.asarray(y)
            self.real = scipy.interpolate.interp1d(xr, yr, kind=kind, fill_value=fill_value, assume_sorted=assume_sorted)
            return
        if kind != "linear" or not (isinstance(fill_value, str) and fill_value == "extrapolate"):
            raise EngineUnsupported("interp1d model supports kind='linear', fill_value='extrapolate' only (got %r, %r)" % (kind, fill_value))
        xs = list(raw(symnp._sa(x)).ravel())
        ys = list(raw(symnp._sa(y)).ravel())
        if len(xs) != len(ys):
            raise ValueError("x and y arrays must be equal in length along interpolation axis.")
        if len(xs) < 2:
            raise ValueError("x and y arrays must have at least 2 entries")
        if assume_sorted:
            for a, b in zip(xs, xs[1:]):
                if not bool(a <= b):
                    raise ContractViolation("interp1d(assume_sorted=True) called with unsorted x")
            order = list(range(len(xs)))
        else:
            order = symnp._stable_order(len(xs), lambda i, j: symnp._cmp_cells(xs[i], xs[j]))
        self.x = [xs[i] for i in order]
        self.y = [ys[i] for i in order]

    def __call__(self, q):
        if self.real is not None:
            if isinstance(q, (SV, SymArray)):
                raise EngineUnsupported("symbolic query on a concrete interp1d")
            return self.real(q)
        if isinstance(q, SymArray) or (isinstance(q, numpy.ndarray) and q.ndim > 0):
            qs = symnp._sa(q)
            out = [self._one(c) for c in raw(qs).ravel()]
            return SymArray(mkobj(out, qs.shape), _F64)
        if isinstance(q, numpy.generic):
            q = q.item()
        return self._one(q)

    def _one(self, q):
        x, y = self.x, self.y
        n = len(x)
        k = n - 2
        for i in range(1, n - 1):
            if bool(q <= x[i]):
                k = i - 1
                break
        x0, x1, y0, y1 = x[k], x[k + 1], y[k], y[k + 1]
        slope = sym.sv_div(sym.to_real(y1) - sym.to_real(y0), sym.to_real(x1) - sym.to_real(x0))
        return sym.to_real(y0) + (sym.to_real(q) - sym.to_real(x0)) * slope
