"""
Scalar symbolic values (SV) and the path explorer (Ctx).

An SV wraps one z3 term of sort Int, Real or Bool.  All Python operators build
terms; the only places where execution forks are ``__bool__`` on a symbolic Bool
and ``__index__``/``__int__`` on a symbolic Int.  Forking is done by the current
``Ctx`` (depth-first, re-execution from the start of the harness per path).
"""
import math
import time
from fractions import Fraction

import z3


class EngineUnsupported(Exception):
    """The code under analysis did something the engine has no handler for."""


class PathAbort(BaseException):
    """Current path is infeasible / finished early (BaseException so that the
    code under analysis cannot swallow it with ``except Exception``)."""


class Inconclusive(BaseException):
    """Budget exhausted or solver said unknown on an obligation."""


class Counterexample(BaseException):
    def __init__(self, label, model, detail=None):
        super().__init__(label)
        self.label = label
        self.model = model
        self.detail = detail


# --------------------------------------------------------------------------
# current context
# --------------------------------------------------------------------------
_CTX = [None]


def ctx():
    c = _CTX[0]
    if c is None:
        raise EngineUnsupported("symbolic value used outside of an exploration context")
    return c


def set_ctx(c):
    _CTX[0] = c


# --------------------------------------------------------------------------
# lifting python scalars to z3
# --------------------------------------------------------------------------
def _is_np_bool(x):
    return type(x).__name__ in ("bool_", "bool")


def lift(x):
    """python/numpy scalar or SV -> z3 term"""
    if isinstance(x, SV):
        return x.e
    if isinstance(x, bool) or _is_np_bool(x):
        return z3.BoolVal(bool(x))
    if isinstance(x, int):
        return z3.IntVal(x)
    if isinstance(x, Fraction):
        return z3.RealVal(str(x))
    if isinstance(x, float):
        if math.isnan(x) or math.isinf(x):
            raise EngineUnsupported("cannot lift non-finite float %r" % x)
        return z3.RealVal(str(float_as_rational(x)))
    # numpy scalars
    tn = type(x).__module__
    if tn == "numpy":
        import numpy
        if isinstance(x, numpy.integer):
            return z3.IntVal(int(x))
        if isinstance(x, numpy.floating):
            return lift(float(x))
    raise EngineUnsupported("cannot lift %r of type %s" % (x, type(x)))


def float_as_rational(x):
    """exact-real reading of a concrete double: the small rational p/q (q <= 10^4) whose nearest
    double it is (so 1.0/6 computed concretely by the code means one sixth), else its decimal
    literal (0.1 means one tenth), which is itself within half an ulp"""
    fr = Fraction(x)
    if fr.denominator <= 4096:
        return fr
    small = fr.limit_denominator(10000)
    if float(small) == x:
        return small
    return Fraction(repr(x))


def is_sym(x):
    return isinstance(x, SV)


def _coerce(a, b):
    """make two z3 arithmetic terms the same sort"""
    sa, sb = a.sort(), b.sort()
    if sa == sb:
        return a, b
    if z3.is_bool(a) and not z3.is_bool(b):
        a = z3.If(a, z3.IntVal(1), z3.IntVal(0))
        return _coerce(a, b)
    if z3.is_bool(b) and not z3.is_bool(a):
        b = z3.If(b, z3.IntVal(1), z3.IntVal(0))
        return _coerce(a, b)
    if z3.is_int(a) and z3.is_real(b):
        return z3.ToReal(a), b
    if z3.is_real(a) and z3.is_int(b):
        return a, z3.ToReal(b)
    raise EngineUnsupported("sort mismatch %s / %s" % (sa, sb))


def _arith(x):
    """bool term -> int term for arithmetic"""
    if z3.is_bool(x):
        return z3.If(x, z3.IntVal(1), z3.IntVal(0))
    return x


def _numeral_value(e):
    """python value of a numeral term or None"""
    if z3.is_int_value(e):
        return e.as_long()
    if z3.is_true(e):
        return True
    if z3.is_false(e):
        return False
    if z3.is_rational_value(e):
        return Fraction(e.numerator_as_long(), e.denominator_as_long())
    return None


def norm(e):
    """z3 term -> python scalar when it is a numeral that python represents
    exactly, else SV"""
    v = _numeral_value(e)
    if v is None:
        return SV(e)
    if isinstance(v, Fraction):
        f = float(v)
        if Fraction(f) == v or float_as_rational(f) == v:
            return f
        return SV(e)
    return v


_NONFINITE_MSG = "non-finite concrete value met a symbolic value"


class SV:
    """symbolic scalar"""
    __slots__ = ("e",)

    def __init__(self, e):
        self.e = e

    # -- sort predicates
    @property
    def is_bool(self):
        return z3.is_bool(self.e)

    @property
    def is_int(self):
        return z3.is_int(self.e)

    @property
    def is_real(self):
        return z3.is_real(self.e)

    # -- arithmetic
    def _bin(self, o, f, swap=False):
        if isinstance(o, float) and (math.isnan(o) or math.isinf(o)):
            return NotImplemented
        try:
            b = lift(o)
        except EngineUnsupported:
            return NotImplemented
        a = _arith(self.e)
        b = _arith(b)
        a, b = _coerce(a, b)
        return norm(f(b, a) if swap else f(a, b))

    def __add__(s, o):
        if isinstance(o, float) and not math.isfinite(o):
            return o
        return s._bin(o, lambda a, b: a + b)

    def __radd__(s, o):
        if isinstance(o, float) and not math.isfinite(o):
            return o
        return s._bin(o, lambda a, b: a + b, True)

    def __sub__(s, o):
        if isinstance(o, float) and not math.isfinite(o):
            return -o
        return s._bin(o, lambda a, b: a - b)

    def __rsub__(s, o):
        if isinstance(o, float) and not math.isfinite(o):
            return o
        return s._bin(o, lambda a, b: a - b, True)

    def _mul_nonfinite(s, o):
        if math.isnan(o):
            return o
        # inf * x : sign decided by forking
        if bool(s > 0):
            return o
        if bool(s < 0):
            return -o
        return float("nan")

    def __mul__(s, o):
        if isinstance(o, float) and not math.isfinite(o):
            return s._mul_nonfinite(o)
        if (isinstance(o, (int, float)) and not isinstance(o, bool)) and o == 0 and not isinstance(o, SV):
            return 0 * o if isinstance(o, float) else 0
        return s._bin(o, lambda a, b: a * b)

    def __rmul__(s, o):
        if isinstance(o, float) and not math.isfinite(o):
            return s._mul_nonfinite(o)
        if (isinstance(o, (int, float)) and not isinstance(o, bool)) and o == 0:
            return 0 * o if isinstance(o, float) else 0
        return s._bin(o, lambda a, b: a * b, True)

    def __neg__(s):
        return norm(-_arith(s.e))

    def __pos__(s):
        return s

    def __abs__(s):
        a = _arith(s.e)
        return norm(z3.If(a >= 0, a, -a))

    def __truediv__(s, o):
        return sv_div(s, o)

    def __rtruediv__(s, o):
        return sv_div(o, s)

    def __floordiv__(s, o):
        return sv_floordiv(s, o)

    def __rfloordiv__(s, o):
        return sv_floordiv(o, s)

    def __mod__(s, o):
        return sv_mod(s, o)

    def __rmod__(s, o):
        return sv_mod(o, s)

    def __pow__(s, o):
        return sv_pow(s, o)

    def __rpow__(s, o):
        return sv_pow(o, s)

    # -- comparisons
    def _cmp(self, o, f):
        if isinstance(o, float) and not math.isfinite(o):
            if math.isnan(o):
                return f is _NE
            # compare finite real with +-inf
            return f(0.0, o)
        try:
            b = lift(o)
        except EngineUnsupported:
            return NotImplemented
        a = self.e
        if z3.is_bool(a) and z3.is_bool(b):
            if f is _EQ:
                return norm(a == b)
            if f is _NE:
                return norm(a != b)
        a, b = _coerce(_arith(a), _arith(b))
        return norm(f(a, b))

    def __lt__(s, o):
        return s._cmp(o, _LT)

    def __le__(s, o):
        return s._cmp(o, _LE)

    def __gt__(s, o):
        return s._cmp(o, _GT)

    def __ge__(s, o):
        return s._cmp(o, _GE)

    def __eq__(s, o):
        if o is None:
            return False
        return s._cmp(o, _EQ)

    def __ne__(s, o):
        if o is None:
            return True
        return s._cmp(o, _NE)

    # -- logic (numpy's bitwise ufuncs on bools, and the & | ~ operators)
    def __and__(s, o):
        return sv_and(s, o)

    __rand__ = __and__

    def __or__(s, o):
        return sv_or(s, o)

    __ror__ = __or__

    def __xor__(s, o):
        return sv_xor(s, o)

    __rxor__ = __xor__

    def __invert__(s):
        if not s.is_bool:
            raise EngineUnsupported("~ on non-bool symbolic")
        return norm(z3.Not(s.e))

    # -- forks
    def __bool__(s):
        e = s.e
        if not z3.is_bool(e):
            e = _arith(e) != 0
        return ctx().branch(e)

    def __index__(s):
        if z3.is_bool(s.e):
            return int(bool(s))
        if not z3.is_int(s.e):
            raise EngineUnsupported("__index__ on symbolic real")
        return ctx().concretize_int(s.e)

    def __int__(s):
        if z3.is_real(s.e):
            # truncation toward zero of a symbolic real: fork on sign, use ToInt (floor)
            raise EngineUnsupported("int() of symbolic real")
        return s.__index__()

    def __float__(s):
        raise EngineUnsupported("float() of a symbolic value (value escaped into compiled code)")

    def __hash__(s):
        v = _numeral_value(s.e)
        if v is not None:
            return hash(v)
        return hash(s.e)

    def __repr__(s):
        return "SV(%s)" % (s.e,)

    # numpy calls these method names for unary ufuncs on object arrays
    def sqrt(s):
        return sv_sqrt(s)

    def exp(s):
        return sv_exp(s)

    def log(s):
        return sv_log(s)

    def conjugate(s):
        return s


def _LT(a, b): return a < b
def _LE(a, b): return a <= b
def _GT(a, b): return a > b
def _GE(a, b): return a >= b
def _EQ(a, b): return a == b
def _NE(a, b): return a != b


# --------------------------------------------------------------------------
# scalar operations usable on python scalars and SVs alike
# --------------------------------------------------------------------------
def _isnf(x):
    return isinstance(x, float) and not math.isfinite(x)


def sv_div(a, b):
    """numpy true_divide semantics on reals: x/0 -> +-inf / nan (poison)"""
    if _isnf(a) or _isnf(b):
        if isinstance(a, SV) or isinstance(b, SV):
            if _isnf(b) and not _isnf(a):
                return 0.0 if not math.isnan(b) else b
            if _isnf(a) and math.isnan(a):
                return a
            # inf / sym
            if bool(b > 0):
                return a
            if bool(b < 0):
                return -a
            return a  # inf/0 = inf
        return _pydiv(a, b)
    if not isinstance(a, SV) and not isinstance(b, SV):
        return _pydiv(a, b)
    if isinstance(b, SV):
        bz = b == 0
        if bool(bz):
            # division by zero: numpy gives inf/-inf/nan with a warning
            if isinstance(a, SV):
                if bool(a > 0):
                    return float("inf")
                if bool(a < 0):
                    return float("-inf")
                return float("nan")
            return _pydiv(float(a), 0.0)
    else:
        if b == 0:
            if bool(a > 0):
                return float("inf")
            if bool(a < 0):
                return float("-inf")
            return float("nan")
    ea = z3.ToReal(_arith(lift(a))) if not z3.is_real(_arith(lift(a))) else lift(a)
    eb = z3.ToReal(_arith(lift(b))) if not z3.is_real(_arith(lift(b))) else lift(b)
    return norm(ea / eb)


def _pydiv(a, b):
    a = float(a)
    b = float(b)
    if b == 0.0:
        if a == 0.0 or math.isnan(a):
            return float("nan")
        neg = (a < 0) != (math.copysign(1.0, b) < 0)
        return float("-inf") if neg else float("inf")
    try:
        return a / b
    except OverflowError:
        return float("inf")


def sv_floordiv(a, b):
    if not isinstance(a, SV) and not isinstance(b, SV):
        return a // b
    ea, eb = _arith(lift(a)), _arith(lift(b))
    if z3.is_int(ea) and z3.is_int(eb):
        if isinstance(b, SV):
            if bool(b == 0):
                raise ZeroDivisionError("symbolic integer floor division by zero")
            if bool(b > 0):
                return norm(ea / eb)  # z3 int div: floor for positive divisor
            return norm(_floor_div_negdiv(ea, eb))
        if b > 0:
            return norm(ea / eb)
        if b == 0:
            raise ZeroDivisionError
        return norm(_floor_div_negdiv(ea, eb))
    ea, eb = _coerce(ea, eb)
    if isinstance(b, SV):
        if bool(b == 0):
            return float("nan")
    q = ea / eb
    return norm(z3.ToReal(z3.ToInt(q)))


def _floor_div_negdiv(ea, eb):
    # floor(a/b) for b<0 with z3's euclidean div (remainder always >= 0)
    q = ea / eb
    return z3.If(ea % eb == 0, q, q - 1)


def sv_mod(a, b):
    if not isinstance(a, SV) and not isinstance(b, SV):
        return a % b
    ea, eb = _arith(lift(a)), _arith(lift(b))
    if z3.is_int(ea) and z3.is_int(eb):
        if isinstance(b, SV):
            if bool(b == 0):
                raise ZeroDivisionError
            if not bool(b > 0):
                raise EngineUnsupported("mod by symbolic negative")
        elif b <= 0:
            raise EngineUnsupported("mod by non-positive")
        return norm(ea % eb)
    ea, eb = _coerce(ea, eb)
    q = z3.ToReal(z3.ToInt(ea / eb))
    return norm(ea - q * eb)


def sv_pow(a, b):
    if not isinstance(a, SV) and not isinstance(b, SV):
        return a ** b
    if isinstance(b, SV):
        v = _numeral_value(b.e)
        if v is None:
            raise EngineUnsupported("symbolic exponent")
        b = v
    if isinstance(b, float) and b == 0.5:
        return sv_sqrt(a)
    if isinstance(b, float) and b.is_integer():
        b = int(b)
    if not isinstance(b, int):
        raise EngineUnsupported("non-integer exponent %r" % (b,))
    if b == 0:
        return 1.0 if (isinstance(a, SV) and a.is_real) else 1
    if b < 0:
        return sv_div(1.0, sv_pow(a, -b))
    r = a
    for _ in range(b - 1):
        r = r * a
    return r


def _to_bool_term(x):
    e = lift(x)
    if z3.is_bool(e):
        return e
    return _arith(e) != 0


def sv_and(a, b):
    if not isinstance(a, SV) and not isinstance(b, SV):
        return a & b
    ea, eb = lift(a), lift(b)
    if z3.is_bool(ea) and z3.is_bool(eb):
        if z3.is_false(ea) or z3.is_false(eb):
            return False
        if z3.is_true(ea):
            return norm(eb)
        if z3.is_true(eb):
            return norm(ea)
        return SV(z3.And(ea, eb))
    raise EngineUnsupported("bitwise and on symbolic ints")


def sv_or(a, b):
    if not isinstance(a, SV) and not isinstance(b, SV):
        return a | b
    ea, eb = lift(a), lift(b)
    if z3.is_bool(ea) and z3.is_bool(eb):
        if z3.is_true(ea) or z3.is_true(eb):
            return True
        if z3.is_false(ea):
            return norm(eb)
        if z3.is_false(eb):
            return norm(ea)
        return SV(z3.Or(ea, eb))
    raise EngineUnsupported("bitwise or on symbolic ints")


def sv_xor(a, b):
    if not isinstance(a, SV) and not isinstance(b, SV):
        return a ^ b
    ea, eb = lift(a), lift(b)
    if z3.is_bool(ea) and z3.is_bool(eb):
        return norm(z3.Xor(ea, eb))
    raise EngineUnsupported("bitwise xor on symbolic ints")


def sv_land(a, b):
    """numpy.logical_and on cells (truthiness)"""
    if not isinstance(a, SV) and not isinstance(b, SV):
        return bool(a) and bool(b)
    if not isinstance(a, SV):
        return sv_truth(b) if bool(a) else False
    if not isinstance(b, SV):
        return sv_truth(a) if bool(b) else False
    return norm(z3.And(_to_bool_term(a), _to_bool_term(b)))


def sv_lor(a, b):
    if not isinstance(a, SV) and not isinstance(b, SV):
        return bool(a) or bool(b)
    if not isinstance(a, SV):
        return True if bool(a) else sv_truth(b)
    if not isinstance(b, SV):
        return True if bool(b) else sv_truth(a)
    return norm(z3.Or(_to_bool_term(a), _to_bool_term(b)))


def sv_lnot(a):
    if not isinstance(a, SV):
        return not bool(a)
    return norm(z3.Not(_to_bool_term(a)))


def sv_truth(a):
    """cell -> bool cell without forking"""
    if not isinstance(a, SV):
        return bool(a)
    return norm(_to_bool_term(a))


def sv_ite(c, a, b):
    """where(c, a, b) on cells"""
    if not isinstance(c, SV):
        return a if c else b
    if _isnf(a) or _isnf(b):
        return a if bool(c) else b
    if not isinstance(a, SV) and not isinstance(b, SV):
        if type(a) == type(b) and a == b:
            return a
    ea, eb = lift(a), lift(b)
    if z3.is_bool(ea) != z3.is_bool(eb):
        ea, eb = _arith(ea), _arith(eb)
    if not z3.is_bool(ea):
        ea, eb = _coerce(ea, eb)
    return norm(z3.If(_to_bool_term(c), ea, eb))


FORK_MINMAX = [True]   # True: max/min fork on the comparison instead of building ite terms


def sv_max(a, b):
    if not isinstance(a, SV) and not isinstance(b, SV):
        if _isnan(a) or _isnan(b):
            return float("nan")
        return a if a >= b else b
    if _isnan(a) or _isnan(b):
        return float("nan")
    if FORK_MINMAX[0]:
        return a if bool(a >= b) else b
    return sv_ite(a >= b, a, b)


def sv_min(a, b):
    if not isinstance(a, SV) and not isinstance(b, SV):
        if _isnan(a) or _isnan(b):
            return float("nan")
        return a if a <= b else b
    if _isnan(a) or _isnan(b):
        return float("nan")
    if FORK_MINMAX[0]:
        return a if bool(a <= b) else b
    return sv_ite(a <= b, a, b)


def _isnan(x):
    return isinstance(x, float) and math.isnan(x)


def to_real(x):
    """cell -> real-sorted cell (python float or SV Real)"""
    if isinstance(x, SV):
        e = _arith(x.e)
        if z3.is_int(e):
            return norm(z3.ToReal(e))
        return x
    if isinstance(x, (bool, int)):
        return float(x)
    return x


def to_int_cell(x):
    """bool cell -> int cell"""
    if isinstance(x, SV):
        return norm(_arith(x.e)) if x.is_bool else x
    if isinstance(x, bool):
        return int(x)
    return x


# ---- transcendental functions: uninterpreted + axiom instances -------------
_UF = {}


def _uf(name):
    f = _UF.get(name)
    if f is None:
        f = z3.Function(name, z3.RealSort(), z3.RealSort())
        _UF[name] = f
    return f


def _real_term(x):
    e = _arith(lift(x))
    if z3.is_int(e):
        e = z3.ToReal(e)
    return e


def _syn_nonneg(e, depth=0):
    """cheap syntactic proof that a real term is >= 0 (sums of squares etc.)"""
    if depth > 6:
        return False
    if z3.is_rational_value(e):
        return e.numerator_as_long() >= 0
    if not z3.is_app(e):
        return False
    k = e.decl().kind()
    ch = e.children()
    if k == z3.Z3_OP_ADD:
        return all(_syn_nonneg(c, depth + 1) for c in ch)
    if k == z3.Z3_OP_MUL:
        if len(ch) == 2 and ch[0].get_id() == ch[1].get_id():
            return True
        # pair up identical factors
        ids = {}
        for c in ch:
            ids[c.get_id()] = ids.get(c.get_id(), 0) + 1
        rest = [c for c in ch if ids[c.get_id()] % 2 == 1]
        seen = set()
        for c in rest:
            if c.get_id() in seen:
                continue
            seen.add(c.get_id())
            if not _syn_nonneg(c, depth + 1):
                return False
        return True
    if k == z3.Z3_OP_POWER:
        return z3.is_rational_value(ch[1]) and ch[1].denominator_as_long() == 1 and ch[1].numerator_as_long() % 2 == 0
    if k == z3.Z3_OP_ITE:
        return _syn_nonneg(ch[1], depth + 1) and _syn_nonneg(ch[2], depth + 1)
    if k == z3.Z3_OP_DIV:
        return _syn_nonneg(ch[0], depth + 1) and _syn_nonneg(ch[1], depth + 1)
    if k == z3.Z3_OP_UNINTERPRETED and e.decl().name() in ("exp",):
        return True
    if k == z3.Z3_OP_UNINTERPRETED and e.num_args() == 0 and e.decl().name().startswith("sqrt!"):
        return True
    return False


def sv_sqrt(x):
    if not isinstance(x, SV):
        if x < 0:
            return float("nan")
        return math.sqrt(x)
    c = ctx()
    e = _real_term(x)
    key = ("sqrt", e.get_id())
    hit = c.fn_cache.get(key)
    if hit is not None:
        return hit[1]
    if not _syn_nonneg(e):
        if bool(x < 0):
            return float("nan")
    y = z3.Real("sqrt!%d" % c.fresh())
    # contract: y >= 0 and y*y = x   (monotonicity/injectivity follow from it)
    c.assume(z3.And(y >= 0, y * y == e), internal=True)
    r = SV(y)
    c.fn_cache[key] = (e, r)
    c.fn_apps.setdefault("sqrt", []).append((e, y))
    c.clearer.sqrt_map[y.get_id()] = (y, e)
    return r


def sv_exp(x):
    if not isinstance(x, SV):
        try:
            return math.exp(x)
        except OverflowError:
            return float("inf")
    c = ctx()
    e = z3.simplify(_real_term(x))
    key = ("exp", e.get_id())
    hit = c.fn_cache.get(key)
    if hit is not None:
        return hit
    f = _uf("exp")
    y = f(e)
    c.assume(z3.And(y > 0, (e == 0) == (y == 1), (e > 0) == (y > 1)), internal=True)
    apps = c.fn_apps.setdefault("exp", [])
    for (e2, y2) in apps:
        c.assume(z3.And((e < e2) == (y < y2), (e == e2) == (y == y2)), internal=True)
    # product law among applied arguments: exp(a)*exp(b) = exp(a+b)
    for (e2, y2) in apps:
        for (e3, y3) in apps:
            if e2.get_id() <= e3.get_id():
                c.assume(z3.Implies(e == e2 + e3, y == y2 * y3), internal=True)
        c.assume(z3.Implies(e + e2 == 0, y * y2 == 1), internal=True)
    for (e2, y2) in apps:
        for (e3, y3) in apps:
            if e2.get_id() != e3.get_id():
                c.assume(z3.Implies(e2 == e + e3, y2 == y * y3), internal=True)
    apps.append((e, y))
    r = SV(y)
    c.fn_cache[key] = r
    return r


def sv_log(x):
    if not isinstance(x, SV):
        if x < 0:
            return float("nan")
        if x == 0:
            return float("-inf")
        return math.log(x)
    c = ctx()
    e = z3.simplify(_real_term(x))
    key = ("log", e.get_id())
    hit = c.fn_cache.get(key)
    if hit is not None:
        return hit
    if bool(x <= 0):
        if bool(x == 0):
            return float("-inf")
        return float("nan")
    # log t = y  with exp(y) = t
    y = z3.Real("log!%d" % c.fresh())
    f = _uf("exp")
    c.assume(f(y) == e, internal=True)
    c.assume(z3.And((e == 1) == (y == 0), (e > 1) == (y > 0)), internal=True)
    apps = c.fn_apps.setdefault("exp", [])
    for (e2, y2) in apps:
        c.assume(z3.And((y < e2) == (e < y2), (y == e2) == (e == y2)), internal=True)
    apps.append((y, e))
    r = SV(y)
    c.fn_cache[key] = r
    return r


def sv_tanh(x):
    if not isinstance(x, SV):
        return math.tanh(x)
    c = ctx()
    e = z3.simplify(_real_term(x))
    key = ("tanh", e.get_id())
    hit = c.fn_cache.get(key)
    if hit is not None:
        return hit
    f = _uf("tanh")
    y = f(e)
    c.assume(z3.And(y > -1, y < 1, (e == 0) == (y == 0), (e > 0) == (y > 0)), internal=True)
    apps = c.fn_apps.setdefault("tanh", [])
    for (e2, y2) in apps:
        c.assume(z3.And((e < e2) == (y < y2), (e == e2) == (y == y2), z3.Implies(e + e2 == 0, y + y2 == 0)), internal=True)
    apps.append((e, y))
    r = SV(y)
    c.fn_cache[key] = r
    return r


def sv_arctanh(x):
    if not isinstance(x, SV):
        if x == 1:
            return float("inf")
        if x == -1:
            return float("-inf")
        if abs(x) > 1:
            return float("nan")
        return math.atanh(x)
    c = ctx()
    e = z3.simplify(_real_term(x))
    key = ("arctanh", e.get_id())
    hit = c.fn_cache.get(key)
    if hit is not None:
        return hit
    if bool(x >= 1):
        return float("inf") if bool(x == 1) else float("nan")
    if bool(x <= -1):
        return float("-inf") if bool(x == -1) else float("nan")
    y = z3.Real("atanh!%d" % c.fresh())
    f = _uf("tanh")
    c.assume(f(y) == e, internal=True)
    c.assume(z3.And((e == 0) == (y == 0), (e > 0) == (y > 0)), internal=True)
    apps = c.fn_apps.setdefault("tanh", [])
    for (e2, y2) in apps:
        c.assume(z3.And((y < e2) == (e < y2), (y == e2) == (e == y2), z3.Implies(y + e2 == 0, e + y2 == 0)), internal=True)
    apps.append((y, e))
    r = SV(y)
    c.fn_cache[key] = r
    return r


def sv_floor(x):
    if not isinstance(x, SV):
        return float(math.floor(x)) if isinstance(x, float) else x
    if x.is_int:
        return x
    return norm(z3.ToReal(z3.ToInt(x.e)))


def sv_ceil(x):
    if not isinstance(x, SV):
        return float(math.ceil(x)) if isinstance(x, float) else x
    if x.is_int:
        return x
    return norm(-z3.ToReal(z3.ToInt(-x.e)))


def sv_sign(x):
    if not isinstance(x, SV):
        return (x > 0) - (x < 0)
    e = _arith(x.e)
    one = z3.RealVal(1) if z3.is_real(e) else z3.IntVal(1)
    return norm(z3.If(e > 0, one, z3.If(e < 0, -one, one - one)))


# --------------------------------------------------------------------------
# explorer
# --------------------------------------------------------------------------
class Ctx:
    """Depth-first path explorer with re-execution.

    trace: list of [decision(bool), alt_pending(bool)] for branch decisions.
    """

    def __init__(self, branch_timeout_ms=20000, prove_timeout_ms=60000,
                 max_paths=200000, deadline=None, max_int_enum=64):
        self.solver = z3.Solver()
        self.trace = []
        self.pos = 0
        self.pc = []            # path condition incl. assumptions of this path
        self.model = None       # model of pc (or None if unknown)
        self.branch_timeout_ms = branch_timeout_ms
        self.prove_timeout_ms = prove_timeout_ms
        self.max_paths = max_paths
        self.deadline = deadline
        self.max_int_enum = max_int_enum
        self._fresh = 0
        self.fn_cache = {}
        self.fn_apps = {}
        self.stats = dict(paths=0, decisions=0, branch_queries=0, branch_unknown=0,
                          pruned=0, prove_queries=0, prove_unsat=0, prove_sat=0,
                          prove_unknown=0, solver_s=0.0, aborted_paths=0)
        self.concrete = False
        self.prefer = []
        self.clear_div = True
        from .cleardiv import Clearer
        self.clearer = Clearer()

    # -- per-path reset
    def begin_path(self):
        self.pos = 0
        self.pc = []
        self.model = None
        self._fresh = 0
        self.fn_cache = {}
        self.fn_apps = {}
        self.prefer = []
        self.nondet = False
        if self.deadline is not None and time.time() > self.deadline:
            raise Inconclusive("time budget exhausted after %d paths" % self.stats["paths"])
        if self.stats["paths"] >= self.max_paths:
            raise Inconclusive("path budget exhausted (%d)" % self.max_paths)

    def fresh(self):
        self._fresh += 1
        return self._fresh

    def _check(self, *extra, timeout):
        # a fresh (non-incremental) solver per query: z3 only uses its nlsat-based
        # tactics outside incremental/assumption mode (measured: 2 ms vs >60 s)
        t0 = time.time()
        self.solver = z3.Solver()
        self.solver.set("timeout", timeout)
        if self.clear_div:
            cl = self.clearer
            self.solver.add(*[cl.clear(f) for f in self.pc])
            self.solver.add(*[cl.clear(f) for f in extra])
        else:
            self.solver.add(*self.pc)
            self.solver.add(*extra)
        r = self.solver.check()
        self.stats["solver_s"] += time.time() - t0
        return r

    def assume(self, e, internal=False):
        """add an assumption to the current path"""
        if isinstance(e, SV):
            e = e.e
        if isinstance(e, bool):
            if e:
                return
            raise PathAbort("assumption is false")
        e = z3.simplify(e)
        if z3.is_true(e):
            return
        if z3.is_false(e):
            raise PathAbort("assumption is false")
        self.pc.append(e)
        if self.model is not None:
            try:
                v = self.model.eval(e, model_completion=True)
                if z3.is_true(v):
                    return
            except z3.Z3Exception:
                pass
            self.model = None

    def _model_side(self, e):
        if self.model is None:
            return None
        try:
            v = self.model.eval(e, model_completion=True)
        except z3.Z3Exception:
            return None
        if z3.is_true(v):
            return True
        if z3.is_false(v):
            return False
        return None

    def branch(self, e):
        e = z3.simplify(e)
        if z3.is_true(e):
            return True
        if z3.is_false(e):
            return False
        self.stats["decisions"] += 1
        if self.pos < len(self.trace):
            d = self.trace[self.pos][0]
            self.pos += 1
            self.pc.append(e if d else z3.Not(e))
            # the stored model of the flipped decision
            if self.pos == len(self.trace):
                self.model = self.trace[self.pos - 1][2]
            return d
        # new decision: literally implied by the path condition?
        eid = e.get_id()
        for f in self.pc:
            fid = f.get_id()
            if fid == eid:
                return self._forced(e, True)
            if z3.is_not(f) and f.arg(0).get_id() == eid:
                return self._forced(e, False)
            if z3.is_not(e) and e.arg(0).get_id() == fid:
                return self._forced(e, False)
        side = self._model_side(e)
        feas = {True: None, False: None}
        models = {True: None, False: None}
        if side is not None:
            feas[side] = True
            models[side] = self.model
        for d in (True, False):
            if feas[d] is None:
                self.stats["branch_queries"] += 1
                r = self._check(e if d else z3.Not(e), timeout=self.branch_timeout_ms)
                if r == z3.sat:
                    feas[d] = True
                    models[d] = self.solver.model()
                elif r == z3.unsat:
                    feas[d] = False
                else:
                    self.stats["branch_unknown"] += 1
                    feas[d] = True    # over-approximate: explore it
                    models[d] = None
        if feas[True] and feas[False]:
            first = side if side is not None else True
            self.trace.append([first, True, models[not first], None])
            d = first
        elif feas[True]:
            self.stats["pruned"] += 1
            self.trace.append([True, False, None, None])
            d = True
        elif feas[False]:
            self.stats["pruned"] += 1
            self.trace.append([False, False, None, None])
            d = False
        else:
            raise PathAbort("path condition infeasible")
        self.pos += 1
        self.pc.append(e if d else z3.Not(e))
        self.model = models[d]
        return d

    def _forced(self, e, d):
        self.stats["pruned"] += 1
        self.trace.append([d, False, None, None])
        self.pos += 1
        return d

    def _model_int(self, e):
        if self.model is not None:
            try:
                mv = self.model.eval(e, model_completion=True)
                if z3.is_int_value(mv):
                    return mv.as_long()
            except z3.Z3Exception:
                pass
        self.stats["branch_queries"] += 1
        r = self._check(timeout=self.branch_timeout_ms)
        if r == z3.unsat:
            raise PathAbort("infeasible at concretize")
        if r != z3.sat:
            raise Inconclusive("solver unknown while concretizing an index")
        self.model = self.solver.model()
        return self.model.eval(e, model_completion=True).as_long()

    def concretize_int(self, e):
        """fork over the feasible values of an Int term"""
        e = z3.simplify(e)
        if z3.is_int_value(e):
            return e.as_long()
        for _ in range(self.max_int_enum):
            if self.pos < len(self.trace):
                v = self.trace[self.pos][3]
            else:
                v = self._model_int(e)
            at = self.pos
            d = self.branch(e == v)
            if self.pos > at:
                self.trace[at][3] = v
            if d:
                return v
        raise Inconclusive("more than %d values for a symbolic index" % self.max_int_enum)

    def next_path(self):
        while self.trace and not self.trace[-1][1]:
            self.trace.pop()
        if not self.trace:
            return False
        last = self.trace[-1]
        last[0] = not last[0]
        last[1] = False
        return True

    # -- obligations
    def prove(self, prop, label, detail=None):
        """require pc |= prop"""
        if isinstance(prop, SV):
            prop = prop.e
        if isinstance(prop, (bool,)) or _is_np_bool(prop):
            self.stats["prove_queries"] += 1
            if bool(prop):
                self.stats["prove_unsat"] += 1
                return
            # concretely false on a feasible path: need a model of pc
            r = self._check(timeout=self.prove_timeout_ms)
            if r == z3.sat:
                self.stats["prove_sat"] += 1
                mdl = self.solver.model()
                if self.prefer:
                    r2 = self._check(*self.prefer, timeout=min(self.prove_timeout_ms, 20000))
                    if r2 == z3.sat:
                        mdl = self.solver.model()
                raise Counterexample(label, mdl, detail)
            if r == z3.unsat:
                raise PathAbort("infeasible")
            self.stats["prove_unknown"] += 1
            raise Inconclusive("unknown feasibility for failed concrete assertion %s" % label)
        self.stats["prove_queries"] += 1
        r = self._check(z3.Not(prop), timeout=self.prove_timeout_ms)
        if r == z3.unsat:
            self.stats["prove_unsat"] += 1
            return
        if r == z3.sat:
            self.stats["prove_sat"] += 1
            mdl = self.solver.model()
            if self.prefer:
                # a counterexample that also satisfies the harness's observability preferences, if one exists
                r2 = self._check(z3.Not(prop), *self.prefer, timeout=min(self.prove_timeout_ms, 20000))
                if r2 == z3.sat:
                    mdl = self.solver.model()
            raise Counterexample(label, mdl, detail)
        self.stats["prove_unknown"] += 1
        raise Inconclusive("solver returned unknown on obligation %s (%s)" % (label, self.solver.reason_unknown()))

    def feasible_model(self):
        if self.prefer:
            r = self._check(*self.prefer, timeout=min(self.prove_timeout_ms, 20000))
            if r == z3.sat:
                return self.solver.model()
        r = self._check(timeout=self.prove_timeout_ms)
        if r == z3.sat:
            return self.solver.model()
        return None


def explore(ctx_, body, on_path_end=None):
    """run body() once per feasible path. body may raise PathAbort."""
    set_ctx(ctx_)
    try:
        while True:
            ctx_.begin_path()
            try:
                body()
                ctx_.stats["paths"] += 1
                if on_path_end is not None:
                    on_path_end()
            except PathAbort:
                ctx_.stats["aborted_paths"] += 1
            if not ctx_.next_path():
                break
    finally:
        set_ctx(None)


def sv_div_nofork(a, b):
    """real division for use inside oracles: never forks; the caller guards b == 0
    (z3 division is total; concretely x/0 yields 0.0 which the guard must discard)"""
    if not isinstance(a, SV) and not isinstance(b, SV):
        return float(a) / float(b) if b != 0 else 0.0
    if not isinstance(b, SV) and b == 0:
        return 0.0
    ea, eb = _real_term(a), _real_term(b)
    return norm(ea / eb)


def square_of(x):
    """x*x, but when x is the result of a symbolic sqrt return its radicand term
    (so that oracles can compare squared distances without the auxiliary variable)"""
    if isinstance(x, SV):
        c = _CTX[0]
        if c is not None:
            for (e, y) in c.fn_apps.get("sqrt", []):
                if y.get_id() == x.e.get_id():
                    return norm(e)
    return x * x
